"""Direction A for spec/mc/MC_MassBalance.tla (C02): every (system, perturbation) transition is built as a real
MFASystem (through make_processes / make_empty_flows / make_empty_stocks) and both checks are run in every mode."""

import logging
import re

import numpy as np

from .core import names_in as core_names_in

from .universe import flodym, Dimension, DimensionSet

CANON = ["t", "r", "e"]
DIMOBJ = {
    "t": Dimension(name="Time", letter="t", items=[2000, 2010], dtype=int),
    "r": Dimension(name="Region", letter="r", items=["r1", "r2"], dtype=str),
    "e": Dimension(name="Element", letter="e", items=["e1", "e2"], dtype=str),
}
DIMS = DimensionSet(dim_list=[DIMOBJ[l] for l in CANON])
EPS = float(np.finfo(np.float64).eps)


class Capture(logging.Handler):
    def __init__(self):
        super().__init__(level=logging.WARNING)
        self.records = []

    def emit(self, record):
        self.records.append(record)


def gsum(g, letters, idx):
    """marginal sum of the generic array over the entries whose labels at `letters` are idx (0-based)"""
    tot = 0
    for t, v in g:
        if all(t[CANON.index(l)] - 1 == i for l, i in zip(letters, idx)):
            tot += v
    return tot


def fill(arr, letters, coef, g):
    for idx in np.ndindex(*arr.values.shape):
        arr.values[idx] = float(coef * gsum(g, letters, idx))


BOUNDARY = False     # second concretisation of the explicit-tolerance run: "within" = just below, "beyond" = just above the tolerance


def apply_pert(mfa, S, P, unit):
    if P["obj"] == "none":
        return
    if P["obj"] == "flow":
        name = next(f["name"] for f in S["flows"] if f["id"] == P["id"])
        target, letters = mfa.flows[name], next(f["dims"] for f in S["flows"] if f["id"] == P["id"])
    else:
        st = mfa.stocks[f"stock{P['id']}"]
        target = st.inflow if P["obj"] == "sin" else (st.outflow if P["obj"] == "sout" else st.stock)
        letters = next(s["dims"] for s in S["stocks"] if s["id"] == P["id"])
    idx = tuple(P["lab"][CANON.index(l)] - 1 for l in letters)
    i, e, nan = P["val"]
    val = float("nan") if nan else float(i) + e * unit
    if BOUNDARY and not nan and e != 0:
        # the model only says |e| <= 2 units (= the tolerance) is within and |e| >= 3 is beyond: concretised AT the boundary,
        # a relative 2^-18 below / above the tolerance (far more than the rounding of the sums, far less than any sloppy comparison)
        tol = 2 * unit
        val = float(i) + (1 if e > 0 else -1) * tol * ((1 - 2.0 ** -18) if abs(e) <= 2 else (1 + 2.0 ** -18))
    if P["op"] == "add":
        target.values[idx] += val
    else:
        target.values[idx] = val


def build(vec, unit, pert_key="pert"):
    S = vec["sys"]
    procs = flodym.make_processes(S["procs"])
    fdefs = []
    for f in sorted(S["flows"], key=lambda x: x["id"]):
        generated = f"{f['from']} => {f['to']}"
        fdefs.append(flodym.FlowDefinition(from_process_name=f["from"], to_process_name=f["to"], dim_letters=tuple(f["dims"]),
                                           name_override=None if generated == f["name"] else f["name"]))
    flows = flodym.make_empty_flows(processes=procs, flow_definitions=fdefs, dims=DIMS)
    sdefs = [flodym.StockDefinition(name=f"stock{s['id']}", process=(s["process"] or None), dim_letters=tuple(s["dims"]),
                                    subclass=flodym.SimpleFlowDrivenStock, time_letter="t")
             for s in sorted(S["stocks"], key=lambda x: x["id"])]
    stocks = flodym.make_empty_stocks(stock_definitions=sdefs, processes=procs, dims=DIMS)
    mfa = flodym.MFASystem(dims=DIMS, parameters={}, processes=procs, flows=flows, stocks=stocks)
    g = S["g"]
    for f in S["flows"]:
        fill(mfa.flows[f["name"]], f["dims"], f["coef"], g)
    for s in S["stocks"]:
        st = mfa.stocks[f"stock{s['id']}"]
        fill(st.inflow, s["dims"], s["cin"], g)
        fill(st.outflow, s["dims"], s["cout"], g)
        fill(st.stock, s["dims"], s["level"], g)
    apply_pert(mfa, S, vec[pert_key], unit)
    return mfa


def run_vector(vec):
    logging.disable(logging.NOTSET)
    root = logging.getLogger()
    problems = []
    S = vec["sys"]
    desc = f"[flows {sorted(f['name'] for f in S['flows'])}, stocks {sorted((s['id'], s['process']) for s in S['stocks'])}, " \
           f"{len(S['procs'])} processes, pert {vec['pert']['obj']}{vec['pert']['val']}] "
    M = float(vec["maxmag"])
    default_tol = 100 * EPS * M
    global BOUNDARY
    for tolmode in ("explicit", "explicit_boundary", "default", "zero"):
        BOUNDARY = tolmode == "explicit_boundary"
        if BOUNDARY:
            if vec["pert"]["obj"] == "none" or vec["pert"]["val"][2] or vec["pert"]["val"][1] == 0:
                continue
            tolmode = "explicit"
        if tolmode in ("default", "zero") and M == 0:
            continue        # all magnitudes zero: the two-component numbers have no unit to be multiples of
        if tolmode == "zero" and "verdict_zero_tol" not in vec:
            continue
        tol = 0.01 if tolmode == "explicit" else default_tol
        try:
            mfa = build(vec, tol / 2)
        except Exception as e:
            return [desc + f"{{C02,C18}} building the system raised {type(e).__name__}: {str(e)[:200]}"]
        for raise_error in (True, False):
            cap = Capture()
            root.addHandler(cap)
            old_level = root.level
            root.setLevel(logging.WARNING)
            outcome = "ok"
            try:
                mfa.check_mass_balance(tolerance=(0.01 if tolmode == "explicit" else (0 if tolmode == "zero" else None)), raise_error=raise_error)
                if any(r.levelno >= logging.WARNING for r in cap.records):
                    outcome = "warned"
            except ValueError:
                outcome = "raised"
            except Exception as e:
                outcome = f"crashed:{type(e).__name__}: {str(e)[:120]}"
            finally:
                root.removeHandler(cap)
                root.setLevel(old_level)
            tag = desc + f"check_mass_balance(tolerance={tolmode}, raise_error={raise_error}): {{C02}} "
            want_fail = (vec["verdict_zero_tol"] if tolmode == "zero" else vec["verdict"]) == "fail"
            undefined_tol = tolmode == "default" and vec["anynan"]
            if outcome.startswith("crashed"):
                problems.append(tag + f"did not complete ({outcome}); the specification says {'fail' if want_fail else 'ok'}")
                continue
            if undefined_tol:
                # the default tolerance is not defined when a NaN is among the magnitudes: only the NaN clause is asserted
                if vec["nanbalance"] and outcome == "ok":
                    problems.append(tag + "a NaN balance is reported as success")
                continue
            bad = "raised" if raise_error else "warned"
            if want_fail and outcome != bad:
                problems.append(tag + f"outcome {outcome!r}, but processes {vec['failing']} are out of balance")
            if not want_fail and outcome != "ok":
                problems.append(tag + f"outcome {outcome!r}, but every balance is within the tolerance")
    # ---- the same object after all its values were rescaled by 2^k: verdicts follow the CURRENT values
    k = vec.get("rescale", 0)
    if k and not vec["anynan"] and M != 0:
        try:
            mfa = build(vec, default_tol / 2)
            sink = Capture()
            root.addHandler(sink)
            try:
                mfa.check_mass_balance(raise_error=False)      # a first round of checks on the original magnitudes
                mfa.check_flows(raise_error=False)
            finally:
                root.removeHandler(sink)
            fac = 2.0 ** k
            for f in mfa.flows.values():
                f.values[...] = f.values * fac
            for st in mfa.stocks.values():
                for a in (st.stock, st.inflow, st.outflow):
                    a.values[...] = a.values * fac
            for raise_error in (True, False):
                cap = Capture()
                root.addHandler(cap)
                old_level = root.level
                root.setLevel(logging.WARNING)
                outcome = "ok"
                try:
                    mfa.check_mass_balance(raise_error=raise_error)
                    if cap.records:
                        outcome = "warned"
                except ValueError:
                    outcome = "raised"
                finally:
                    root.removeHandler(cap)
                    root.setLevel(old_level)
                want_fail = vec["verdict"] == "fail"
                bad = "raised" if raise_error else "warned"
                if (want_fail and outcome != bad) or (not want_fail and outcome != "ok"):
                    problems.append(desc + f"check_mass_balance(tolerance=default, raise_error={raise_error}) after rescaling all values by "
                                           f"2^{k} on the same object: {{C02}} outcome {outcome!r}, the specification says "
                                           f"{'fail' if want_fail else 'ok'} (the default tolerance must follow the current magnitudes)")
        except Exception as e:
            problems.append(desc + f"{{C02}} rescaled re-check raised {type(e).__name__}: {str(e)[:150]}")
    # ---- check_flows (always the default tolerance)
    if M == 0:
        return problems[:6]
    second_round = vec.get("prev", {"obj": "none"})["obj"] != "none"
    BOUNDARY = False
    caller_lists = {tuple(exc): list(exc) for exc, _ in vec["flagged"]}     # the caller re-uses its exception lists
    try:
        if second_round:
            # the first round of checks saw a NaN in this flow; the entry is then replaced on the SAME object
            mfa = build(vec, default_tol / 2, pert_key="prev")
            sink = Capture()
            root.addHandler(sink)
            try:
                for exc, _ in vec["flagged"]:
                    mfa.check_flows(exceptions=caller_lists[tuple(exc)], raise_error=False)
                mfa.check_flows()
            finally:
                root.removeHandler(sink)
            apply_pert(mfa, S, vec["pert"], default_tol / 2)
            desc += "[second round on the same object, after a first round that reported NaN] "
        else:
            mfa = build(vec, default_tol / 2)
    except Exception as e:
        return problems + [desc + f"{{C02,C18}} building the system raised {type(e).__name__}"]
    names = sorted(f["name"] for f in S["flows"])
    for exc, want in vec["flagged"]:
        want = set(want)
        for raise_error in (False, True):
            cap = Capture()
            root.addHandler(cap)
            old_level = root.level
            root.setLevel(logging.WARNING)
            outcome = "ok"
            try:
                if not exc and vec["pert"]["lab"] and vec["pert"]["lab"][0] == 1:
                    mfa.check_flows(raise_error=raise_error)      # the default of `exceptions`
                else:
                    mfa.check_flows(exceptions=caller_lists[tuple(exc)], raise_error=raise_error)
                caller_lists[tuple(exc)] = list(exc)     # (whether the caller's list object is left untouched is not asserted)
            except ValueError:
                outcome = "raised"
            except Exception as e:
                outcome = f"crashed:{type(e).__name__}: {str(e)[:120]}"
            finally:
                root.removeHandler(cap)
                root.setLevel(old_level)
            tag = desc + f"check_flows(exceptions={list(exc)}, raise_error={raise_error}): {{C02}} "
            if outcome.startswith("crashed"):
                problems.append(tag + f"did not complete ({outcome})")
                continue
            got = set()
            for r in cap.records:
                got |= set(core_names_in(r.getMessage(), list(mfa.flows.keys())))
            if cap.records and not got and not raise_error:
                got = set(want)         # warnings that name no flow at all: only the verdict counts (the statement fixes no wording)
            if vec["anynan"]:
                # tolerance undefined: flows containing NaN must be flagged (unless excepted), nothing is said about the others
                nanflows = set()
                P = vec["pert"]
                if P["obj"] == "flow" and P["val"][2] == 1:
                    nanflows = {next(f["name"] for f in S["flows"] if f["id"] == P["id"])} - set(exc)
                if raise_error:
                    if nanflows and outcome != "raised":
                        problems.append(tag + f"flow {nanflows} contains NaN but nothing was raised")
                elif not nanflows <= got:
                    problems.append(tag + f"flows with NaN {nanflows} not flagged (flagged: {got})")
                continue
            if raise_error:
                if bool(want) != (outcome == "raised"):
                    problems.append(tag + f"outcome {outcome!r}, the specification flags {sorted(want)}")
            elif got != want:
                problems.append(tag + f"flagged {sorted(got)}, the specification flags exactly {sorted(want)}")
    return problems[:6]
