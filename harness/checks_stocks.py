"""Checks decided by the stock / lifetime models: C03, C08, C09, C10, C16 (C17 in checks_stockobject)."""

import itertools
import random

from . import core
from .core import Model, Outcome
from . import replay_stocks, lifetime_closed

GRIDS = {
    "unit4": [2000, 2001, 2002, 2003],
    "const5": [2000, 2005, 2010, 2015],
    "uneven4": [2000, 2001, 2003, 2008],
    "uneven5": [1990, 1995, 1996, 2000, 2010],
    "uneven5b": [1990, 1992, 1999, 2005, 2010],      # same length, first and last year as uneven5, other interior years
    "n3": [1, 2, 4],
    "uneven6": [2000, 2002, 2003, 2007, 2008, 2020],
    "unit5": [7, 8, 9, 10, 11],
    "const10": [1900, 1910, 1920, 1930],
    "coarse_fine6": [2000, 2008, 2012, 2014, 2015, 2016],
}
PROPS = ["Prop_C03", "Prop_C09", "Prop_C10", "Prop_C16"]


def stock_model(grid, nl, family, setting, kind, p0, pc, pl, ncombos=2):
    g = GRIDS[grid]
    c = {f"G{i + 1}": (g[i] if i < len(g) else 0) for i in range(6)}
    c.update({"MCNL": nl, "MCFamily": family, "MCSetting": setting, "PrmKind": kind, "P0": p0, "PC": pc, "PL": pl,
              "NCombos": ncombos, "Emit": True})
    return Model("MC_Stocks.tla", c, invariants=PROPS + ["EmitInv"], workers=1,
                 label=f"MC_Stocks/{grid}/nl{nl}/{family}/{setting}/{kind}/p0={p0},pc={pc},pl={pl}")


def config_list(tier, seed):
    """(grid, nl, family, setting, kind, p0, pc, pl) - a fixed core plus seeded extras"""
    core_cfgs = [
        ("unit4", 1, "fixed", "middle", "scalar", 20, 0, 0),
        ("unit4", 2, "step", "start", "lab", 8, 0, 4),
        ("const5", 2, "fixed", "end", "both", 60, 8, 16),
        ("const5", 1, "step", "gl3", "cohort", 40, 8, 0),
        ("uneven4", 2, "fixed", "middle", "both", 12, 8, 4),
        ("uneven4", 4, "step", "gl2", "both", 12, 4, 4),
        ("uneven5", 2, "step", "middle", "lab", 24, 0, 16),
        ("uneven5", 1, "fixed", "gl3", "cohort", 30, 10, 0),
        ("uneven5b", 2, "step", "middle", "lab", 24, 0, 16),
        ("n3", 2, "step", "end", "scalar", 8, 0, 0),
        ("n3", 4, "fixed", "start", "lab", 10, 0, 6),
        ("uneven6", 1, "step", "middle", "cohort", 16, 4, 0),
        ("const10", 2, "fixed", "gl2", "both", 100, 20, 40),
        # one label whose cohorts vanish within their first interval next to an ordinary one (stock-driven: the
        # first is unspecified, the second must not be disturbed)
        ("unit4", 2, "fixed", "middle", "lab", 2, 0, 30),
        ("uneven4", 4, "fixed", "start", "both", 4, 0, 20),
        # later cohorts stay in the stock for MORE steps than the first one: lifetimes growing fast over the cohorts, and a
        # constant lifetime on a grid that goes from coarse to fine
        ("unit5", 1, "fixed", "middle", "cohort", 12, 16, 0),
        ("coarse_fine6", 2, "fixed", "middle", "lab", 96, 0, 8),
    ]
    rnd = random.Random(seed * 7919 + 13)
    extra = []
    n_extra = 6 if tier == "quick" else 150
    grids = list(GRIDS)
    for _ in range(n_extra):
        g = rnd.choice(grids)
        nl = rnd.choice([1, 2, 2, 3, 4] if len(GRIDS[g]) <= 5 else [1, 2])
        fam = rnd.choice(["fixed", "step"])
        setting = rnd.choice(["start", "middle", "end", "gl2", "gl3"])
        kind = rnd.choice(["scalar", "lab", "cohort", "both"]) if nl > 1 else rnd.choice(["scalar", "cohort"])
        span = GRIDS[g][1] - GRIDS[g][0]
        p0 = rnd.choice([6, 8, 12, 20, 28]) * max(1, span // 2 if span > 2 else 1)
        extra.append((g, nl, fam, setting, kind, p0, rnd.choice([0, 4, 8]), rnd.choice([0, 4, 12])))
    return core_cfgs + extra


def sig_stocks(vec, probs):
    import re
    p = probs[0]
    m = re.search(r"\] \{[^}]*\} (\w+)", p)
    return {"engine": "stocks", "cls": vec.get("cls", vec.get("model", "")), "what": m.group(1) if m else "",
            "family": vec["config"]["family"], "grid_uniform": len({b - a for a, b in zip(vec["config"]["grid"], vec["config"]["grid"][1:])}) == 1}


def run_stocks(out, prop, tier, want_structure=False):
    cfgs = config_list(tier, out.seed)
    models = [stock_model(*c) for c in cfgs]
    vectors = []
    for m, res in core.run_models(models, seed=out.seed, parallel=10):
        out.add_tlc(m, res)
        vectors += res.vectors
    bad = core.replay_parallel(replay_stocks.run_vector, vectors)
    out.replayed += len(vectors)
    out.samples += [core.sample_of({"config": {k: v["config"][k] for k in ("grid", "nl", "family", "setting", "prmkind", "prm8")},
                                    "cls": v["cls"], "driver": v["driver"], "stock": v["res"]["stock"]}, 900)
                    for v in vectors[:: max(1, len(vectors) // 3)][:3]]
    out.judge(core.for_property(bad, prop), "stocks", sig_stocks)
    byc = out.extra.setdefault("vectors_by_class", {})
    for v in vectors:
        byc[v["cls"]] = byc.get(v["cls"], 0) + 1
    out.extra["configurations"] = len(cfgs)
    return vectors


SETTINGS_ALL = ["start", "middle", "end"] + [f"gl{n}" for n in range(2, 11)]


def run_structure(out, prop, tier, vectors):
    """C08 for the scipy-based distributions: structure from TLC (A2, dt2, parameter table), closed forms here."""
    seen = {}
    for v in vectors:
        key = (tuple(v["config"]["grid"]), v["config"]["nl"], v["config"]["prmkind"], str(v["config"]["prm8"]))
        seen.setdefault(key, v["config"])
    svecs = []
    rnd = random.Random(out.seed + 5)
    for i, config in enumerate(seen.values()):
        if min(min(r) for r in config["prm8"]) < 4:
            continue
        settings = SETTINGS_ALL if tier == "thorough" or i < 4 else rnd.sample(SETTINGS_ALL, 4)
        for model in lifetime_closed.MODELS:
            for s in settings:
                svecs.append({"config": config, "model": model, "setting": s, "variant": (i + len(s)) % 6})
    bad = core.replay_parallel(lifetime_closed.run_structure_vector, svecs)
    out.replayed += len(svecs)
    out.extra["structure_vectors"] = len(svecs)
    out.samples.append(core.sample_of({"structure_vector": {"grid": svecs[0]["config"]["grid"], "a2": svecs[0]["config"]["a2"],
                                                            "dt2": svecs[0]["config"]["dt2"], "model": svecs[0]["model"],
                                                            "setting": svecs[0]["setting"]}}, 900))
    out.judge(core.for_property(bad, prop), "lifetime_structure", sig_stocks)
    q = lifetime_closed.quadrature_assumption_discharge()
    out.extra["quadrature_rules_checked"] = 9
    if q:
        out.judge([({"config": {"grid": [0, 1], "family": "quadrature"}, "model": "gauss_lobatto"}, q)], "quadrature",
                  lambda v, p: {"engine": "quadrature"})


COMMON_ASSUMPTIONS = [
    "exact lifetime families: flodym.FixedLifetime and a harness-side step-function LifetimeModel subclass (dyadic survival values) "
    "that exercises the library's shared machinery; quadrature settings with rational nodes (start/middle/end, 2- and 3-point rule)",
    "drivers: every unit impulse of the driver space, negative impulses and seeded small-integer combinations; values compared with "
    "exact rationals to 1e-9",
    "grids: unit, constant non-unit and uneven spacing with 3-6 items; up to 6 label combinations of the non-time dimensions; "
    "parameters scalar / per label / per cohort / both, handed over in permuted dimension orders",
]


def check_C03(tier, seed):
    out = Outcome("C03", tier, seed)
    run_stocks(out, "C03", tier)
    from .checks_relational import run_relational
    run_relational(out, "C03", tier)
    from .checks_stock_traces import run_stock_traces
    run_stock_traces(out, "C03", tier)
    from .checks_stock_l2 import run_l2
    run_l2(out, "C03", tier)
    out.assumptions += COMMON_ASSUMPTIONS + [
        "scipy-based lifetime models enter through the relational run: conservation is evaluated on the implementation's outputs"]
    return out.finish(rule="one vector per (configuration, stock class, driver); TLC computes all tables as exact rationals and checks "
                           "Conserves on them; flodym's outputs are compared and the conservation clause and check_stock_balance are evaluated")


def check_C09(tier, seed):
    out = Outcome("C09", tier, seed)
    run_stocks(out, "C09", tier)
    from .checks_relational import run_relational
    run_relational(out, "C09", tier)
    from .checks_stock_traces import run_stock_traces
    run_stock_traces(out, "C09", tier)
    from .checks_stock_l2 import run_l2
    run_l2(out, "C09", tier)
    out.assumptions += COMMON_ASSUMPTIONS
    return out.finish(rule="as C03; Prop_C09 (totals, triangularity, cohort share, cohort conservation, monotonicity) TLC-checked on the model; "
                           "get_stock_by_cohort / get_outflow_by_cohort compared with the exact tables")


def check_C10(tier, seed):
    out = Outcome("C10", tier, seed)
    run_stocks(out, "C10", tier)
    from .checks_relational import run_relational
    run_relational(out, "C10", tier)
    from .checks_stock_traces import run_stock_traces
    run_stock_traces(out, "C10", tier)
    from .checks_stock_l2 import run_l2
    run_l2(out, "C10", tier)
    out.assumptions += COMMON_ASSUMPTIONS + ["stock-driven vectors only for tables whose diagonal is non-zero (Solvable)"]
    return out.finish(rule="stock-driven vectors: the prescribed stock is the inflow-driven stock of an integer inflow; Prop_C10 (inverse) "
                           "TLC-checked; both solvers replayed")


def check_C16(tier, seed):
    out = Outcome("C16", tier, seed)
    run_stocks(out, "C16", tier)
    from .checks_relational import run_relational
    run_relational(out, "C16", tier)
    from .checks_stock_traces import run_stock_traces
    run_stock_traces(out, "C16", tier)
    out.assumptions += COMMON_ASSUMPTIONS + [
        "causality, scaling, label independence, impulse response and shift invariance are TLC-checked theorems of the model (Prop_C16); "
        "on the implementation they are evaluated between related runs (all lifetime models incl. the scipy-based ones)"]
    return out.finish(rule="every unit impulse per configuration (a basis) + combinations; relational runs: superposition, truncation, "
                           "single-label models, shifted calendars")


def check_C08(tier, seed):
    out = Outcome("C08", tier, seed)
    vectors = run_stocks(out, "C08", tier)
    run_structure(out, "C08", tier, vectors)
    from .checks_stock_traces import run_stock_traces
    run_stock_traces(out, "C08", tier)
    out.assumptions += COMMON_ASSUMPTIONS + [
        "ASSUMPTION DISCHARGE (numeric, not model checking): closed-form survival functions of the normal / folded normal / log-normal / "
        "Weibull distributions are evaluated with Python's math module; the ten Gauss-Lobatto rules are recomputed from Legendre "
        "polynomials and flodym's table is checked against them and against the exactness identities; tolerance 1e-9",
        "TLC decides the structure: which age (A2, dt2), cohort and parameter entry enter each cell, triangularity and table validity",
    ]
    return out.finish(rule="exact tables for the fixed / step families (TLC TableValid + equality); structure vectors for the four scipy-based "
                           "distributions x 12 settings x parameter shapes")


CHECKS = {"C03": check_C03, "C08": check_C08, "C09": check_C09, "C10": check_C10, "C16": check_C16}
