"""Direction A for spec/mc/MC_Ctor.tla: constructors and validators (C13)."""

import numpy as np

from .universe import Universe, FlodymArray, flodym
from .replay_arrays import snapshot, unchanged


def ctor_universe():
    return Universe(["t", "a", "b", "c"], [3, 2, 2, 3],
                    item_of=lambda l, i: (2000 + 5 * i) if l == "t" else f"{l}{i}")


def shape_ok(arr, what):
    v = arr.values
    if not isinstance(v, np.ndarray) or tuple(v.shape) != tuple(d.len for d in arr.dims):
        return [f"{{C13}} {what}: values shape {getattr(v, 'shape', type(v).__name__)} != dims shape {tuple(d.len for d in arr.dims)}"]
    if len(set(arr.dims.letters)) != len(arr.dims.letters):
        return [f"{{C13}} {what}: duplicate letters"]
    return []


def run_vector(vec):
    """every vector is run with the value array in several dtypes (a wrong shape is refused whatever the dtype), and stock
    constructors that must be refused also with the time dimension designated by its NAME instead of its letter"""
    cfg = vec["cfg"]
    problems = []
    if cfg["op"] == "array_ctor" and cfg["shape"] not in ([-1], [-2]):
        for dt in (np.float64, np.float32, np.float16, np.int64, np.int32):
            problems += [p.replace("{C13} ", f"{{C13}} [values dtype {np.dtype(dt).name}] ", 1) for p in run_one(vec, dtype=dt)]
            if problems:
                break
    else:
        problems += run_one(vec)
    if cfg["op"] == "stock_ctor" and vec["res"] == "error" and cfg["tl"] in ("t", "a", "b", "c"):
        problems += [p.replace("{C13} ", "{C13} [time dimension given by name] ", 1) for p in run_one(vec, tl_by_name=True)]
    return problems


def run_one(vec, dtype=np.float64, tl_by_name=False):
    cfg, exp = vec["cfg"], vec["res"]
    U = ctor_universe()
    op, cls_name, via, ds = cfg["op"], cfg["cls"], cfg["via"], cfg["ds"]
    problems = []
    raised = None
    made = []
    try:
        if op == "array_ctor":
            cls = getattr(flodym, cls_name)
            shape = cfg["shape"]
            if shape == [-1]:
                v = 3.0
            elif shape == [-2]:
                v = FlodymArray(dims=U.dimset(ds), values=np.full(tuple(len(U.labels(l)) for l in ds), 4.0))
            else:
                v = np.arange(1, (int(np.prod(shape)) if shape else 1) + 1, dtype=float).reshape(shape).astype(dtype)  # stays an ndarray for shape ()
                assert isinstance(v, np.ndarray)
            if via == "ctor":
                made.append(("constructed array", cls(dims=U.dimset(ds), values=v)))
            else:
                x = cls(dims=U.dimset(ds), values=np.full(tuple(len(U.labels(l)) for l in ds), 9.0))
                sx = snapshot(x)
                made.append(("target", x))
                try:
                    if via == "set_values":
                        x.set_values(v)
                    else:
                        x[...] = v
                except Exception as e:
                    raised = e
                    problems += unchanged(x, sx, "{C13} target after a refused " + via)
        elif op == "stock_ctor":
            cls = getattr(flodym, cls_name)
            kw = dict(dims=U.dimset(ds), time_letter=(U.name(cfg["tl"]) if tl_by_name else cfg["tl"]), name="s")
            if via != "none":
                kw[via] = flodym.StockArray(dims=U.dimset(cfg["b"]))
            if cls_name != "SimpleFlowDrivenStock":
                kw["lifetime_model"] = flodym.FixedLifetime
            s = cls(**kw)
            made += [("stock.stock", s.stock), ("stock.inflow", s.inflow), ("stock.outflow", s.outflow)]
            if tuple(s.dims.letters) != tuple(ds):
                problems.append("{C13} stock dims differ from the requested ones")
        elif op == "dsm_lifetime":
            cls = getattr(flodym, cls_name)
            lm = flodym.FixedLifetime(dims=U.dimset(cfg["b"]), time_letter="t", mean=2.0)
            s = cls(dims=U.dimset(ds), time_letter="t", lifetime_model=lm)
            made += [("stock.stock", s.stock), ("stock.inflow", s.inflow), ("stock.outflow", s.outflow)]
        elif op == "lifetime_prm":
            p = FlodymArray(dims=U.dimset(cfg["b"]), values=np.full(tuple(len(U.labels(l)) for l in cfg["b"]), 2.0))
            lm = flodym.FixedLifetime(dims=U.dimset(ds), time_letter="t", mean=p)
            if tuple(np.shape(lm.mean)) != tuple(len(U.labels(l)) for l in ds):
                problems.append(f"{{C13}} lifetime parameter stored with shape {np.shape(lm.mean)}")
        elif op == "lifetime_foreign":
            from .universe import Dimension, DimensionSet
            l = cfg["tl"]
            for extra_items in (1, -1):
                n = len(U.labels(l)) + extra_items
                if n < 1:
                    continue
                foreign = Dimension(name=U.name(l), letter=l, items=[U.item(l, 1)] + [f"o{i}" for i in range(n - 1)],
                                    dtype=(int if l == "t" else None)) if l != "t" else \
                    Dimension(name=U.name(l), letter=l, items=[1900 + i for i in range(n)], dtype=int)
                pdims = DimensionSet(dim_list=[foreign if m == l else U.dim(m) for m in cfg["b"]])
                p = FlodymArray(dims=pdims, values=np.full(tuple(d.len for d in pdims), 2.0))
                try:
                    if via == "ctor":
                        lm = flodym.FixedLifetime(dims=U.dimset(ds), time_letter="t", mean=p)
                    else:
                        lm = flodym.FixedLifetime(dims=U.dimset(ds), time_letter="t", mean=3.0)
                        before = np.array(lm.mean, copy=True)
                        try:
                            lm.set_prms(mean=p)
                        finally:
                            if tuple(np.shape(lm.mean)) != tuple(len(U.labels(m)) for m in ds) or not np.array_equal(np.asarray(lm.mean, dtype=float), before):
                                problems.append(f"{{C13}} a refused set_prms left the lifetime parameter with shape {np.shape(lm.mean)} / other values")
                    if tuple(np.shape(lm.mean)) != tuple(len(U.labels(m)) for m in ds):
                        problems.append(f"{{C13}} lifetime parameter stored with shape {np.shape(lm.mean)} instead of the model's {tuple(len(U.labels(m)) for m in ds)}")
                except Exception as e:
                    raised = e
                else:
                    raised = None
                    break
                if via != "ctor":
                    # the same refusal on the two-parameter models: ONE parameter is well-formed, the other one is the foreign array;
                    # the call must be refused and BOTH parameters stay exactly as they were (a refused call changes nothing)
                    for cname, names in (("NormalLifetime", ("mean", "std")), ("WeibullLifetime", ("weibull_shape", "weibull_scale")),
                                         ("LogNormalLifetime", ("mean", "std"))):
                        for bad_pos in (0, 1):
                            lm2 = getattr(flodym, cname)(dims=U.dimset(ds), time_letter="t", **{names[0]: 3.0, names[1]: 1.5})
                            before2 = [np.array(getattr(lm2, nm), copy=True) for nm in names]
                            kw = {names[bad_pos]: p, names[1 - bad_pos]: 5.0}
                            try:
                                lm2.set_prms(**kw)
                                problems.append(f"{{C13}} {cname}.set_prms accepted a parameter over a foreign same-letter dimension")
                            except Exception:
                                pass
                            after2 = [np.asarray(getattr(lm2, nm), dtype=float) for nm in names]
                            if any(a.shape != b.shape or not np.array_equal(a, b) for a, b in zip(after2, before2)):
                                problems.append(f"{{C13}} a refused {cname}.set_prms({names[bad_pos]}=<foreign>, {names[1 - bad_pos]}=5.0) changed "
                                                f"the model's parameters: {names[0]} {before2[0].ravel()[0]} -> {after2[0].ravel()[0]}, "
                                                f"{names[1]} {before2[1].ravel()[0]} -> {after2[1].ravel()[0]}")
        elif op == "assign_foreign":
            from .universe import Dimension, DimensionSet
            l = cfg["tl"]
            foreign = Dimension(name="other_" + l, letter=l, items=[f"o{i}" for i in range(len(U.labels(l)) + 1)])
            x = FlodymArray(dims=U.dimset(ds), values=np.full(tuple(len(U.labels(m)) for m in ds), 9.0))
            ydims = DimensionSet(dim_list=[foreign if m == l else U.dim(m) for m in ds])
            y = FlodymArray(dims=ydims, values=np.ones(tuple(d.len for d in ydims)))
            sx = snapshot(x)
            made.append(("target", x))
            try:
                if via == "ellipsis":
                    x[...] = y
                elif via == "empty_dict":
                    x[{}] = y
                else:
                    made.append(("sum of arrays with clashing dimensions", x + y))
            except Exception as e:
                raised = e
            problems += unchanged(x, sx, "{C13} target of an assignment from an array with a foreign same-letter dimension")
        else:
            return [f"MACHINERY: unknown op {op}"]
    except Exception as e:
        raised = e
    if exp == "error" and raised is None:
        # a whole-array assignment of an ndarray that does not have exactly the target's shape is also what C05 forbids
        tag = "{C13,C05}" if (op == "array_ctor" and via in ("set_values", "ellipsis") and list(cfg["shape"]) not in ([-1], [-2])) else "{C13}"
        problems.append(f"{tag} {op}/{cls_name}/{via}: ill-formed call was accepted (values of shape {list(cfg['shape'])} for dims {list(ds)})")
    if exp == "ok" and raised is not None:
        problems.append(f"{{C13}} {op}/{cls_name}/{via}: well-formed call raised {type(raised).__name__}: {str(raised)[:200]}")
    for what, a in made:
        problems += shape_ok(a, what)
    return problems
