"""Direction B for the stock properties: histories on ONE real stock object, recorded and validated by TLC
(spec/trace/Trace_Stocks.tla).

Grids are chosen so that every interval length is a power of two, drivers are small integers and the lifetime families
have survival shares in {0, 1/4, 1/2, 1}: every quantity the library computes is a dyadic rational, exactly
representable in float64, and is logged as an exact fraction.  Nothing here computes an expected table."""

import json
import os
import random
import re
import shutil

import numpy as np

from . import tlcrun
from .core import Machinery
from .universe import flodym
from .replay_stocks import Setup, StepLifetime, EXTRA

SENTINEL = [999999937, 1]       # logged for a value that is not a small dyadic rational (NaN, inf, 0.1, ...)


def frac(x):
    x = float(x)
    if x != x or x in (float("inf"), float("-inf")):
        return SENTINEL
    n, d = x.as_integer_ratio()
    if d > 2 ** 20 or abs(n) > 2 ** 30:
        return SENTINEL
    return [int(n), int(d)]


def rand_grid(rnd):
    n = rnd.randint(3, 6)
    if rnd.random() < 0.3:
        step = rnd.choice([1, 2, 4])
        steps = [step] * (n - 1)
    else:
        steps = [rnd.choice([1, 1, 2, 3])]
        while len(steps) < n - 1:
            options = [p - steps[-1] for p in (2, 4, 8, 16) if p - steps[-1] >= 1]
            steps.append(rnd.choice(options[:3]))
    g = [rnd.choice([1990, 2000, 2001])]
    for s in steps:
        g.append(g[-1] + s)
    return g


class Program:
    def __init__(self, seed):
        rnd = self.rnd = random.Random(seed)
        self.grid = rand_grid(rnd)
        self.n = len(self.grid)
        self.nl = rnd.choice([1, 2, 2, 3, 4, 6])
        self.cls = rnd.choice(["inflow", "inflow", "stock", "stock", "flow"])
        self.family = rnd.choice(["fixed", "step"])
        self.setting = rnd.choice(["start", "middle", "end", "gl2"])
        self.solver = rnd.choice(["manual", "lapack"])
        if self.cls == "stock" and self.setting == "gl2":
            self.family = "fixed"       # the diagonal survival share must be a power of two for the solved inflow to stay dyadic
        steps = [b - a for a, b in zip(self.grid, self.grid[1:])]
        self.dtmax = max(a + b for a, b in zip(steps, steps[1:])) // 2 if len(steps) > 1 else steps[0]
        self.events = []

    def rand_prm(self):
        rnd = self.rnd
        kind = rnd.choice(["scalar", "cohort", "lab", "both", "growing"])
        if self.nl == 1 and kind == "lab":
            kind = "scalar"
        lo = 8 * self.dtmax + 8 if (self.cls == "stock" and self.setting in ("start", "middle")) else 4
        hi = lo + 8 * rnd.choice([2, 6, 14])

        def val():
            return rnd.randint(lo, hi)
        if kind == "growing":
            # lifetimes growing fast over the cohorts: later cohorts stay for more steps than the first one does
            g = 8 * self.dtmax * rnd.choice([1, 2])
            pl = [rnd.choice([0, 8]) for _ in range(self.nl)]
            return "both", [[lo + g * c + pl[li] for li in range(self.nl)] for c in range(self.n)]
        base = val()
        pc = [0] * self.n if kind in ("scalar", "lab") else [rnd.randint(0, 24) for _ in range(self.n)]
        pl = [0] * self.nl if kind in ("scalar", "cohort") else [rnd.randint(0, 24) for _ in range(self.nl)]
        table = [[base + pc[c] + pl[li] for li in range(self.nl)] for c in range(self.n)]
        if kind == "both" and rnd.random() < 0.5:
            table = [[val() for _ in range(self.nl)] for _ in range(self.n)]
        return kind, table

    def cfg(self, kind, table):
        return {"grid": self.grid, "nl": self.nl, "family": self.family, "setting": self.setting, "prmkind": kind, "prm8": table,
                "dt2": [2] * self.n}

    def lab_index(self, S, li):
        return S.lab_idx[li]

    def build(self):
        rnd = self.rnd
        kind, table = self.rand_prm()
        S = self.S = Setup(self.cfg(kind, table))
        driver = [[rnd.randint(0, 9) for _ in range(self.nl)] for _ in range(self.n)]
        if rnd.random() < 0.12:
            driver = [[0] * self.nl for _ in range(self.n)]        # an all-zero driver (later entries are written one by one)
        int_typed = rnd.random() < 0.2          # the driver handed over as an integer-typed StockArray at construction
        driver2 = [[rnd.randint(0, 5) for _ in range(self.nl)] for _ in range(self.n)]
        if self.cls == "flow":
            st = flodym.SimpleFlowDrivenStock(dims=S.dims, time_letter="t", name="s")
            st.inflow.values[...] = S.ints1(driver)
            st.outflow.values[...] = S.ints1(driver2)
        else:
            lm, _ = S.lifetime_model(rnd.randint(0, 5), via_set_prms=rnd.random() < 0.5)
            if self.cls == "inflow" and int_typed:
                st = flodym.InflowDrivenDSM(dims=S.dims, time_letter="t", lifetime_model=lm, name="s",
                                            inflow=flodym.StockArray(dims=S.dims, values=S.ints1(driver).astype(np.int64)))
            elif self.cls == "inflow":
                st = flodym.InflowDrivenDSM(dims=S.dims, time_letter="t", lifetime_model=lm, name="s")
                st.inflow.values[...] = S.ints1(driver)
            elif int_typed:
                st = flodym.StockDrivenDSM(dims=S.dims, time_letter="t", lifetime_model=lm, solver=self.solver, name="s",
                                           stock=flodym.StockArray(dims=S.dims, values=S.ints1(driver).astype(np.int64)))
            else:
                st = flodym.StockDrivenDSM(dims=S.dims, time_letter="t", lifetime_model=lm, solver=self.solver, name="s")
                st.stock.values[...] = S.ints1(driver)
        self.st = st
        return {"driver": driver, "driver2": driver2, "prm8": table}

    def ev(self, **kw):
        base = {"op": "", "t": 0, "lab": 0, "val": 0, "prm8": [], "outcome": "", "stock": [], "inflow": [], "outflow": [], "sbc": [], "obc": [], "sf": []}
        base.update(kw)
        self.events.append(base)

    def tab1(self, arr):
        S = self.S
        a = np.asarray(arr, dtype=float)
        return [[frac(a[(t,) + S.lab_idx[li]]) for li in range(self.nl)] for t in range(self.n)]

    def tab2(self, arr):
        S = self.S
        a = np.asarray(arr, dtype=float)
        return [[[frac(a[(t, c) + S.lab_idx[li]]) for li in range(self.nl)] for c in range(self.n)] for t in range(self.n)]

    def do_compute(self):
        st = self.st
        try:
            st.compute()
        except Exception as e:
            self.ev(op="compute", outcome=f"error:{type(e).__name__}")
            return
        kw = dict(op="compute", outcome="ok", stock=self.tab1(st.stock.values), inflow=self.tab1(st.inflow.values),
                  outflow=self.tab1(st.outflow.values))
        if self.cls != "flow":
            kw["sbc"] = self.tab2(st.get_stock_by_cohort())
            kw["obc"] = self.tab2(st.get_outflow_by_cohort())
            kw["sf"] = self.tab2(st.lifetime_model.sf)
        self.ev(**kw)

    def do_set_driver(self):
        rnd, S, st = self.rnd, self.S, self.st
        t, li = rnd.randrange(self.n), rnd.randrange(self.nl)
        val = rnd.randint(0, 9)
        second = self.cls == "flow" and rnd.random() < 0.5
        target = st.outflow if second else (st.stock if self.cls == "stock" else st.inflow)
        target.values[(t,) + S.lab_idx[li]] = float(val)
        self.ev(op="set_driver2" if second else "set_driver", t=t + 1, lab=li + 1, val=val)

    def do_set_prm(self):
        kind, table = self.rand_prm()
        S2 = Setup(self.cfg(kind, table))
        arg = S2.prm_argument(self.rnd.randint(0, 5))
        name = "mean" if self.family == "fixed" else "period"
        try:
            self.st.lifetime_model.set_prms(**{name: arg})
        except Exception as e:
            self.ev(op="set_prm_raised", outcome=f"{type(e).__name__}: {str(e)[:100]}")     # a well-formed parameter was refused
            return
        self.ev(op="set_prm", prm8=table)

    def run(self, nsteps):
        try:
            init = self.build()
        except Exception as e:
            self.cls = self.cls if hasattr(self, "cls") else "?"
            z = [[0] * self.nl for _ in range(self.n)]
            self.ev(op="build_raised", outcome=f"{type(e).__name__}: {str(e)[:100]}")
            return {"grid": self.grid, "nl": self.nl, "family": self.family, "setting": self.setting, "cls": self.cls, "solver": self.solver,
                    "init": {"driver": z, "driver2": z, "prm8": [[8] * self.nl for _ in range(self.n)]}, "events": self.events}
        self.do_compute()
        while len(self.events) < nsteps:
            r = self.rnd.random()
            if r < 0.4:
                self.do_compute()
            elif r < 0.75 or self.cls == "flow":
                self.do_set_driver()
            else:
                self.do_set_prm()
        return {"grid": self.grid, "nl": self.nl, "family": self.family, "setting": self.setting, "cls": self.cls, "solver": self.solver,
                "init": init, "events": self.events}


def record_batch(ntraces, nsteps, seed):
    return {"traces": [Program(seed * 100003 + 31 * k).run(nsteps) for k in range(ntraces)]}


_ACC = re.compile(r'^<<"ACCEPTED", (\d+)>>')
_REJ = re.compile(r'^<<"REJECTED", (\d+), (\d+), "(.*)">>')


def validate_batch(batch, workers=4):
    tmp = tlcrun.scratch_dir()
    try:
        path = os.path.join(tmp, "traces.json")
        with open(path, "w") as f:
            json.dump(batch, f)
        lines = []
        cfg = "SPECIFICATION TraceSpec\nINVARIANT Verdict\nINVARIANT Theorems\nCHECK_DEADLOCK FALSE\n"
        res = tlcrun.run_tlc("Trace_Stocks.tla", cfg, workers=workers, env={"TRACE_FILE": path}, line_sink=lines.append)
    finally:
        shutil.rmtree(tmp, ignore_errors=True)
    if res.violation:
        raise Machinery(f"stock trace validation: TLC reports {res.violation}\n{res.tail[-1500:]}")
    acc, rej = set(), {}
    for ln in lines:
        m = _ACC.match(ln)
        if m:
            acc.add(int(m.group(1)))
        m = _REJ.match(ln)
        if m:
            rej[int(m.group(1))] = (int(m.group(2)), m.group(3))
    n = len(batch["traces"])
    if acc | set(rej) != set(range(1, n + 1)):
        raise Machinery(f"stock trace validation gave no verdict for traces {sorted(set(range(1, n + 1)) - acc - set(rej))[:10]}")
    return acc, rej, res
