"""Direction A for spec/mc/MC_Workflow.tla: the how-to system (build -> fill -> compute -> check -> export -> re-import)
run on formal parameters (polynomials must match the specification's) and numerically (the mass-balance check must
pass exactly when the product shares add up to one)."""

import numpy as np

from .poly import Poly
from .universe import flodym, Dimension, DimensionSet, FlodymArray

CANON = ["r", "p", "t"]
NAMES = ["sysenv => process_a", "process_a => process_b", "process_a => sysenv", "process_b => sysenv"]
ENDS = [("sysenv", "process_a"), ("process_a", "process_b"), ("process_a", "sysenv"), ("process_b", "sysenv")]


class MyMFASystem(flodym.MFASystem):
    """verbatim from howtos/05_working_with_mfa_system"""

    def compute(self):
        self.flows["sysenv => process_a"][...] = self.parameters["extraction"]
        product_flow = self.flows["sysenv => process_a"] * self.parameters["product_shares"]
        self.flows["process_a => process_b"][...] = (
            product_flow * self.parameters["process_a_yield"]
        )
        self.flows["process_a => sysenv"][...] = product_flow * (
            1.0 - self.parameters["process_a_yield"]
        )
        self.flows["process_b => sysenv"][...] = self.flows["process_a => process_b"]


def make_dims(lens):
    return {"r": Dimension(name="Region", letter="r", items=["EU", "US", "MEX"][: lens["r"]]),
            "p": Dimension(name="Product", letter="p", items=["A", "B"]),
            "t": Dimension(name="Time", letter="t", items=[2020, 2021][: lens["t"]], dtype=int)}


def labtuple(letters, idx):
    return tuple((idx[letters.index(l)] + 1) if l in letters else 0 for l in CANON)


def build(vec, mode, shares=None):
    D = make_dims(vec["lens"])
    dims = DimensionSet(dim_list=[D[l] for l in CANON])
    procs = flodym.make_processes(["sysenv", "process_a", "process_b"])
    fdefs = [flodym.FlowDefinition(from_process_name=a, to_process_name=b, dim_letters=tuple(o)) for (a, b), o in zip(ENDS, vec["orders"])]
    flows = flodym.make_empty_flows(processes=procs, flow_definitions=fdefs, dims=dims)
    if mode == "sym":
        for f in flows.values():       # pre-declared arrays that can hold formal values
            z = np.empty(f.values.shape, dtype=object)
            z[...] = Poly.const(0)
            f.set_values(z)

    def prm(name, k, letters, numeric):
        shape = tuple(D[l].len for l in letters)
        if mode == "sym":
            a = np.empty(shape, dtype=object)
            for idx in np.ndindex(*shape):
                a[idx] = Poly.gen(k, labtuple(letters, idx))
        else:
            a = np.array([numeric(idx) for idx in np.ndindex(*shape)], dtype=float).reshape(shape)
        return flodym.Parameter(name=name, dims=dims.get_subset(tuple(letters)), values=a)

    sh = shares or [0.6, 0.4]
    parameters = {"extraction": prm("extraction", 1, ["r", "t"], lambda i: 3.0 + i[0] + 0.5 * i[1]),
                  "product_shares": prm("product_shares", 2, ["p"], lambda i: sh[i[0]]),
                  "process_a_yield": prm("process_a_yield", 3, ["p"], lambda i: [0.8, 0.9][i[0]])}
    return MyMFASystem(dims=dims, processes=procs, flows=flows, parameters=parameters), D


def run_vector(vec):
    problems = []
    desc = f"[flow orders {vec['orders']}, lens {vec['lens']}] "
    # ---- formal parameters: the flows must be the specification's polynomials
    try:
        mfa, D = build(vec, "sym")
        mfa.compute()
        for name, exp in zip(NAMES, vec["flows"]):
            f = mfa.flows[name]
            if list(f.dims.letters) != list(exp["dims"]):
                problems.append(desc + f"{{C05}} flow {name!r} changed its dims to {f.dims.letters}")
                continue
            for t, pj in exp["val"]:
                idx = tuple(t[CANON.index(l)] - 1 for l in f.dims.letters)
                got = Poly.coerce(f.values[idx])
                if got is None or got != Poly.from_json(pj):
                    problems.append(desc + f"{{C01,C05,C04}} flow {name!r}{tuple(t)} = {f.values[idx]!r}, specification {Poly.from_json(pj)!r}")
                    break
        bal = mfa._get_mass_balance() if hasattr(mfa, "_get_mass_balance") else None
        if bal is not None:
            a = bal["process_a"]
            exp = vec["balA"]
            if set(a.dims.letters) != set(exp["dims"]):
                problems.append(desc + f"{{C02}} balance of process_a is over {a.dims.letters}, the common dimensions are {exp['dims']}")
            else:
                for t, pj in exp["val"]:
                    idx = tuple(t[CANON.index(l)] - 1 for l in a.dims.letters)
                    if Poly.coerce(a.values[idx]) != Poly.from_json(pj):
                        problems.append(desc + f"{{C02}} symbolic balance of process_a{tuple(t)} = {a.values[idx]!r}, specification "
                                               f"{Poly.from_json(pj)!r} (= extraction * (1 - sum of shares))")
                        break
            b = bal["process_b"]
            if any(Poly.coerce(v) != Poly.const(0) for v in np.asarray(b.values, dtype=object).ravel()):
                problems.append(desc + "{C02} symbolic balance of process_b is not identically zero")
    except Exception as e:
        problems.append(desc + f"{{C01,C05}} symbolic run raised {type(e).__name__}: {str(e)[:200]}")
    # ---- numbers: check passes iff the shares add up to one; exports read back
    for shares, balanced in (([0.6, 0.4], True), ([0.6, 0.3], False), ([0.25, 0.75], True)):
        try:
            mfa, D = build(vec, "num", shares)
            mfa.compute()
            try:
                mfa.check_mass_balance()
                ok = True
            except ValueError:
                ok = False
            if ok != balanced:
                problems.append(desc + f"{{C02}} product shares {shares}: check_mass_balance {'passes' if ok else 'raises'}, but the balance "
                                       f"of process_a is extraction * (1 - {sum(shares)})")
            from flodym.export.data_writer import convert_to_dict
            d = convert_to_dict(mfa, type="pandas")
            for name in NAMES:
                f = mfa.flows[name]
                back = FlodymArray.from_df(dims=f.dims, df=d["flows"][name])
                if not np.array_equal(back.values, f.values):
                    problems.append(desc + f"{{C19,C11}} exported flow {name!r} does not read back")
        except Exception as e:
            problems.append(desc + f"{{C02,C19}} numeric run (shares {shares}) raised {type(e).__name__}: {str(e)[:200]}")
    return problems[:6]
