"""Checks decided by the indexing / assignment model MC_Index: C05, C06 (single operations)."""

from . import core
from .core import Model, Outcome
from . import replay_index


def sig_index(vec, probs):
    cfg = vec["cfg"]
    kinds = "+".join(sorted(s["kind"] for _, s in cfg["key"]))
    sym = "raised" if any(" raised " in p for p in probs) else (
        "not_refused" if any("must be refused" in p for p in probs) else
        ("changed" if any("changed by the call" in p for p in probs) else "wrong"))
    return {"engine": "index", "op": cfg["op"], "rhs": cfg["rhs"], "kinds": kinds, "ndim_x": len(cfg["xd"]),
            "symptom": sym}


# kind patterns on 5-dimensional arrays and long dimensions with block-shaped subsets (MaxDims is irrelevant for the
# pattern families and kept at 1: TLC evaluates every constant definition of the module eagerly)
PATTERN_MODELS = [("getpat", "P22222", 1), ("getpat", "P23232", 1), ("setpat", "P22222", 1), ("get", "P52", 2), ("get", "P25", 2),
                  ("setnum", "P52", 2), ("setnum", "P25", 2), ("getpat", "P222222", 1), ("get", "P72", 2), ("setnum", "P27", 2), ("setnum", "P72", 2),
                  ("geterr", "P72", 2)]


def run_index(out, families, patterns, maxdims, invariants, prop, probe_alias=False, extra=()):
    models = []
    specs = [(fam, p, (maxdims[(fam, p)] if isinstance(maxdims, dict) else maxdims)) for fam in families for p in patterns]
    for fam, p, md in specs + list(extra):
        if True:
            models.append(Model("MC_Index.tla", {"Pattern": p, "Family": fam, "MaxDims": md, "Emit": True},
                                invariants=["TypeOK"] + invariants + ["EmitInv"], workers=2,
                                label=f"MC_Index/{fam}/{p}/maxdims{md}"))
    vectors = []
    for m, res in core.run_models(models, seed=out.seed, parallel=8):
        out.add_tlc(m, res)
        vectors += res.vectors
    replay_index.PROBE_ALIAS = probe_alias
    bad = core.replay_parallel(replay_index.run_vector, vectors)
    out.replayed += len(vectors)
    out.samples += [core.sample_of({k: v[k] for k in ("cfg", "res", "pattern")}) for v in vectors[:: max(1, len(vectors) // 3)][:3]]
    out.judge(core.for_property(bad, prop), "index", sig_index)
    kinds = {}
    for v in vectors:
        k = v["cfg"]["op"] + ":" + v["cfg"]["rhs"] + ":" + "+".join(sorted(s["kind"] for _, s in v["cfg"]["key"]))
        kinds[k] = kinds.get(k, 0) + 1
    out.extra.setdefault("selector_kind_patterns", {}).update(kinds)
    return vectors


def check_C06(tier, seed):
    out = Outcome("C06", tier, seed)
    if tier == "quick":
        pats, md = ["P322", "P222"], 3
    else:
        pats = ["P322", "P222", "P232", "P223", "P2222", "P3222"]
        md = {(f, p): (4 if len(p) == 5 and f in ("get", "geterr") else 3) for f in ("get", "geterr", "setnum") for p in pats}
    # (writes with an ARRAY source in every order of the region's dims on equal-length dimensions: "arranged in the
    # remaining dimensions' order" is C06's clause as much as C05's)
    run_index(out, ["get", "geterr", "setnum"], pats, md, ["Prop_C06", "Prop_C05"], "C06",
              extra=PATTERN_MODELS + [("setarr", "P222", 2 if tier == "quick" else 3)])
    from .checks_traces import run_traces
    run_traces(out, "C06", tier)
    # L2: numpy's axis-order rule + flodym's open-mesh conversion refine the contract's labelling for every index
    # vector (ArrayStore.tla); the pre-fix conversion rule must NOT (non-vacuity)
    from . import tlcrun
    from .core import Machinery
    for variant, must_hold in (("current", True), ("pre_fix", False)):
        lines = []
        r = tlcrun.run_tlc("MC_ArrayStore.tla", tlcrun.cfg_text(constants={"Variant": variant, "MaxAxes": 5 if tier == "quick" else 7},
                                                                   invariants=["PrintWitness", "Prop_Order"]), workers=1, line_sink=lines.append)
        if must_hold and r.violation:
            raise Machinery(f"ArrayStore refinement fails for the current conversion rule: {lines[:1]}")
        if not must_hold and not r.violation:
            raise Machinery("ArrayStore refinement holds for the pre-fix conversion rule: the L2 model is vacuous")
        out.extra.setdefault("l2_arraystore", {})[variant] = {"holds": not r.violation, "witness": lines[:1]}
    out.exhaustive = True
    out.assumptions += [
        "direction B: recorded random programs (reads and writes with random keys on arrays of up to 5 dimensions) validated by TLC",
        "every key is replayed under every applicable spelling (dict by letter, dict by name, tuple, single item, "
        "Ellipsis / empty dict) in symbolic mode and on float64 arrays in C and Fortran layout",
        "subset Dimensions per base dimension: a reordered multi-item subset, a single-item subset and (length 3) a full reordering",
        "bounded universe: arrays of <= 3 (thorough: 4) dimensions with lengths 2..3 including equal lengths",
        "items_where / split are covered by the workspace model (C13/C15 engines) and by C20's plot vectors",
    ]
    return out.finish(rule="one vector per (ordered array dims, per-dimension selector combination); selector kinds "
                           "none/single/subset/list in all positions; writes of a number and of an ndarray; refused key kinds")


def check_C05(tier, seed):
    out = Outcome("C05", tier, seed)
    if tier == "quick":
        pats, md = ["P322", "P222"], 3
    else:
        pats, md = ["P322", "P222", "P232", "P223", "P2222"], 3
    run_index(out, ["setarr", "setnum"], pats, md, ["Prop_C05"], "C05", extra=[m for m in PATTERN_MODELS if m[0] in ("setpat", "setnum")])
    from .checks_workspace import run_workspace  # histories of assignments
    run_workspace(out, "C05", tier)
    from .checks_traces import run_traces
    run_traces(out, "C05", tier)
    from .checks_ctor import run_ctor
    run_ctor(out, "C05", tier)      # whole-array ndarray assignment: every wrong shape (permuted, other rank with equal size, broadcastable)
    from .checks_lifecycle import run_lifecycle_traces
    run_lifecycle_traces(out, "C05", tier)
    from .checks_system import run_workflow
    run_workflow(out, "C05", tier)
    out.assumptions += [
        "array sources: every order of the region's dims, every order with one surplus dimension (summed by label), every list "
        "lacking one region dimension (refused); list selections are only combined with number sources (the statement leaves "
        "list + array source open)",
        "histories of assignments to overlapping regions, ndarray aliasing and refused whole-array assignments come from MC_Workspace",
    ]
    return out.finish(rule="single assignments: one vector per (target dims, key, source kind, ordered source dims); "
                           "histories: TLC behaviours of MC_Workspace replayed step by step")


CHECKS = {"C06": check_C06, "C05": check_C05}
