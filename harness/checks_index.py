"""Checks decided by the indexing / assignment model MC_Index: C05, C06 (single operations)."""

from . import core
from .core import Model, Outcome
from . import replay_index


def sig_index(vec, probs):
    cfg = vec["cfg"]
    kinds = "+".join(sorted(s["kind"] for _, s in cfg["key"]))
    sym = "raised" if any(" raised " in p for p in probs) else (
        "not_refused" if any("must be refused" in p for p in probs) else
        ("changed" if any("changed by the call" in p for p in probs) else "wrong"))
    return {"engine": "index", "op": cfg["op"], "rhs": cfg["rhs"], "kinds": kinds, "ndim_x": len(cfg["xd"]),
            "symptom": sym}


def run_index(out, families, patterns, maxdims, invariants, prop, probe_alias=False):
    models = []
    for fam in families:
        for p in patterns:
            md = maxdims[(fam, p)] if isinstance(maxdims, dict) else maxdims
            models.append(Model("MC_Index.tla", {"Pattern": p, "Family": fam, "MaxDims": md, "Emit": True},
                                invariants=["TypeOK"] + invariants + ["EmitInv"], workers=2,
                                label=f"MC_Index/{fam}/{p}/maxdims{md}"))
    vectors = []
    for m, res in core.run_models(models, seed=out.seed, parallel=8):
        out.add_tlc(m, res)
        vectors += res.vectors
    replay_index.PROBE_ALIAS = probe_alias
    bad = core.replay_parallel(replay_index.run_vector, vectors)
    out.replayed += len(vectors)
    out.samples += [core.sample_of({k: v[k] for k in ("cfg", "res", "pattern")}) for v in vectors[:: max(1, len(vectors) // 3)][:3]]
    out.judge(core.for_property(bad, prop), "index", sig_index)
    kinds = {}
    for v in vectors:
        k = v["cfg"]["op"] + ":" + v["cfg"]["rhs"] + ":" + "+".join(sorted(s["kind"] for _, s in v["cfg"]["key"]))
        kinds[k] = kinds.get(k, 0) + 1
    out.extra.setdefault("selector_kind_patterns", {}).update(kinds)
    return vectors


def check_C06(tier, seed):
    out = Outcome("C06", tier, seed)
    if tier == "quick":
        pats, md = ["P322", "P222"], 3
    else:
        pats = ["P322", "P222", "P232", "P223", "P2222", "P3222"]
        md = {(f, p): (4 if len(p) == 5 and f in ("get", "geterr") else 3) for f in ("get", "geterr", "setnum") for p in pats}
    run_index(out, ["get", "geterr", "setnum"], pats, md, ["Prop_C06", "Prop_C05"], "C06")
    from .checks_traces import run_traces
    run_traces(out, "C06", tier)
    out.exhaustive = True
    out.assumptions += [
        "direction B: recorded random programs (reads and writes with random keys on arrays of up to 5 dimensions) validated by TLC",
        "every key is replayed under every applicable spelling (dict by letter, dict by name, tuple, single item, "
        "Ellipsis / empty dict) in symbolic mode and on float64 arrays in C and Fortran layout",
        "subset Dimensions per base dimension: a reordered multi-item subset, a single-item subset and (length 3) a full reordering",
        "bounded universe: arrays of <= 3 (thorough: 4) dimensions with lengths 2..3 including equal lengths",
        "items_where / split are covered by the workspace model (C13/C15 engines) and by C20's plot vectors",
    ]
    return out.finish(rule="one vector per (ordered array dims, per-dimension selector combination); selector kinds "
                           "none/single/subset/list in all positions; writes of a number and of an ndarray; refused key kinds")


def check_C05(tier, seed):
    out = Outcome("C05", tier, seed)
    if tier == "quick":
        pats, md = ["P322", "P222"], 3
    else:
        pats, md = ["P322", "P222", "P232", "P223", "P2222"], 3
    run_index(out, ["setarr", "setnum"], pats, md, ["Prop_C05"], "C05")
    from .checks_workspace import run_workspace  # histories of assignments
    run_workspace(out, "C05", tier)
    from .checks_traces import run_traces
    run_traces(out, "C05", tier)
    out.assumptions += [
        "array sources: every order of the region's dims, every order with one surplus dimension (summed by label), every list "
        "lacking one region dimension (refused); list selections are only combined with number sources (the statement leaves "
        "list + array source open)",
        "histories of assignments to overlapping regions, ndarray aliasing and refused whole-array assignments come from MC_Workspace",
    ]
    return out.finish(rule="single assignments: one vector per (target dims, key, source kind, ordered source dims); "
                           "histories: TLC behaviours of MC_Workspace replayed step by step")


CHECKS = {"C06": check_C06, "C05": check_C05}
