"""Direction A for spec/mc/MC_Stocks.tla: stock classes over exact lifetime families.

Every TLC transition (class, driver) of a configuration (grid, labels, family, setting, parameters) is run on
the real classes; all tables are compared with the exact rationals TLC computed, and the clauses of the
properties are evaluated on the implementation's own outputs.  Problems carry {Cxx} tags."""

import itertools
from fractions import Fraction
from typing import Any

import numpy as np

from .universe import flodym, Dimension, DimensionSet, FlodymArray

TOL = 1e-9


class StepLifetime(flodym.LifetimeModel):
    """Survival 1, 1/2, 1/4, 0 for floor(age / period) = 0, 1, 2, >= 3 (spec/Lifetime.tla, family "step").
    Only the distribution is defined here; ages, quadrature, tiling, parameter casting and the outflow
    probabilities are the library's."""
    period: Any = None

    @property
    def prms(self):
        return {"period": self.period}

    def set_prms(self, period):
        self.period = self.cast_any_to_np_array(period)
        self._sf = None
        self._pdf = None

    def _survival_by_year_id(self, t, m):
        k = np.floor(t / self.period[m, ...])
        return np.select([k < 1, k < 2, k < 3], [1.0, 0.5, 0.25], 0.0)


def F(x):
    return Fraction(x[0], x[1]) if x[1] != 0 else None      # <<0, 0>> = left unspecified by the model


def close(a, b, scale=1.0):
    a, b = float(a), float(b)
    if a != a or b != b or abs(a) == float("inf"):
        return False
    return abs(a - b) <= TOL * max(1.0, abs(a), abs(b), scale)


EXTRA = {1: [], 2: [("r", 2)], 3: [("r", 3)], 4: [("r", 2), ("s", 2)], 6: [("r", 3), ("s", 2)]}


class Setup:
    """dims and label bookkeeping for one configuration"""

    def __init__(self, config, shift=0):
        self.cfg = config
        self.grid = [g + shift for g in config["grid"]]
        self.n = len(self.grid)
        self.nl = config["nl"]
        self.extra = EXTRA[self.nl]
        self.tdim = Dimension(name="Time", letter="t", items=list(self.grid), dtype=int)
        self.edims = [Dimension(name="dim_" + l, letter=l, items=[f"{l}{i + 1}" for i in range(k)]) for l, k in self.extra]
        self.dims = DimensionSet(dim_list=[self.tdim] + self.edims)
        # label index (1-based, row-major over the extra dims in dims order) -> index tuple
        self.lab_idx = list(itertools.product(*[range(k) for _, k in self.extra])) or [()]
        self.dt = [Fraction(x, 2) for x in config["dt2"]]

    def table1(self, tab):
        """[t][lab] rationals -> ndarray of Fractions shape (n, *extra)"""
        a = np.empty((self.n,) + tuple(k for _, k in self.extra), dtype=object)
        for t in range(self.n):
            for li, idx in enumerate(self.lab_idx):
                a[(t,) + idx] = F(tab[t][li])
        return a

    def table2(self, tab):
        a = np.empty((self.n, self.n) + tuple(k for _, k in self.extra), dtype=object)
        for t in range(self.n):
            for c in range(self.n):
                for li, idx in enumerate(self.lab_idx):
                    a[(t, c) + idx] = F(tab[t][c][li])
        return a

    def ints1(self, tab):
        a = np.zeros((self.n,) + tuple(k for _, k in self.extra))
        for t in range(self.n):
            for li, idx in enumerate(self.lab_idx):
                a[(t,) + idx] = float(tab[t][li])
        return a

    def prm_argument(self, variant):
        """The lifetime parameter as the user would pass it, by kind; `variant` picks a storage order."""
        cfg = self.cfg
        p8 = cfg["prm8"]
        kind = cfg["prmkind"]
        if kind == "scalar":
            return p8[0][0] / 8.0
        full = np.zeros((self.n,) + tuple(k for _, k in self.extra))
        for c in range(self.n):
            for li, idx in enumerate(self.lab_idx):
                full[(c,) + idx] = p8[c][li] / 8.0
        arr = FlodymArray(dims=self.dims, values=full)
        if kind == "cohort":
            letters = ["t"]
            v = full[(slice(None),) + (0,) * len(self.extra)]
            return FlodymArray(dims=self.dims.get_subset(("t",)), values=np.array(v))
        if kind == "lab":
            letters = [l for l, _ in self.extra]
            sub = FlodymArray(dims=self.dims.get_subset(tuple(letters)), values=np.array(full[0]))
        else:
            letters = ["t"] + [l for l, _ in self.extra]
            sub = arr
        perms = list(itertools.permutations(letters))
        order = perms[variant % len(perms)]
        # re-store in another dimension order (C04: parameters are cast by label)
        tgt = self.dims.get_subset(tuple(order))
        vals = np.einsum(f"{''.join(sub.dims.letters)}->{''.join(order)}", sub.values)
        return FlodymArray(dims=tgt, values=np.ascontiguousarray(vals))

    def lifetime_model(self, variant, via_set_prms):
        cfg = self.cfg
        setting = cfg["setting"]
        kw = dict(dims=self.dims, time_letter="t")
        if setting in ("start", "middle", "end"):
            kw["inflow_at"] = setting
        else:
            kw["n_pts_per_interval"] = int(setting[2:])
            kw["inflow_at"] = ["start", "middle", "end"][variant % 3]     # documented to be ignored for n > 1
        prm = self.prm_argument(variant)
        name = "mean" if cfg["family"] == "fixed" else "period"
        cls = flodym.FixedLifetime if cfg["family"] == "fixed" else StepLifetime
        snap = None
        if isinstance(prm, FlodymArray):
            snap = (tuple(prm.dims.letters), prm.values.copy())
        if via_set_prms:
            lm = cls(**kw)
            lm.set_prms(**{name: prm})
        else:
            lm = cls(**kw, **{name: prm})
        probs = []
        if snap is not None and (tuple(prm.dims.letters) != snap[0] or not np.array_equal(prm.values, snap[1])):
            probs.append("{C15} lifetime parameter array modified by the lifetime model")
        return lm, probs


def cmp_table(got, exp, what, tag, scale=1.0, limit=3):
    probs = []
    got = np.asarray(got)
    if got.shape != exp.shape:
        return [f"{tag} {what}: shape {got.shape} != {exp.shape}"]
    for idx in np.ndindex(*exp.shape):
        if exp[idx] is None:
            continue
        if not close(got[idx], exp[idx], scale):
            probs.append(f"{tag} {what}{list(idx)} = {float(got[idx])!r}, specification {float(exp[idx])!r} ({exp[idx]})")
            if len(probs) >= limit:
                break
    return probs


def conservation(S, stock, inflow, outflow, tag="{C03}"):
    """stock(t) - stock(t-1) = dt(t) * (inflow(t) - outflow(t)), stock(-1) = 0, on the implementation's outputs"""
    probs = []
    scale = max(1.0, float(np.max(np.abs(stock))), float(np.max(np.abs(inflow))) * float(max(S.dt)))
    prev = np.zeros_like(stock[0])
    for t in range(S.n):
        lhs = stock[t] - prev
        rhs = float(S.dt[t]) * (inflow[t] - outflow[t])
        if not np.all(np.abs(lhs - rhs) <= TOL * scale) or np.any(np.isnan(lhs - rhs)):
            probs.append(f"{tag} stock change at step {t} is {np.ravel(lhs)[:4]}, dt*(inflow-outflow) is {np.ravel(rhs)[:4]} (dt={float(S.dt[t])})")
            break
        prev = stock[t]
    return probs


def run_vector(vec):
    config = vec["config"]
    cls = vec["cls"]
    problems = []
    variant = (sum(sum(r) for r in vec["driver"]) + len(vec["driver"])) % 6
    stockint = cls == "stockint"
    if stockint:
        cls = "stock"
    runs = [(sv, False) for sv in (("manual", "lapack") if cls == "stock" else (None,))]
    # the driver handed over as an INTEGER-typed StockArray at construction (unit counts): results must not be truncated
    stock_is_integral = all(x[1] == 1 for row in vec["res"]["stock"] for x in row)
    if cls == "inflow" or (cls == "stock" and stock_is_integral):
        runs += [(sv, True) for sv in (("manual", "lapack") if cls == "stock" else (None,))]
    for solver, int_driver in runs:
        S = Setup(config)
        e_stock, e_in, e_out = S.table1(vec["res"]["stock"]), S.table1(vec["res"]["inflow"]), S.table1(vec["res"]["outflow"])
        tagc = f"[{cls}{'/' + solver if solver else ''}{'/int-typed driver' if int_driver else ''}] "
        try:
            if cls == "flow":
                st = flodym.SimpleFlowDrivenStock(dims=S.dims, time_letter="t", name="s")
                st.inflow.values[...] = S.ints1(vec["driver"])
                st.outflow.values[...] = S.ints1(vec["driver2"])
                st.compute()
            else:
                lm, p = S.lifetime_model(variant, via_set_prms=bool(variant % 2))
                problems += [tagc + x for x in p]
                if cls == "inflow":
                    if int_driver:
                        st = flodym.InflowDrivenDSM(dims=S.dims, time_letter="t", lifetime_model=lm, name="s",
                                                    inflow=flodym.StockArray(dims=S.dims, values=S.ints1(vec["driver"]).astype(np.int64)))
                    else:
                        st = flodym.InflowDrivenDSM(dims=S.dims, time_letter="t", lifetime_model=lm, name="s")
                        st.inflow.values[...] = S.ints1(vec["driver"])
                else:
                    if int_driver:
                        st = flodym.StockDrivenDSM(dims=S.dims, time_letter="t", lifetime_model=lm, solver=solver, name="s",
                                                   stock=flodym.StockArray(dims=S.dims, values=e_stock.astype(float).astype(np.int64)))
                    else:
                        st = flodym.StockDrivenDSM(dims=S.dims, time_letter="t", lifetime_model=lm, solver=solver, name="s")
                        st.stock.values[...] = e_stock.astype(float)
                driver_snapshot = (st.inflow.values.copy(), st.stock.values.copy())
                st.compute()
        except Exception as e:
            partly = any(x[1] == 0 for row in vec["res"]["inflow"] for x in row)
            if cls == "stock" and solver == "lapack" and partly:
                continue   # a singular system for SOME label: refusing the whole solve is acceptable
            problems.append(tagc + f"{{C03,C09,C10,C16}} compute raised {type(e).__name__}: {str(e)[:200]}")
            continue
        scale = max(1.0, float(max(abs(x) for x in e_stock.ravel() if x is not None)))
        ok_lab = np.array([[x is not None for x in row] for row in e_in.reshape(S.n, -1)]).all(axis=0).reshape(e_in.shape[1:])
        sf_ok = True
        if cls != "flow":
            e_sf, e_pdf = S.table2(vec["sf"]), S.table2(vec["pdf"])
            p = cmp_table(st.lifetime_model.sf, e_sf, "sf", "{C08}") + cmp_table(st.lifetime_model.pdf, e_pdf, "pdf", "{C08}")
            sf_ok = not p
            problems += [tagc + x for x in p]
            # the driver must not be altered by compute
            if cls == "inflow" and not np.array_equal(st.inflow.values, driver_snapshot[0]):
                problems.append(tagc + "{C15,C17} compute changed the inflow driver")
            if cls == "stock" and not np.array_equal(st.stock.values, driver_snapshot[1]):
                problems.append(tagc + "{C15,C17,C10} compute changed the prescribed stock")
        # --- clauses evaluated on the implementation's own outputs
        if ok_lab.ndim == 0:
            sel = lambda a: a if bool(ok_lab) else a[:0]
        else:
            sel = lambda a: a[:, ok_lab]
        all_ok = bool(np.all(ok_lab))
        if sel(st.stock.values).size:
            problems += [tagc + x for x in conservation(S, sel(st.stock.values), sel(st.inflow.values), sel(st.outflow.values))]
        # --- equality with the specification's tables
        if sf_ok:
            if cls == "flow":
                problems += [tagc + x for x in cmp_table(st.stock.values, e_stock, "stock", "{C03}", scale)]
            elif cls == "inflow":
                problems += [tagc + x for x in cmp_table(st.stock.values, e_stock, "stock", "{C09,C16}", scale)]
                problems += [tagc + x for x in cmp_table(st.outflow.values, e_out, "outflow", "{C03,C09}", scale)]
            else:
                problems += [tagc + x for x in cmp_table(st.inflow.values, e_in, "inflow", "{C10,C16}", scale)]
                problems += [tagc + x for x in cmp_table(st.outflow.values, e_out, "outflow", "{C10,C03}", scale)]
            if cls != "flow":
                tg = ("{C09,C10,C16}" if int_driver else "{C09,C10}") if cls == "stock" else "{C09}"
                problems += [tagc + x for x in cmp_table(st.get_stock_by_cohort(), S.table2(vec["res"]["sbc"]), "stock_by_cohort", tg, scale)]
                problems += [tagc + x for x in cmp_table(st.get_outflow_by_cohort(), S.table2(vec["res"]["obc"]), "outflow_by_cohort", tg, scale)]
        # --- the driver handed over in ANOTHER order of the non-time dimensions (equal lengths): refused, or used by label
        if len(S.extra) >= 2 and cls in ("inflow", "flow") and not int_driver and not problems:
            try:
                letters = ["t"] + [l for l, _ in S.extra][::-1]
                pdims = S.dims.get_subset(tuple(letters))
                turn = lambda a: np.ascontiguousarray(np.einsum("t" + "".join(l for l, _ in S.extra) + "->" + "".join(letters), a))
                drv = flodym.StockArray(dims=pdims, values=turn(S.ints1(vec["driver"])))
                try:
                    if cls == "flow":
                        st2 = flodym.SimpleFlowDrivenStock(dims=S.dims, time_letter="t", name="s", inflow=drv,
                                                           outflow=flodym.StockArray(dims=pdims, values=turn(S.ints1(vec["driver2"]))))
                    else:
                        lm2, _ = S.lifetime_model(variant, via_set_prms=False)
                        st2 = flodym.InflowDrivenDSM(dims=S.dims, time_letter="t", lifetime_model=lm2, name="s", inflow=drv)
                except Exception:
                    st2 = None          # refused: fine
                if st2 is not None:
                    st2.compute()
                    if tuple(st2.stock.dims.letters) != tuple(S.dims.letters) or cmp_table(st2.stock.values, e_stock, "stock", "{C03}", scale):
                        problems.append(tagc + "{C03,C13,C09} a driver array whose non-time dimensions are stored in another order was accepted and "
                                               "used by position: the stock is not the stock of the labelled inflow")
            except Exception as e:
                problems.append(tagc + f"{{C03}} permuted-driver construction raised {type(e).__name__}: {str(e)[:120]}")
        # --- the library's own balance check accepts a computed stock and rejects a perturbed one
        if not all_ok:
            continue
        try:
            bal = st.get_stock_balance()
            if not np.all(np.abs(bal) <= 1e-6 * scale):
                problems.append(tagc + f"{{C03}} get_stock_balance() of a correctly computed stock is {float(np.max(np.abs(bal)))}")
            st.check_stock_balance()
        except Exception as e:
            problems.append(tagc + f"{{C03}} check_stock_balance rejects a computed stock: {str(e)[:120]}")
        if not any("{C03}" in p for p in problems):
            st.stock.values[S.n // 2, ...] += int(40 * float(max(S.dt)) + 1)
            try:
                st.check_stock_balance()
                problems.append(tagc + "{C03} check_stock_balance accepts a stock perturbed far beyond the threshold")
            except RuntimeError:
                pass
            except Exception as e:
                problems.append(tagc + f"{{C03}} check_stock_balance raised {type(e).__name__} on a perturbed stock")
    return problems
