"""C08 for the scipy-based distributions and all ten quadrature rules.

The specification (spec/Lifetime.tla) fixes the STRUCTURE of a table cell:
    sf(t, c, lab) = sum_q w_q * S(A2(t,c)/2 - eta_q * L2(c)/2 ; prm(c, lab))     for t >= c, else 0
TLC emits A2, L2 (= dt2) and the parameter table prm8 per configuration.  What TLC cannot evaluate - the
closed-form survival functions (erfc, exp, log) and the irrational Gauss-Lobatto nodes - is evaluated here with
Python's math module and an independent computation of the rule (Legendre polynomials, numpy.polynomial),
NOT with scipy.stats and NOT with flodym's gauss_lobatto table."""

import math

import numpy as np
from numpy.polynomial import legendre as L

from .universe import flodym, FlodymArray
from .replay_stocks import Setup, TOL


def gauss_lobatto(n):
    """nodes and weights of the n-point Gauss-Lobatto rule on [-1, 1] (n >= 2), computed independently"""
    if n == 2:
        return np.array([-1.0, 1.0]), np.array([1.0, 1.0])
    c = np.zeros(n)
    c[n - 1] = 1.0                      # P_{n-1}
    inner = L.legroots(L.legder(c))     # roots of P'_{n-1}
    # polish with Newton on P'_{n-1}
    d1, d2 = L.legder(c), L.legder(c, 2)
    for _ in range(4):
        inner = inner - L.legval(inner, d1) / L.legval(inner, d2)
    x = np.concatenate(([-1.0], np.sort(inner), [1.0]))
    w = 2.0 / (n * (n - 1) * L.legval(x, c) ** 2)
    return x, w


def rule(setting):
    """[(eta, weight)] on [0, 1]"""
    if setting == "start":
        return [(0.0, 1.0)]
    if setting == "middle":
        return [(0.5, 1.0)]
    if setting == "end":
        return [(1.0, 1.0)]
    n = int(setting[2:])
    x, w = gauss_lobatto(n)
    return [((xi + 1) / 2, wi / 2) for xi, wi in zip(x, w)]


def sf_normal(a, mean, std):
    return 0.5 * math.erfc((a - mean) / (std * math.sqrt(2)))


def sf_folded(a, mean, std):
    if a < 0:
        return 1.0
    c = mean / std
    z = a / std
    cdf = 0.5 * (math.erf((z + c) / math.sqrt(2)) + math.erf((z - c) / math.sqrt(2)))
    return 1.0 - cdf


def sf_lognormal(a, mean, std):
    if a <= 0:
        return 1.0
    s2 = math.log(1 + std * std / (mean * mean))
    mu = math.log(mean * mean / math.sqrt(mean * mean + std * std))
    return 0.5 * math.erfc((math.log(a) - mu) / math.sqrt(2 * s2))


def sf_weibull(a, shape, scale):
    if a <= 0:
        return 1.0
    return math.exp(-((a / scale) ** shape))


MODELS = {
    "NormalLifetime": (flodym.NormalLifetime, sf_normal, ("mean", "std")),
    "FoldedNormalLifetime": (flodym.FoldedNormalLifetime, sf_folded, ("mean", "std")),
    "LogNormalLifetime": (flodym.LogNormalLifetime, sf_lognormal, ("mean", "std")),
    "WeibullLifetime": (flodym.WeibullLifetime, sf_weibull, ("weibull_shape", "weibull_scale")),
}


def second_parameter(model, p1):
    """second parameter derived from the first (mean-like, in years) so that it also varies by label/cohort"""
    if model == "WeibullLifetime":
        return p1  # used as scale; shape below
    return 0.3 * p1 + 0.4


def params(model, S, variant, jump=None):
    """(kwargs for the model, first(c, li), second(c, li)) - parameter entry of cohort c and label li"""
    cfg = S.cfg
    p8 = cfg["prm8"]

    if jump is None:
        jump = variant % 3 == 2
    jump = jump and cfg["prmkind"] in ("cohort", "both")

    def p1(c, li):
        # (every third variant: the parameter JUMPS by a factor 4 at the middle cohort - later cohorts live much longer;
        # each cohort must still be governed by its OWN parameter)
        return p8[c][li] / 8.0 * (4.0 if (jump and c >= len(p8) // 2) else 1.0)

    if model == "WeibullLifetime":
        # shape varies like the emitted table (1.2 .. 3), scale = table value
        def first(c, li):
            return 1.2 + (p8[c][li] % 7) * 0.3

        def second(c, li):
            return p1(c, li)
    else:
        first = p1

        def second(c, li):
            return 0.3 * p1(c, li) + 0.4
    return first, second


def build_arrays(S, first, second, variant):
    """parameter arguments with the shape kind of the configuration, stored in a permuted dimension order"""
    import itertools
    kind = S.cfg["prmkind"]
    out = []
    for k, fn in enumerate((first, second)):
        if kind == "scalar":
            out.append(fn(0, 0))
            continue
        full = np.zeros((S.n,) + tuple(m for _, m in S.extra))
        for c in range(S.n):
            for li, idx in enumerate(S.lab_idx):
                full[(c,) + idx] = fn(c, li)
        if kind == "cohort":
            out.append(FlodymArray(dims=S.dims.get_subset(("t",)), values=np.array(full[(slice(None),) + (0,) * len(S.extra)])))
            continue
        if kind == "lab":
            letters = [l for l, _ in S.extra]
            src = FlodymArray(dims=S.dims.get_subset(tuple(letters)), values=np.array(full[0]))
        else:
            letters = ["t"] + [l for l, _ in S.extra]
            src = FlodymArray(dims=S.dims, values=full)
        perms = list(itertools.permutations(letters))
        order = perms[(variant + k) % len(perms)]
        vals = np.einsum(f"{''.join(src.dims.letters)}->{''.join(order)}", src.values)
        out.append(FlodymArray(dims=S.dims.get_subset(tuple(order)), values=np.ascontiguousarray(vals)))
    return out


def effective(S, fn):
    """the parameter entry that applies to (cohort c, label li) given the configuration's shape kind"""
    kind = S.cfg["prmkind"]

    def g(c, li):
        if kind == "scalar":
            return fn(0, 0)
        if kind == "cohort":
            return fn(c, 0)
        if kind == "lab":
            return fn(0, li)
        return fn(c, li)
    return g


def table_valid(sf, pdf, tag="{C08}"):
    probs = []
    n = sf.shape[0]
    eps = 1e-10
    for t in range(n):
        for c in range(n):
            if c > t and (np.any(sf[t, c] != 0) or np.any(pdf[t, c] != 0)):
                probs.append(f"{tag} table entry (t={t}, c={c}) above the diagonal is not zero")
    if np.any(sf < -eps) or np.any(sf > 1 + eps) or np.any(np.isnan(sf)):
        probs.append(f"{tag} survival table leaves [0, 1]")
    if np.any(pdf < -eps) or np.any(np.isnan(pdf)):
        probs.append(f"{tag} negative outflow probability {float(np.min(pdf))}")
    for c in range(n):
        col = sf[c:, c]
        if np.any(np.diff(col, axis=0) > eps):
            probs.append(f"{tag} survival of cohort {c} increases with age")
        tot = col + np.cumsum(pdf[c:, c], axis=0)
        if np.any(np.abs(tot - 1.0) > 1e-9):
            probs.append(f"{tag} survival + cumulated outflow probabilities of cohort {c} = {np.ravel(tot)[:3]}, not 1")
    return probs[:4]


def run_structure_vector(vec):
    """vec: {'config': ..., 'model': name, 'setting': ..., 'variant': int}"""
    S = Setup(vec["config"])
    model, setting, variant = vec["model"], vec["setting"], vec["variant"]
    cls, S_closed, names = MODELS[model]
    first, second = params(model, S, variant)
    a1, a2 = build_arrays(S, first, second, variant)
    kw = dict(dims=S.dims, time_letter="t")
    if setting in ("start", "middle", "end"):
        kw["inflow_at"] = setting
    else:
        kw["n_pts_per_interval"] = int(setting[2:])
        kw["inflow_at"] = ["start", "middle", "end"][variant % 3]     # documented to be ignored for n > 1
    problems = []
    try:
        if variant % 3 == 1:
            # plain (non-FlodymArray) parameters handed over in a NARROW dtype that represents them exactly: numpy float32 scalars /
            # arrays - the tables are those of the same numbers in double precision
            def narrow(x):
                if isinstance(x, FlodymArray):
                    return x
                y = np.asarray(x, dtype=np.float32)
                if not np.array_equal(y.astype(float), np.asarray(x, dtype=float)):
                    return x
                return y if y.ndim else np.float32(x)
            a1, a2 = narrow(a1), narrow(a2)
        if variant % 2:
            lm = cls(**kw)
            if variant == 5:
                # a LONG parameter history on the same object: twenty distinct parameterisations, each one used (tables read), the
                # twelfth being the parameters compared below - which are then set again
                for k in range(1, 21):
                    f = 1.0 if k == 12 else 1.0 + k / 64.0
                    lm.set_prms(**{names[0]: a1 * f, names[1]: a2})
                    _ = np.array(lm.sf), np.array(lm.pdf)
            if variant % 4 == 3:
                # the model is USED once with other parameters (tables read) before it gets the ones compared below: whatever it
                # remembers from the first parameterisation must not enter the second table
                lm.set_prms(**{names[0]: a1 * 1.5, names[1]: a2 * 1.25})
                _ = np.array(lm.sf), np.array(lm.pdf)
            lm.set_prms(**{names[0]: a1, names[1]: a2})
        else:
            lm = cls(**kw, **{names[0]: a1, names[1]: a2})
        sf = np.array(lm.sf)
        pdf = np.array(lm.pdf)
    except Exception as e:
        return [f"{{C08}} {model}/{setting}: building the tables raised {type(e).__name__}: {str(e)[:200]}"]
    try:
        twin = lm.model_copy()
        twin.set_prms(**{names[0]: (a1 * 1.5 if not isinstance(a1, FlodymArray) else a1 * 1.5), names[1]: a2})
        _ = twin.sf
        if not np.array_equal(np.array(lm.sf), sf):
            problems.append(f"{{C08,C15}} {model}/{setting}: re-parameterising a COPY of the lifetime model changed the original's survival table")
    except Exception as e:
        problems.append(f"{{C08}} {model}/{setting}: copying / re-parameterising the model raised {type(e).__name__}: {str(e)[:120]}")
    A2 = vec["config"]["a2"]
    L2 = vec["config"]["dt2"]
    e1, e2 = effective(S, first), effective(S, second)
    rl = rule(setting)
    tag = f"[{model}/{setting}/{S.cfg['prmkind']}] "
    bad = 0
    for t in range(S.n):
        for c in range(S.n):
            for li, idx in enumerate(S.lab_idx):
                if t < c:
                    want = 0.0
                else:
                    want = sum(w * S_closed(A2[t][c] / 2.0 - eta * L2[c] / 2.0, e1(c, li), e2(c, li)) for eta, w in rl)
                got = sf[(t, c) + idx]
                if not abs(got - want) <= 1e-9:
                    bad += 1
                    if bad <= 3:
                        problems.append(tag + f"{{C08}} sf[t={t}, c={c}, label {li + 1}] = {got!r}, declared distribution gives {want!r}")
    problems += [tag + p for p in table_valid(sf, pdf)]
    return problems


def quadrature_assumption_discharge():
    """The defining identities of the n-point Gauss-Lobatto rule (exact for polynomials of degree <= 2n-3,
    end points included) for flodym's table, n = 2..10.  Returns list of problems."""
    from flodym.gauss_lobatto import gl_nodes, gl_weights
    probs = []
    for n in range(2, 11):
        x = np.array(gl_nodes[n], dtype=float)
        w = np.array(gl_weights[n], dtype=float)
        if len(x) != n or len(w) != n:
            probs.append(f"{{C08}} quadrature table n={n} has {len(x)} nodes / {len(w)} weights")
            continue
        if abs(x[0] + 1) > 1e-14 or abs(x[-1] - 1) > 1e-14 or np.any(np.diff(x) <= 0) or np.any(w <= 0):
            probs.append(f"{{C08}} quadrature table n={n}: end points / ordering / positivity")
        for k in range(0, 2 * n - 2):
            exact = 0.0 if k % 2 else 2.0 / (k + 1)
            if abs(float(np.sum(w * x ** k)) - exact) > 1e-12:
                probs.append(f"{{C08}} quadrature table n={n} does not integrate x^{k} exactly")
                break
        xi, wi = gauss_lobatto(n)
        if np.max(np.abs(xi - x)) > 1e-12 or np.max(np.abs(wi - w)) > 1e-12:
            probs.append(f"{{C08}} quadrature table n={n} differs from the independently computed rule")
    return probs
