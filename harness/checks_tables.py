"""C11 (faithful DataFrame export / import) and C12 (refusal of incomplete or inconsistent data)."""

from . import core
from .core import Model, Outcome
from . import replay_tables

ALL_STYLES = set(range(1, 11))


def sig_tab(vec, probs):
    import re
    m = re.search(r"\] (\w+)\(", probs[0])
    p = probs[0]
    return {"engine": "tables", "op": vec["op"], "call": m.group(1) if m else "", "wide": bool(vec["wide"]), "style": vec["styleid"],
            "faults": "+".join(f[0] for f in vec["faults"]),
            "symptom": "accepted" if "must be refused" in p else "raised" if " raised " in p else "target_changed" if "target array" in p else "wrong"}


def tab_model(part, maxdims, maxfaults, styles, workers=2):
    return Model("MC_Tables.tla", {"Part": part, "MaxDims": maxdims, "MaxFaults": maxfaults, "StyleIds": set(styles), "Emit": True},
                 invariants=["Prop_C11", "Prop_C12", "EmitInv"], workers=workers,
                 label=f"MC_Tables/{part}/maxdims{maxdims}/faults<={maxfaults}/styles{sorted(styles)}")


def run_tables(out, prop, models):
    vectors = []
    for m, res in core.run_models(models, seed=out.seed, parallel=4):
        out.add_tlc(m, res)
        vectors += res.vectors
    import json
    seen, uniq = set(), []
    for v in vectors:
        k = json.dumps([v["op"], v["ds"], v["wide"], v["styleid"], v["faults"]])
        if k not in seen:
            seen.add(k)
            uniq.append(v)
    bad = core.replay_parallel(replay_tables.run_vector, uniq)
    out.replayed += len(uniq)
    out.samples += [core.sample_of({k: v[k] for k in ("op", "ds", "wide", "style", "faults", "rows", "outcomes")}, 900)
                    for v in uniq[:: max(1, len(uniq) // 3)][:3]]
    out.judge(core.for_property(bad, prop), "tables", sig_tab)
    kinds = out.extra.setdefault("vectors_by_fault_sequence", {})
    for v in uniq:
        k = v["op"] + ":" + ("+".join(f[0] for f in v["faults"]) or "none")
        kinds[k] = kinds.get(k, 0) + 1
    return uniq


ASSUME = [
    "dimensions: a (3 string items), b (2 integer items, typed int), c (2 integer items, untyped), d (a single string item); values are "
    "k + 0.25 so that they cannot be mistaken for items",
    "ten layout styles (dims in index / columns / both; headers by name / letter / anonymous / mixed; value-column names; row rotation and "
    "reversal; column reversal; CSV text round trip; single-item dimensions omitted; repeated integer row labels)",
    "not generated: empty tables; one dimension with UNTYPED integer items spread over the columns and sent through CSV text",
    "each table is imported through from_df, set_values_from_df (pre-filled target) and, for CSV styles, CSVParameterReader, under all four "
    "flag settings; 'either' outcomes (left open by the statement) accept a refusal or exactly the label-correct array",
]


def run_table_traces(out, prop, tier):
    """direction B: histories of imports into one array object, validated by TLC (spec/trace/Trace_Tables.tla)"""
    import re
    from . import trace_tables as tt
    ntraces, nsteps = (80, 8) if tier == "quick" else (1500, 12)
    batch = tt.record_batch(ntraces, nsteps, out.seed)
    acc, rej, res = tt.validate_batch(batch, workers=4 if tier == "quick" else 8)
    out.states += res.distinct
    out.transitions += res.generated
    out.models.append({"model": "Trace_Tables", "states": res.distinct, "generated": res.generated, "traces": ntraces, "accepted": len(acc),
                       "wall_s": round(res.wall, 2)})
    bad = []
    for tid, (pos, clause) in rej.items():
        m = re.search(r"\{([^}]*)\}", clause)
        if m and prop not in m.group(1).split(","):
            continue
        tr = batch["traces"][tid - 1]
        vec = {"op": "trace", "ds": tr["ds"], "wide": tr["events"][pos - 1]["wide"], "styleid": 0, "faults": [],
               "trace": {"ds": tr["ds"], "init": tr["init"], "events": tr["events"][:pos]}}
        bad.append((vec, [f"{{{prop}}} recorded history of imports into one array (dims {tr['ds']}) rejected by the specification at import {pos}: {clause}"]))
    out.judge(bad, "tables_trace", lambda v, p: {"engine": "tables_trace", "clause": p[0].split(": ")[-1][:40]})
    out.traces_validated += ntraces
    out.extra["recorded_import_histories_validated_by_TLC"] = ntraces
    out.extra["recorded_imports"] = sum(len(t["events"]) for t in batch["traces"])
    out.assumptions.append(
        "direction B (Trace_Tables.tla): one array object per trace, 8 (thorough 12) successive set_values_from_df calls with frames rendered from "
        "random abstract tables (1-3 dims, long / wide, random styles incl. CSV text, 0-3 random faults, random flags, two item orders); a refused "
        "import must leave the array exactly as the previous call left it, an accepted one makes it the table's result")


def run_special(out, prop):
    # (typed dimensions only: untyped integer items come back from text as strings and nothing says they are integers)
    cases = [(["a"], None), (["a", "b"], None), (["b", "a"], None), (["a", "d", "b"], None),
             (["a"], 0), (["a", "b"], 0), (["a", "b"], 3), (["b", "a"], 0), (["a", "d", "b"], 0), (["a", "d", "b"], 4)]
    bad = core.replay_parallel(replay_tables.run_special_layouts, cases)
    out.replayed += len(cases)
    out.extra["special_layout_cases"] = len(cases)
    out.judge(core.for_property([({"op": "special", "ds": c[0], "wide": "", "styleid": 0, "faults": [], "case": str(c)}, p) for c, p in bad], prop),
              "tables_special", lambda v, p: {"engine": "tables_special", "case": v["case"]})
    out.assumptions.append("special layouts outside the ten styles: header-less text files (valid; with a repeated line, in particular the first one) "
                           "and a table without any row under the default flags")


def check_C11(tier, seed):
    out = Outcome("C11", tier, seed)
    if tier == "quick":
        models = [tab_model("import", 3, 0, ALL_STYLES), tab_model("export", 3, 0, ALL_STYLES), tab_model("import", 1, 2, {1, 2, 3, 8}),
                  tab_model("import", 2, 1, {1, 2, 3, 7})]
    else:
        models = [tab_model("import", 4, 0, ALL_STYLES, 4), tab_model("export", 4, 0, ALL_STYLES, 4), tab_model("import", 2, 1, ALL_STYLES)]
    run_tables(out, "C11", models)
    run_table_traces(out, "C11", tier)
    run_special(out, "C11")
    # the round-trip clause on large instances (hundreds of items per dimension)
    cases = [(201, 3, 0), (130, 2, 1), (40, 140, 0), (33000, 2, 0), (160, 6, 0), (128, 1, 1)] if tier == "quick" else \
        [(201, 3, 0), (130, 2, 1), (40, 140, 0), (33000, 2, 0), (160, 6, 0), (128, 1, 1), (300, 5, 1), (2, 400, 0), (260, 130, 1), (2, 70000, 1), (256, 4, 0)]
    bad = core.replay_parallel(replay_tables.run_large_roundtrip, cases)
    out.replayed += len(cases)
    out.extra["large_instance_roundtrips"] = len(cases)
    out.judge(core.for_property([({"op": "large", "ds": [], "wide": "", "styleid": 0, "faults": [], "case": c}, p) for c, p in bad], "C11"),
              "tables_large", lambda v, p: {"engine": "tables_large", "case": str(v["case"])})
    out.exhaustive = True
    out.assumptions += ASSUME + ["to_df output (index True/False, every dimension as dim_to_columns by name or letter, sparse) is projected back "
                                 "to labelled rows and compared; round trips re-import the permuted / CSV'd frame"]
    return out.finish(rule="one vector per (ordered dims, long / wide over each dimension, style); Prop_C11 TLC-checked on the contract")


def check_C12(tier, seed):
    out = Outcome("C12", tier, seed)
    if tier == "quick":
        models = [tab_model("import", 2, 1, ALL_STYLES, 3), tab_model("import", 1, 2, {1, 5, 8}, 2)]
    else:
        models = [tab_model("import", 3, 1, ALL_STYLES, 4), tab_model("import", 2, 2, {1, 2, 3, 4, 5}, 4), tab_model("import", 2, 2, {6, 7, 8, 9, 10}, 4),
                  tab_model("import", 1, 3, {1, 5, 8}, 2)]
    run_tables(out, "C12", models)
    run_table_traces(out, "C12", tier)
    run_special(out, "C12")
    # the fault clauses on large instances (dimensions with hundreds / tens of thousands of items)
    cases = [(151, 3, 0), (40, 140, 1), (33000, 2, 0)] if tier == "quick" else [(151, 3, 0), (40, 140, 1), (33000, 2, 0), (300, 130, 1), (2, 70000, 1)]
    bad = core.replay_parallel(replay_tables.run_large_faulty, cases)
    out.replayed += len(cases)
    out.extra["large_instance_fault_cases"] = len(cases)
    out.judge(core.for_property([({"op": "large", "ds": [], "wide": "", "styleid": 0, "faults": [], "case": c}, p) for c, p in bad], "C12"),
              "tables_large", lambda v, p: {"engine": "tables_large", "case": str(v["case"])})
    out.exhaustive = True
    out.assumptions += ASSUME + ["faults: drop row, duplicate row (same or other values), relabel to an unknown item, blank cell, drop a "
                                 "dimension column, add a second value column, add a column for an unknown item - single faults in every "
                                 "position, sequences of two (thorough: three on one-dimensional arrays)"]
    return out.finish(rule="one vector per (dims, layout, style, fault sequence); Outcome / Result from spec/Tables.tla for all four flag settings")


CHECKS = {"C11": check_C11, "C12": check_C12}
