"""Direction B for C11 / C12: histories of imports into ONE array object, recorded and validated by TLC
(spec/trace/Trace_Tables.tla).  The driver renders data frames from random abstract tables (with random styles, faults and
flags) using the same concretisation as direction A (replay_tables.build_frame); it logs the abstract table, the flags,
whether the call raised and the array's values afterwards.  It never decides what an import should do."""

import json
import os
import random
import re
import shutil

import numpy as np

from . import tlcrun
from .core import Machinery
from . import replay_tables as rt
from .universe import DimensionSet, FlodymArray

BLANK = rt.BLANK
SENTINEL = 987654


def style_of(rnd):
    return {"place": rnd.choice(["columns", "index", "mixed"]), "hdr": rnd.choice(["name", "letter", "anon", "mixed"]),
            "valname": rnd.choice(["value", "Wert", "amount"]), "rowperm": rnd.choice(["id", "rev", "rot"]),
            "colperm": rnd.choice(["id", "rev"]), "csv": rnd.random() < 0.3, "omit": rnd.random() < 0.4, "repidx": rnd.random() < 0.2}


def logged(arr):
    out = []
    for v in np.asarray(arr, dtype=float).ravel(order="C"):
        if v == 0:
            out.append(0)
        elif v == v and abs(v) < 1e6 and abs((v - 0.25) - round(v - 0.25)) < 1e-9:
            out.append(int(round(v - 0.25)))
        else:
            out.append(SENTINEL)
    return out


class Program:
    def __init__(self, seed):
        rnd = self.rnd = random.Random(seed)
        n = rnd.choice([1, 2, 2, 3])
        self.ds = rnd.sample(rt.CANON, n)
        # every second trace lists the items of its dimensions in another order (same names, letters and item sets)
        self.dimobj = rt.DIMSETS[seed % 2]
        self.dims = DimensionSet(dim_list=[self.dimobj[l] for l in self.ds])
        self.x = FlodymArray(dims=self.dims)
        self.events = []

    def nitems(self, l):
        return len(rt.DIMOBJ[l].items)

    def one_import(self):
        rnd = self.rnd
        ds = self.ds
        st = style_of(rnd)
        wide = rnd.choice([""] + ds) if rnd.random() < 0.5 else ""
        if wide == "c" and st["csv"]:
            st["csv"] = False           # (untyped integer items as CSV column headers: excluded in the bounded model too)
        rd = [l for l in ds if l != wide]
        rows = []
        import itertools
        for combo in itertools.product(*[range(1, self.nitems(l) + 1) for l in rd]):
            lab = dict(zip(rd, combo))
            ncell = self.nitems(wide) if wide else 1
            rows.append({"lab": lab, "cells": [rnd.randint(1, 60) for _ in range(ncell)]})
        dropped, extraval, extraitem = [], False, False
        present = lambda l: l not in dropped and not (st["omit"] and self.nitems(l) == 1)
        for _ in range(rnd.choice([0, 0, 1, 1, 2, 3])):
            kind = rnd.choice(["drop_row", "dup_row", "relabel", "blank", "drop_col", "add_value_col", "add_item_col"])
            if kind == "drop_row" and len(rows) >= 2:
                rows.pop(rnd.randrange(len(rows)))
            elif kind == "dup_row":
                r = rows[rnd.randrange(len(rows))]
                rows.append({"lab": dict(r["lab"]), "cells": [77 + j for j in range(1, len(r["cells"]) + 1)] if rnd.random() < 0.5 else list(r["cells"])})
            elif kind == "relabel" and rd:
                r = rows[rnd.randrange(len(rows))]
                cand = [l for l in rd if r["lab"][l] != 0 and present(l)]
                if cand:
                    r["lab"][rnd.choice(cand)] = 0
            elif kind == "blank":
                r = rows[rnd.randrange(len(rows))]
                r["cells"][rnd.randrange(len(r["cells"]))] = BLANK
            elif kind == "drop_col":
                cand = [l for l in rd if present(l) and all(r["lab"][l] != 0 for r in rows)]
                if cand:
                    dropped.append(rnd.choice(cand))
            elif kind == "add_value_col" and not wide:
                extraval = True
            elif kind == "add_item_col" and wide:
                extraitem = True
        anon = [l for pos, l in enumerate(rd, start=1) if st["hdr"] == "anon" or (st["hdr"] == "mixed" and pos % 3 == 0)]
        vec = {"ds": ds, "wide": wide, "style": st, "styleid": 0, "dropped": dropped, "extraval": extraval, "extraitem": extraitem,
               "rows": [{"lab": [r["lab"].get(l, 0) for l in rt.CANON], "cells": r["cells"]} for r in rows]}
        missing, extra = rnd.random() < 0.5, rnd.random() < 0.5
        import logging
        saved = rt.DIMOBJ
        rt.DIMOBJ = self.dimobj
        try:
            df = rt.build_frame(vec)
        finally:
            rt.DIMOBJ = saved
        logging.disable(logging.CRITICAL)
        try:
            self.x.set_values_from_df(df, allow_missing_values=missing, allow_extra_values=extra)
            outcome = "ok"
        except Exception:
            outcome = "error"
        finally:
            logging.disable(logging.NOTSET)
        self.events.append({"wide": wide, "rows": rows, "dropped": dropped, "extraval": extraval, "extraitem": extraitem, "anon": anon,
                            "missing": missing, "extra": extra, "outcome": outcome, "post": logged(self.x.values),
                            "style": st})

    def run(self, nsteps):
        init = logged(self.x.values)
        for _ in range(nsteps):
            self.one_import()
        return {"ds": self.ds, "init": init, "events": self.events}


def record_batch(ntraces, nsteps, seed):
    items = {l: list(range(1, len(rt.DIMOBJ[l].items) + 1)) for l in rt.CANON}
    return {"universe": {"canon": rt.CANON, "items": items}, "traces": [Program(seed * 100003 + 13 * k).run(nsteps) for k in range(ntraces)]}


_ACC = re.compile(r'^<<"ACCEPTED", (\d+)>>')
_REJ = re.compile(r'^<<"REJECTED", (\d+), (\d+), "(.*)">>')


def validate_batch(batch, workers=4):
    tmp = tlcrun.scratch_dir()
    try:
        path = os.path.join(tmp, "traces.json")
        with open(path, "w") as f:
            json.dump(batch, f)
        lines = []
        cfg = "SPECIFICATION TraceSpec\nINVARIANT Verdict\nCHECK_DEADLOCK FALSE\n"
        res = tlcrun.run_tlc("Trace_Tables.tla", cfg, workers=workers, env={"TRACE_FILE": path}, line_sink=lines.append)
    finally:
        shutil.rmtree(tmp, ignore_errors=True)
    if res.violation:
        raise Machinery(f"table trace validation: TLC reports {res.violation}\n{res.tail[-1500:]}")
    acc, rej = set(), {}
    for ln in lines:
        m = _ACC.match(ln)
        if m:
            acc.add(int(m.group(1)))
        m = _REJ.match(ln)
        if m:
            rej[int(m.group(1))] = (int(m.group(2)), m.group(3))
    n = len(batch["traces"])
    if acc | set(rej) != set(range(1, n + 1)):
        raise Machinery(f"table trace validation gave no verdict for traces {sorted(set(range(1, n + 1)) - acc - set(rej))[:10]}")
    return acc, rej, res
