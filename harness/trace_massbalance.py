"""Direction B for C02: histories on real MFASystem objects, recorded and validated by TLC
(spec/trace/Trace_MassBalance.tla).

The driver builds random systems - random process graphs, flows and stocks over random ordered subsets of (t, r, e) -
whose values are exact two-component numbers i + e * 2^-8 (explicit tolerance 2^-7 = two units; all sums are exact in
float64, so "within the tolerance" is decided without rounding).  Systems are made balanced by construction (sums of
random circulations through the graph, stocks acting as a path to the system environment) or left unbalanced, and a
history of writes and checks is run on the SAME object.  Every call is logged at its return with what it reported.
Nothing here computes a balance or an expected verdict."""

import json
import logging
import os
import random
import re
import shutil

import numpy as np

from . import tlcrun
from .core import Machinery, names_in
from .universe import flodym, Dimension, DimensionSet

UNIT = 2.0 ** -8
TOL = 2.0 ** -7
UNIVERSES = [
    {"canon": ["t", "r", "e"], "items": {"t": [1, 2, 3], "r": [1, 2], "e": [1, 2]}},
    {"canon": ["t", "r", "e"], "items": {"t": [1, 2], "r": [1, 2, 3, 4], "e": [1]}},
    {"canon": ["t", "r", "e"], "items": {"t": [1, 2, 3, 4, 5], "r": [1, 2], "e": [1, 2, 3]}},
]
NAMES = {"t": "Time", "r": "Region", "e": "Element"}


class Capture(logging.Handler):
    def __init__(self):
        super().__init__(level=logging.WARNING)
        self.records = []

    def emit(self, record):
        self.records.append(record)


def fval(v):
    i, e, nan = v
    return float("nan") if nan else float(i) + e * UNIT


class Program:
    def __init__(self, uid, seed):
        self.rnd = random.Random(seed)
        self.ucfg = UNIVERSES[uid]
        U = self.ucfg
        self.dimobj = {l: Dimension(name=NAMES[l], letter=l, items=[(2000 + 5 * i) if l == "t" else f"{l}{i}" for i in U["items"][l]],
                                    dtype=int if l == "t" else str) for l in U["canon"]}
        self.dims = DimensionSet(dim_list=[self.dimobj[l] for l in U["canon"]])
        self.events = []
        self.has_nan = False

    def shape(self, ds):
        return tuple(len(self.ucfg["items"][l]) for l in ds)

    def rand_dims(self, need_t=False):
        letters = list(self.ucfg["canon"])
        k = self.rnd.randint(0, 3)
        ds = self.rnd.sample(letters, k)
        if need_t:
            ds = ["t"] + [l for l in ds if l != "t"]        # stocks: time first
        return ds

    def build(self):
        rnd = self.rnd
        nproc = rnd.randint(2, 6)
        procs = ["sysenv"] + [f"P{i}" for i in range(1, nproc)]
        nflows = rnd.randint(1, 9)
        flows, seen = [], set()
        for _ in range(nflows):
            a, b = rnd.sample(range(nproc), 2)
            if (a, b) in seen and rnd.random() < 0.7:
                continue
            name = f"{procs[a]} => {procs[b]}" if (a, b) not in seen else f"{procs[a]} => {procs[b]} ({len(flows)})"
            seen.add((a, b))
            flows.append({"from": a + 1, "to": b + 1, "dims": self.rand_dims(), "name": name})
        nstocks = rnd.choice([0, 0, 1, 1, 2, 3])
        stocks = []
        for k in range(nstocks):
            stocks.append({"proc": rnd.choice([0] + list(range(2, nproc + 1)) + ([1] if rnd.random() < 0.2 else [])),
                           "dims": self.rand_dims(need_t=True), "name": f"stock{k + 1}"})
        # integer values (i-components): balanced by construction, or random
        full = list(self.ucfg["canon"])
        fvals = [np.zeros(self.shape(f["dims"]), dtype=np.int64) for f in flows]
        sin = [np.zeros(self.shape(s["dims"]), dtype=np.int64) for s in stocks]
        sout = [np.zeros(self.shape(s["dims"]), dtype=np.int64) for s in stocks]
        slev = [rnd.randint(0, 9) + np.zeros(self.shape(s["dims"]), dtype=np.int64) for s in stocks]
        mode = rnd.choice(["circulation", "circulation", "circulation", "random"])
        if mode == "random":
            for v in fvals + sin + sout:
                v[...] = np.array([rnd.randint(0, 3) for _ in range(v.size)]).reshape(v.shape)
        else:
            # edges: flows, and a stock at process p as an edge p -> sysenv
            edges = [("flow", k, f["from"], f["to"]) for k, f in enumerate(flows)] + \
                    [("stock", k, s["proc"], 1) for k, s in enumerate(stocks) if s["proc"] not in (0, 1)]
            for _ in range(rnd.randint(1, 6)):
                # a random closed walk: follow edges until a process repeats, keep the cycle
                start = rnd.randint(1, nproc)
                path, at, visited = [], start, {start: 0}
                for _step in range(12):
                    out = [e for e in edges if e[2] == at]
                    if not out:
                        path = []
                        break
                    e = rnd.choice(out)
                    path.append(e)
                    at = e[3]
                    if at in visited:
                        path = path[visited[at]:]
                        break
                    visited[at] = len(path)
                else:
                    path = []
                if not path:
                    continue
                signed = rnd.random() < 0.3
                A = np.array([rnd.randint(-3 if signed else 0, 4) for _ in range(int(np.prod(self.shape(full))))]).reshape(self.shape(full))
                for kind, k, _, _ in path:
                    ds = flows[k]["dims"] if kind == "flow" else stocks[k]["dims"]
                    m = np.einsum("".join(full) + "->" + "".join(ds), A)
                    if kind == "flow":
                        fvals[k] += m
                    elif rnd.random() < 0.5:
                        sin[k] += m
                    else:
                        sout[k] -= m
        self.procs, self.flows, self.stocks = procs, flows, stocks
        # ---- the real system
        processes = flodym.make_processes(procs)
        fdefs = []
        for f in flows:
            generated = f"{procs[f['from'] - 1]} => {procs[f['to'] - 1]}"
            fdefs.append(flodym.FlowDefinition(from_process_name=procs[f["from"] - 1], to_process_name=procs[f["to"] - 1],
                                               dim_letters=tuple(f["dims"]), name_override=None if generated == f["name"] else f["name"]))
        fl = flodym.make_empty_flows(processes=processes, flow_definitions=fdefs, dims=self.dims)
        sdefs = [flodym.StockDefinition(name=s["name"], process=(procs[s["proc"] - 1] if s["proc"] else None), dim_letters=tuple(s["dims"]),
                                        subclass=flodym.SimpleFlowDrivenStock, time_letter="t") for s in stocks]
        st = flodym.make_empty_stocks(stock_definitions=sdefs, processes=processes, dims=self.dims)
        self.mfa = flodym.MFASystem(dims=self.dims, parameters={}, processes=processes, flows=fl, stocks=st)
        for f, v in zip(flows, fvals):
            arr = self.mfa.flows[f["name"]]
            arr.values[...] = v.astype(float)
            if arr.values.ndim >= 2 and rnd.random() < 0.4:
                arr.set_values(np.asfortranarray(arr.values.copy()))
        for s, vi, vo, vl in zip(stocks, sin, sout, slev):
            so = self.mfa.stocks[s["name"]]
            so.inflow.values[...] = vi.astype(float)
            so.outflow.values[...] = vo.astype(float)
            so.stock.values[...] = vl.astype(float)

        def flat(v):
            return [[int(x), 0, 0] for x in np.asarray(v).ravel(order="C")]
        return {"procs": procs,
                "flows": [dict(f, flat=flat(v)) for f, v in zip(flows, fvals)],
                "stocks": [dict(s, inflow=flat(vi), outflow=flat(vo), level=flat(vl)) for s, vi, vo, vl in zip(stocks, sin, sout, slev)]}

    # ---- events
    def do_set(self):
        rnd = self.rnd
        objs = [("flow", k) for k in range(len(self.flows))] + [(o, k) for k in range(len(self.stocks)) for o in ("sin", "sout", "level")]
        obj, k = rnd.choice(objs)
        if obj == "flow":
            arr, ds = self.mfa.flows[self.flows[k]["name"]], self.flows[k]["dims"]
        else:
            so = self.mfa.stocks[self.stocks[k]["name"]]
            arr, ds = {"sin": so.inflow, "sout": so.outflow, "level": so.stock}[obj], self.stocks[k]["dims"]
        size = int(np.prod(self.shape(ds))) if ds else 1
        pos = rnd.randint(1, size)
        idx = np.unravel_index(pos - 1, self.shape(ds)) if ds else ()
        old = float(arr.values[idx])
        kind = rnd.choice(["nudge", "nudge", "nudge", "int", "neg", "nan", "restore_nan"])
        if kind == "nan" and rnd.random() < 0.6:
            kind = "nudge"
        if np.isnan(old) or kind == "restore_nan":
            val = [rnd.randint(0, 5), 0, 0]
        else:
            i0 = int(np.floor(old + 0.5))
            e0 = int(round((old - i0) / UNIT))
            if kind == "nudge":
                val = [i0, max(-8, min(8, e0 + rnd.choice([-4, -3, -2, -1, 1, 2, 3, 4]))), 0]
            elif kind == "int":
                val = [i0 + rnd.choice([-2, -1, 1, 2]), e0, 0]
            elif kind == "neg":
                val = [rnd.choice([0, 0, -1, -3]), rnd.choice([-1, -3, 0]), 0]
            else:
                val = [0, 0, 1]
        arr.values[idx] = fval(val)
        self.has_nan = any(np.isnan(f.values).any() for f in self.mfa.flows.values()) or \
            any(np.isnan(a.values).any() for s in self.mfa.stocks.values() for a in (s.stock, s.inflow, s.outflow))
        self.events.append({"op": "set", "obj": obj, "id": k + 1, "pos": pos, "val": val,
                            "tol": "", "raise": False, "outcome": "", "failing": [], "exc": [], "flagged": []})

    def logged(self, fn):
        root = logging.getLogger()
        logging.disable(logging.NOTSET)
        cap = Capture()
        root.addHandler(cap)
        old = root.level
        root.setLevel(logging.WARNING)
        msgs, raised = [], None
        try:
            fn()
        except ValueError as e:
            raised = str(e)
        finally:
            root.removeHandler(cap)
            root.setLevel(old)
        msgs = [r.getMessage() for r in cap.records if r.levelno >= logging.WARNING]
        return raised, msgs

    def do_check_mb(self):
        tolmode = "explicit" if (self.has_nan or self.rnd.random() < 0.6) else self.rnd.choice(["default", "zero"])
        raise_error = self.rnd.random() < 0.5
        tol_arg = TOL if tolmode == "explicit" else (None if tolmode == "default" else self.rnd.choice([0, 0.0]))
        raised, msgs = self.logged(lambda: self.mfa.check_mass_balance(tolerance=tol_arg, raise_error=raise_error))
        text = raised if raised is not None else " ".join(msgs)
        outcome = "fail" if (raised is not None or msgs) else "ok"
        failing = names_in(text, self.procs)
        if outcome == "fail" and not failing:
            failing = ["?"]         # the report names no process at all: the statement does not demand names, only the verdict counts
        self.events.append({"op": "check_mb", "obj": "", "id": 0, "pos": 0, "val": [0, 0, 0], "tol": tolmode, "raise": raise_error,
                            "outcome": outcome, "failing": failing, "exc": [], "flagged": []})

    def do_check_flows(self):
        if self.has_nan:
            return      # the default tolerance is undefined with a NaN among the magnitudes
        names = [f["name"] for f in self.flows]
        exc = self.rnd.sample(names, self.rnd.randint(0, min(2, len(names)))) if self.rnd.random() < 0.5 else []
        raise_error = self.rnd.random() < 0.4
        if exc or self.rnd.random() < 0.5:
            raised, msgs = self.logged(lambda: self.mfa.check_flows(exceptions=list(exc), raise_error=raise_error))
        else:
            raised, msgs = self.logged(lambda: self.mfa.check_flows(raise_error=raise_error))
        flagged = []
        for m in msgs:
            flagged += names_in(m, names)
        outcome = "fail" if (raised is not None or msgs) else "ok"
        if msgs and not flagged:
            flagged = ["?"]         # warnings that name no flow: only the verdict counts
        self.events.append({"op": "check_flows", "obj": "", "id": 0, "pos": 0, "val": [0, 0, 0], "tol": "", "raise": raise_error,
                            "outcome": outcome, "failing": [], "exc": exc, "flagged": sorted(set(flagged))})

    def run(self, nsteps):
        sysj = self.build()
        self.do_check_mb()
        while len(self.events) < nsteps:
            r = self.rnd.random()
            if r < 0.4:
                self.do_set()
            elif r < 0.8:
                self.do_check_mb()
            else:
                self.do_check_flows()
        return {"sys": sysj, "events": self.events}


def record_batch(uid, ntraces, nsteps, seed):
    traces = [Program(uid, seed * 100003 + uid * 1009 + k).run(nsteps) for k in range(ntraces)]
    return {"universe": UNIVERSES[uid], "traces": traces}


_ACC = re.compile(r'^<<"ACCEPTED", (\d+)>>')
_REJ = re.compile(r'^<<"REJECTED", (\d+), (\d+), "(.*)">>')


def validate_batch(batch, workers=4):
    tmp = tlcrun.scratch_dir()
    try:
        path = os.path.join(tmp, "traces.json")
        with open(path, "w") as f:
            json.dump(batch, f)
        lines = []
        cfg = "SPECIFICATION TraceSpec\nINVARIANT Verdict\nINVARIANT MirrorInv\nCHECK_DEADLOCK FALSE\n"
        res = tlcrun.run_tlc("Trace_MassBalance.tla", cfg, workers=workers, env={"TRACE_FILE": path}, line_sink=lines.append)
    finally:
        shutil.rmtree(tmp, ignore_errors=True)
    if res.violation:
        raise Machinery(f"mass-balance trace validation: TLC reports {res.violation}\n{res.tail[-1500:]}")
    acc, rej = set(), {}
    for ln in lines:
        m = _ACC.match(ln)
        if m:
            acc.add(int(m.group(1)))
        m = _REJ.match(ln)
        if m:
            rej[int(m.group(1))] = (int(m.group(2)), m.group(3))
    n = len(batch["traces"])
    if acc | set(rej) != set(range(1, n + 1)):
        raise Machinery(f"mass-balance trace validation gave no verdict for traces {sorted(set(range(1, n + 1)) - acc - set(rej))[:10]}")
    return acc, rej, res
