"""C17: recomputing a stock reflects its current inputs only."""

from . import core
from .core import Model, Outcome, Machinery
from . import replay_stockobject, tlcrun


def sig_so(vec, probs):
    import re
    m = re.search(r"\[(\w+)/(\w+)", probs[0])
    ops = [s["op"] for s in vec["hist"]]
    return {"engine": "stockobject", "lifetime": m.group(1) if m else "", "cls": m.group(2) if m else "",
            "set_prms_after_compute": any(o == "set_prms" and any(p in ("compute", "system_run", "read_sf") for p in ops[:i])
                                          for i, o in enumerate(ops))}


def check_C17(tier, seed):
    out = Outcome("C17", tier, seed)
    depth = 4 if tier == "quick" else 5
    ndrv = 2
    nprm = 2
    models = [Model("MC_StockObject.tla", {"MCVariant": "invalidating", "Depth": depth, "NDrivers": ndrv, "NPrms": nprm, "Emit": True},
                    invariants=["Prop_C17", "Prop_C17_Table", "EmitInv"], properties=["Prop_C17_Idem"], workers=4,
                    label=f"MC_StockObject/invalidating/depth{depth}"),
              Model("MC_StockObject.tla", {"MCVariant": "contract", "Depth": depth, "NDrivers": ndrv, "NPrms": nprm, "Emit": False},
                    invariants=["Prop_C17", "Prop_C17_Table"], properties=["Prop_C17_Idem"], workers=2,
                    label=f"MC_StockObject/contract/depth{depth}", expect_vectors=False)]
    if tier == "thorough":
        # three drivers and three parameter sets: every history of depth 4 replayed; depth 5 (1.4 million histories) model-checked
        models += [Model("MC_StockObject.tla", {"MCVariant": "invalidating", "Depth": 4, "NDrivers": 3, "NPrms": 3, "Emit": True},
                         invariants=["Prop_C17", "Prop_C17_Table", "EmitInv"], properties=["Prop_C17_Idem"], workers=4,
                         label="MC_StockObject/invalidating/depth4/3x3"),
                   Model("MC_StockObject.tla", {"MCVariant": "invalidating", "Depth": 5, "NDrivers": 3, "NPrms": 3, "Emit": False},
                         invariants=["Prop_C17", "Prop_C17_Table"], properties=["Prop_C17_Idem"], workers=8,
                         label="MC_StockObject/invalidating/depth5/3x3 (model checked, not replayed)", expect_vectors=False)]
    vectors = []
    for m, res in core.run_models(models, seed=seed, parallel=3):
        out.add_tlc(m, res)
        vectors += res.vectors
    # non-vacuity: the algorithm that keeps the cache across set_prms must violate Prop_C17 in the model
    cfg = tlcrun.cfg_text(constants={"MCVariant": "stale", "Depth": depth, "NDrivers": ndrv, "NPrms": nprm, "Emit": False}, invariants=["Prop_C17"])
    stale = tlcrun.run_tlc("MC_StockObject.tla", cfg, workers=2)
    if stale.violation is None:
        raise Machinery("Prop_C17 holds on the stale-cache variant of the model: the property is vacuous")
    out.extra["mutated_model_rejected"] = stale.violation
    for i, v in enumerate(vectors):
        v["index"] = i
        if tier == "thorough":
            v["combos"] = [replay_stockobject.COMBOS[(i * 5 + k * 11) % len(replay_stockobject.COMBOS)] for k in range(5)]
    bad = core.replay_parallel(replay_stockobject.run_history, vectors)
    out.replayed += len(vectors)
    out.samples += [core.sample_of([[s["op"], s["arg"], s["outcome"], s["results"]] for s in v["hist"]]) for v in vectors[:: max(1, len(vectors) // 3)][:3]]
    out.judge(core.for_property(bad, "C17"), "stockobject", sig_so)
    from .checks_stock_traces import run_stock_traces
    run_stock_traces(out, "C17", tier)
    from .checks_lifecycle import run_lifecycle_traces
    run_lifecycle_traces(out, "C17", tier)
    out.exhaustive = True
    out.assumptions += [
        "two drivers (thorough: also three at depth 4; depth 5 with three drivers and three parameter sets is model-checked only), one of them all zero, and two parameter sets per lifetime model (scalar and per-label); dims time x 2 regions / time only / time x 1 region; all six lifetime models (fixed, step, normal, folded "
        "normal, log-normal, Weibull) x {inflow-driven, stock-driven manual, stock-driven lapack}; each history is replayed on 3 "
        "(thorough: 6) of the 18 combinations, rotating with the history index",
        "the stock lives inside an MFASystem built from definitions; `system_run` is that system's compute() writing the scenario inputs",
        "'results equal those of a fresh stock' is evaluated literally: a new object is built with the current inputs after every compute",
    ]
    return out.finish(rule=f"every history of depth {depth} over 5 action kinds (exhaustive), replayed; the model variant with a stale cache is "
                           "required to violate Prop_C17 (non-vacuity)")


CHECKS = {"C17": check_C17}
