"""Direction A for spec/mc/MC_Index.tla: label indexing (reads) and assignment (writes).
Each TLC transition is executed under every spelling of the key."""

import traceback
from fractions import Fraction

import numpy as np

from .poly import Poly, SymbolicBranch
from .universe import Universe, FlodymArray
from .replay_arrays import compare_array, snapshot, unchanged, gen_val, S_NUM

PROBE_ALIAS = False   # C15: write into the result of a read and require the source unchanged


def universe_of(vec, reverse_items=False, rotate_items=False):
    u = vec["universe"]
    canon = u["canon"]
    items = {l: (its, root) for l, its, root in u["items"]}
    lens = [len(items[l][0]) for l in canon]
    subs = {l: (root, its) for l, (its, root) in items.items() if l not in canon}
    if rotate_items:
        # the same labels spelled by the item strings of their cyclic successors (see the "relabelled in place" run below)
        n = dict(zip(canon, lens))
        return Universe(canon, lens, subs, item_of=lambda l, i: f"{l}{i % n[l] + 1}")
    return Universe(canon, lens, subs, reverse_items=reverse_items)


def key_value(U, letter, sel):
    if sel["kind"] == "one":
        return U.item(letter, sel["item"])
    if sel["kind"] == "sub":
        return U.dim(sel["dim"])
    return [U.item(letter, i) for i in sel["items"]]


def spellings(U, key):
    """key: list of [letter, selector].  Yields (name, python key)."""
    if not key:
        yield "ellipsis", Ellipsis
        yield "empty_dict", {}
        return
    yield "dict_letter", {l: key_value(U, l, s) for l, s in key}
    yield "dict_name", {U.name(l): key_value(U, l, s) for l, s in reversed(key)}
    if all(s["kind"] == "one" or (s["kind"] == "list" and len(s["items"]) >= 2) for _, s in key):
        flat = []
        for l, s in reversed(key):
            v = key_value(U, l, s)
            flat += v if isinstance(v, list) else [v]
        if len(flat) >= 2 or key[0][1]["kind"] == "one":
            yield "tuple", tuple(flat)
        if len(flat) == 1:
            yield "single", flat[0]
        # items of one dimension need not be adjacent in a tuple key
        groups = [key_value(U, l, s) for l, s in key]
        groups = [g if isinstance(g, list) else [g] for g in groups]
        if len(groups) >= 2 and any(len(g) >= 2 for g in groups):
            inter = []
            for i in range(max(len(g) for g in groups)):
                for g in groups:
                    if i < len(g):
                        inter.append(g[i])
            if inter != flat:
                yield "tuple_interleaved", tuple(inter)


def _err_case(U, cfg, kind, l):
    """Concrete spelling of a key that must be refused.  Returns (universe, key, is_write) or None when
    the kind cannot be formed for this array (e.g. ambiguity needs two dimensions)."""
    from .universe import Dimension
    xd = cfg["xd"]
    others = [m for m in xd if m != l]
    good = U.item(l, 1)
    if kind == "unknown_single":
        return U, "no_such_item", False
    if kind == "unknown_in_tuple":
        return U, (good, "no_such_item"), False
    if kind == "unknown_in_dict":
        return U, {l: "no_such_item"}, False
    if kind == "unknown_in_list_write":
        items = [U.item(l, i) for i in U.labels(l)]
        if len(items) >= 6:      # a long list (more than five items) with an unknown item that sorts before / between / after the items
            srt = sorted(items)
            unknowns = ["", srt[2] + "5", "item_zz", srt[0][:-1] if len(srt[0]) > 1 else "0"]
            return U, ("MULTI", [{l: items[:3] + [u] + items[3:]} for u in unknowns if u not in items]
                       + [{l: [u] + items[::-1]} for u in unknowns[1:2]]), True
        return U, {l: [good, "no_such_item"]}, True
    if kind == "foreign_item_in_dict":
        if not others:
            return None
        return U, {l: U.item(others[0], 1)}, False
    if kind == "unknown_dim_letter":
        return U, {"z": good}, False
    if kind in ("ambiguous_single", "ambiguous_in_tuple"):
        if not others:
            return None
        o = others[0]
        # label 1 of dimensions l and o is the same string
        U2 = Universe(U.canon, [U.lens[c] for c in U.canon], U.subs,
                      item_of=lambda r, i: "common" if (i == 1 and r in (l, o)) else f"{r}{i}")
        return U2, ("common" if kind == "ambiguous_single" else ("common", U2.item(l, 2))), False
    if kind == "numpy_slice":
        return U, slice(0, 1), False
    if kind == "numpy_slice_in_tuple":
        return U, (slice(None), good), False
    if kind == "numpy_int":
        return U, 0, False
    if kind == "dimension_not_subset":
        return U, {l: Dimension(name="other_dim", letter="z", items=[good, "no_such_item"])}, False
    if kind == "dimension_same_letter":
        return U, {l: Dimension(name="same_letter", letter=l, items=[good])}, False
    if kind == "dimension_letter_clash":
        if not others:
            return None
        return U, {l: Dimension(name="clash_dim", letter=others[0], items=[good])}, False
    if kind == "dimension_as_bare_key":
        return U, Dimension(name="bare_dim", letter="z", items=[good]), False
    raise ValueError(kind)


def run_error_vector(vec):
    cfg = vec["cfg"]
    U0 = universe_of(vec)
    (l, sel), = cfg["key"]
    case = _err_case(U0, cfg, sel["kind"], l)
    if case is None:
        return []
    U, pykey, is_write = case
    problems = []
    if isinstance(pykey, tuple) and len(pykey) == 2 and pykey[0] == "MULTI":
        for k in pykey[1]:
            x = U.array(cfg["xd"], U.gen_values(1, cfg["xd"], "num", gen_val, "C"), name="x")
            sx = snapshot(x)
            try:
                x[k] = 5.0
                problems.append(f"[num/write] {{C06,C05}} key {sel['kind']} {k!r} must be refused but was accepted")
            except Exception:
                pass
            problems += ["[num/write] " + p for p in unchanged(x, sx, "{C13} array after a refused key")]
        return problems[:4]
    for mode in ("num",):
        x = U.array(cfg["xd"], U.gen_values(1, cfg["xd"], mode, gen_val, "C"), name="x")
        sx = snapshot(x)
        for write in ((True,) if is_write else (False, True)):
            tag = f"[{mode}/{'write' if write else 'read'}] "
            try:
                if write:
                    x[pykey] = 5.0
                else:
                    x[pykey]
                problems.append(tag + f"{{C06}} key {sel['kind']} must be refused but was accepted")
            except Exception:
                pass
            problems += [tag + p for p in unchanged(x, sx, "{C13} array after a refused key")]
    return problems


def list_nd_check(U, cfg):
    """A write with a LIST selection and an ndarray source puts the source's entries under the listed items "in the requested
    item order": it must equal the same entries written one by one through single-item keys (which the specification's
    vectors verify on their own).  Every spelling of the key, dict and tuple forms alike."""
    key, xd = cfg["key"], cfg["xd"]
    sel = {l: s_ for l, s_ in key}
    seqs = []
    for l in xd:
        s_ = sel.get(l)
        if s_ is None:
            seqs.append((l, list(U.labels(l)), False))
        elif s_["kind"] == "one":
            seqs.append((l, [s_["item"]], True))
        elif s_["kind"] == "list":
            seqs.append((l, list(s_["items"]), False))
        else:
            seqs.append((l, list(U.labels(s_["dim"])), False))
    shape = tuple(len(q) for _, q, single in seqs if not single)
    nd = (np.arange(1, int(np.prod(shape)) + 1, dtype=float) + 0.5).reshape(shape) if shape else np.array(1.5)
    problems = []
    for sp_name, pykey in spellings(U, key):
        x1 = U.array(xd, U.gen_values(1, xd, "num", gen_val, "C"), name="x")
        x2 = U.array(xd, U.gen_values(1, xd, "num", gen_val, "C"), name="x")
        try:
            x1[pykey] = nd.copy()
        except Exception:
            continue        # (a combination the library does not take with an ndarray source: nothing is claimed)
        for idx in np.ndindex(*shape):
            it = iter(idx)
            single_key = {}
            for l, q, single in seqs:
                lab = q[0] if single else q[next(it)]
                single_key[l] = U.item(l, lab)
            x2[single_key] = float(nd[idx])
        if not np.array_equal(x1.values, x2.values):
            bad = np.argwhere(x1.values != x2.values)[0]
            problems.append(f"[num/{sp_name}] {{C06,C05}} an ndarray written through the list key {pykey!r} is not arranged in the requested item order: "
                            f"entry {tuple(int(b) for b in bad)} is {x1.values[tuple(bad)]}, written item by item it is {x2.values[tuple(bad)]}")
    return problems[:2]


def run_vector(vec):
    cfg = vec["cfg"]
    if cfg["op"] == "geterr":
        return run_error_vector(vec)
    if cfg["op"] == "set" and cfg["rhs"] == "num" and any(s_["kind"] == "list" for _, s_ in cfg["key"]):
        extra = list_nd_check(universe_of(vec), cfg)
        if extra:
            return extra
    exp = vec["res"]
    U = universe_of(vec)
    problems = []
    Ubuild = None
    for mode, layout in (("sym", "C"), ("num", "C"), ("num", "F"), ("num", "R"), ("num", "M")):
        if layout == "R":       # the same dimensions with their items listed in reversed order (same names, letters and item sets)
            U = universe_of(vec, reverse_items=True)
            layout = "C"
        elif layout == "M":
            # the array is built and read once, then the items of its OWN Dimension objects are renamed in place (every label
            # now carries the string its cyclic successor had); keys spelled with the new strings must address the same entries
            Ubuild = universe_of(vec)
            U = universe_of(vec, rotate_items=True)
        if mode == "sym" and cfg["rhs"] == "nd" and not cfg["yd"]:
            # a 0-d object ndarray would be stored as an element by numpy (an artefact of the
            # object dtype); the 0-d region is covered by the numeric runs
            continue
        for sp_name, pykey in spellings(U, cfg["key"]):
            tag = f"[{mode}/{layout}/{sp_name}] "
            Poly.seed = None
            try:
                if layout == "M":
                    x = Ubuild.array(cfg["xd"], Ubuild.gen_values(1, cfg["xd"], mode, gen_val, "C"), name="x")
                    for l in cfg["xd"]:
                        try:
                            x[{l: Ubuild.item(l, Ubuild.labels(l)[0])}]
                        except Exception:
                            pass
                    for l in cfg["xd"]:
                        x.dims[l].items[:] = [U.item(l, i) for i in U.labels(l)]
                else:
                    x = U.array(cfg["xd"], U.gen_values(1, cfg["xd"], mode, gen_val, layout), name="x")
                sx = snapshot(x)
                rhs = None
                nd = None
                if cfg["rhs"] == "num":
                    rhs = Poly.gen(9, U.zero_tuple()) if mode == "sym" else S_NUM
                elif cfg["rhs"] == "arr":
                    rhs = U.array(cfg["yd"], U.gen_values(2, cfg["yd"], mode, gen_val, "C" if layout == "M" else layout), name="y")
                    srhs = snapshot(rhs)
                elif cfg["rhs"] == "nd":
                    nd = U.gen_values(2, cfg["yd"], mode, gen_val, "C" if layout == "M" else layout)
                    rhs = nd
            except Exception as e:
                return [f"MACHINERY: cannot build inputs: {e!r}"]
            raised = None
            r = None
            try:
                if cfg["op"] == "get":
                    r = x[pykey]
                else:
                    x[pykey] = rhs
            except SymbolicBranch as e:
                problems.append(tag + f"implementation branched on a value: {e}")
                continue
            except Exception as e:
                raised = e
            if cfg["op"] == "get":
                problems += [tag + p for p in unchanged(x, sx, "{C15} source")]
                if exp["error"]:
                    if raised is None:
                        problems.append(tag + "{C06} key must be refused but a result was returned")
                    continue
                if raised is not None:
                    problems.append(tag + "{C06,C04} read raised " + _fmt(raised))
                    continue
                problems += [tag + "{C06,C04} " + p for p in compare_array(U, r, exp, mode, gen_val)]
                if PROBE_ALIAS and isinstance(r, FlodymArray) and isinstance(r.values, np.ndarray):
                    try:
                        r.values[...] = (Poly.const(-99) if mode == "sym" else -99.0)
                    except Exception as e:
                        problems.append(tag + f"{{C15}} cannot write into the result: {e!r}")
                    problems += [tag + p for p in unchanged(x, sx, "{C15} source after writing into the slice result")]
            else:
                if cfg["rhs"] == "arr":
                    problems += [tag + p for p in unchanged(rhs, srhs, "{C15} right-hand side")]
                if exp["error"]:
                    if raised is None:
                        problems.append(tag + "{C05} assignment must be refused but succeeded")
                    problems += [tag + p for p in unchanged(x, sx, "{C13} target after a refused assignment")]
                    continue
                if raised is not None:
                    problems.append(tag + "{C05,C06,C04} assignment raised " + _fmt(raised))
                    continue
                problems += [tag + "{C05,C06,C04} " + p for p in compare_array(U, x, exp, mode, gen_val, what="target")]
                if nd is not None:
                    # an assigned ndarray is copied: later changes to it do not reach the target
                    after = snapshot(x)
                    try:
                        nd[...] = (Poly.const(-77) if mode == "sym" else -77.0)
                    except Exception as e:
                        return [f"MACHINERY: cannot mutate ndarray: {e!r}"]
                    problems += [tag + p for p in unchanged(x, after, "{C05,C15} target after mutating the assigned ndarray")]
    Poly.seed = None
    return problems


def _fmt(e):
    return traceback.format_exception_only(type(e), e)[-1].strip()[:300]
