"""C04: results do not depend on the storage order of dimensions.

Two parts.  (1) On the contract, Prop_C04 (spec/mc/MC_ArrayOps.tla, MC_Index.tla) is TLC-checked: re-storing an
operand in the canonical order changes no entry.  (2) On the implementation, the TLC-enumerated vectors are grouped into
ORBITS (same operation, same dimension SETS, same key / request, differing only in storage orders) and the
implementation's results are compared BY LABEL within each orbit (implementation against implementation: the
metamorphic relation itself), for float64 arrays in C and Fortran memory layout.  Lifetime parameters, DataFrame
import / export and stacking / splitting are covered by dedicated orbits."""

import itertools
import json
from fractions import Fraction

import numpy as np

from . import core
from .core import Model, Outcome
from .poly import Poly, nu
from .universe import Universe, FlodymArray, Dimension, DimensionSet
from . import replay_arrays, replay_index, replay_tables


# ----------------------------------------------------------------------------- executing one vector numerically
def label_dict(U, arr):
    out = {}
    letters = list(arr.dims.letters)
    for idx in np.ndindex(*arr.values.shape):
        t = U.labtuple(letters, [U.labels(l)[i] for l, i in zip(letters, idx)])
        out[t] = float(arr.values[idx])
    return (frozenset(letters), out)


def exec_arrayops(vec, layout):
    cfg = vec["cfg"]
    U = Universe.from_pattern(vec["pattern"])
    op = cfg["op"]
    if op in replay_arrays.NUM_ONLY:
        (xlo, xn), yspec = replay_arrays.NUM_ONLY[op]
        xval = replay_arrays.num_input(cfg["seed"], xlo, xn)
        yval = replay_arrays.num_input(cfg["seed"], *yspec) if yspec else None
    elif op in replay_arrays.ORD_OPS:
        seed = cfg["seed"]
        xval = yval = (lambda g, seed=seed: Fraction(nu(seed, g)))
    else:
        xval = yval = replay_arrays.gen_val
    lay = "C" if layout == "I" else layout
    x = U.array(cfg["xd"], U.gen_values(1, cfg["xd"], "num", xval, lay), name="x")
    y = None
    if op in ("add", "sub", "mul", "div", "min", "max", "pow"):
        y = U.array(cfg["yd"], U.gen_values(2, cfg["yd"], "num", yval, lay), name="y")
    if layout == "I":
        # the same numbers stored as 64-bit integers (where they are whole numbers): storage order must not matter for them either
        for a in (x, y):
            if a is not None and np.all(np.asarray(a.values, dtype=float) == np.round(np.asarray(a.values, dtype=float))):
                a.values = np.asarray(a.values, dtype=float).astype(np.int64)
    try:
        with np.errstate(all="ignore"):
            r = replay_arrays.apply_op(U, cfg, x, y, replay_arrays.S_NUM)
    except Exception:
        return "error"
    return label_dict(U, r) + (tuple(r.dims.letters),)


def orbit_key_arrayops(vec):
    c = vec["cfg"]
    fam = vec["family"]
    yd = tuple(sorted(c["yd"])) if fam == "arith" else tuple(c["yd"])      # reduce: yd is the REQUEST, kept
    return json.dumps([vec["pattern"], fam, c["op"], sorted(c["xd"]), yd, c["seed"], c.get("form", "")])


def exec_index(vec, layout):
    cfg = vec["cfg"]
    U = replay_index.universe_of(vec)
    x = U.array(cfg["xd"], U.gen_values(1, cfg["xd"], "num", replay_arrays.gen_val, layout), name="x")
    key = {l: replay_index.key_value(U, l, s) for l, s in cfg["key"]} if cfg["key"] else Ellipsis
    try:
        if cfg["op"] == "get":
            r = x[key]
            return label_dict(U, r) + (tuple(r.dims.letters),)
        if cfg["rhs"] == "num":
            x[key] = replay_arrays.S_NUM
        elif cfg["rhs"] == "arr":
            x[key] = U.array(cfg["yd"], U.gen_values(2, cfg["yd"], "num", replay_arrays.gen_val, layout), name="y")
        else:
            return None   # positional ndarray sources depend on the region's order by definition
        return label_dict(U, x) + (None,)
    except Exception:
        return "error"


def orbit_key_index(vec):
    c = vec["cfg"]
    key = sorted((l, json.dumps(s, sort_keys=True)) for l, s in c["key"])
    return json.dumps([vec["pattern"], c["op"], sorted(c["xd"]), key, c["rhs"], sorted(c["yd"])])


def run_orbits(args):
    engine, vecs = args
    ex = exec_arrayops if engine == "arrayops" else exec_index
    problems = []
    for layout in (("C", "F", "I") if engine == "arrayops" else ("C", "F")):
        results = [ex(v, layout) for v in vecs]
        ref = next((r for r in results if r is not None), None)
        for v, r in zip(vecs, results):
            if r is None or ref is None:
                continue
            if (r == "error") != (ref == "error"):
                problems.append(f"{{C04}} [{engine}/{layout}] {json.dumps(v['cfg'])[:200]}: raises for one storage order but not for another "
                                f"({json.dumps(vecs[0]['cfg'])[:160]})")
                break
            if r == "error":
                continue
            if r[0] != ref[0]:
                problems.append(f"{{C04}} [{engine}/{layout}] {json.dumps(v['cfg'])[:200]}: result dimensions {sorted(r[0])} != {sorted(ref[0])} "
                                f"of another storage order")
                break
            def same(a, b):   # non-finite entries (0/0 in shares of an all-zero slice) are equal to each other
                return (not np.isfinite(a) and not np.isfinite(b)) or replay_arrays.close(a, b)
            bad = [(t, r[1].get(t), ref[1][t]) for t in ref[1] if t not in r[1] or not same(r[1][t], ref[1][t])][:2]
            if bad:
                problems.append(f"{{C04}} [{engine}/{layout}] {json.dumps(v['cfg'])[:200]}: entries differ by label from the run with "
                                f"storage order {vecs[0]['cfg']['xd']}/{vecs[0]['cfg'].get('yd')}: (labels, this, other) {bad}")
                break
    return problems


# ----------------------------------------------------------------------------- dedicated orbits
def lifetime_orbit(cfgid):
    """the same parameters handed to a lifetime model in every storage order of their dimensions -> identical tables"""
    from .replay_stocks import Setup, StepLifetime
    from .universe import flodym
    from . import lifetime_closed
    config = {"grid": [2000, 2001, 2003, 2008], "nl": 6, "family": "fixed", "setting": "middle", "prmkind": "both",
              "prm8": [[12 + 3 * c + 5 * l for l in range(6)] for c in range(4)], "dt2": [3, 3, 7, 7]}
    config["prmkind"] = ["both", "lab"][cfgid % 2]
    S = Setup(config)
    problems = []
    models = ["FixedLifetime", "NormalLifetime", "WeibullLifetime", "LogNormalLifetime", "FoldedNormalLifetime", "StepLifetime"]
    model = models[cfgid % len(models)]
    tables = []
    later = []      # tables read AFTER the caller changed its parameter arrays in place (history: set_prms, edit, read)
    for variant in range(6):
        try:
            if model in lifetime_closed.MODELS:
                cls, _, names = lifetime_closed.MODELS[model]
                # (the parameter VALUES are the same for every member of the orbit; only their storage order varies)
                first, second = lifetime_closed.params(model, S, variant, jump=bool(cfgid % 2))
                a1, a2 = lifetime_closed.build_arrays(S, first, second, variant)
                lm = cls(dims=S.dims, time_letter="t", **{names[0]: a1, names[1]: a2})
                b1, b2 = lifetime_closed.build_arrays(S, first, second, variant)
                lm2 = cls(dims=S.dims, time_letter="t")
                lm2.set_prms(**{names[0]: b1, names[1]: b2})
                for b in (b1, b2):
                    if hasattr(b, "values"):
                        b.values[...] = b.values * 1.5
                later.append((variant, np.array(lm2.sf)))
            else:
                S.cfg["family"] = "fixed" if model == "FixedLifetime" else "step"
                lm, _ = S.lifetime_model(variant, via_set_prms=bool(variant % 2))
            tables.append((np.array(lm.sf), np.array(lm.pdf)))
        except Exception as e:
            problems.append(f"{{C04}} [lifetime/{model}] parameter storage order variant {variant}: raised {type(e).__name__}: {str(e)[:120]}")
    for variant, sf in later[1:]:
        if not np.allclose(sf, later[0][1], rtol=0, atol=1e-12):
            problems.append(f"{{C04}} [lifetime/{model}/{config['prmkind']}] after the caller edited its parameter arrays in place, the survival "
                            f"table depends on the storage order the parameters were handed over in (variant {variant} vs {later[0][0]})")
            break
    for k, (sf, pdf) in enumerate(tables[1:], start=1):
        if not (np.allclose(sf, tables[0][0], rtol=0, atol=1e-12) and np.allclose(pdf, tables[0][1], rtol=0, atol=1e-12)):
            problems.append(f"{{C04}} [lifetime/{model}/{config['prmkind']}] survival table depends on the storage order of the parameter "
                            f"array's dimensions (variant {k} vs 0)")
            break
    return problems


def stack_split_orbit(perm_id):
    from flodym.flodym_array_helper import flodym_array_stack
    U = Universe.from_pattern("P333")
    perms = list(itertools.permutations(["a", "b", "c"]))
    ds = list(perms[perm_id % 6])
    problems = []
    x = U.array(ds, U.gen_values(1, ds, "num", replay_arrays.gen_val, "F" if perm_id >= 6 else "C"))
    base = label_dict(U, x)[1]
    for l in ds:
        try:
            parts = x.split(l)
            if list(parts.keys()) != list(U.dim(l).items):
                problems.append(f"{{C04,C06}} [split] dims {ds}: split({l!r}) keys {list(parts.keys())}")
                continue
            for it, p in parts.items():
                lab = U.labels(l)[U.dim(l).items.index(it)]
                for t, v in label_dict(U, p)[1].items():
                    full = list(t)
                    full[U.canon.index(l)] = lab
                    if not replay_arrays.close(v, base[tuple(full)]):
                        problems.append(f"{{C04,C06}} [split] dims {ds}: split({l!r})[{it!r}] entry {t} = {v}, array has {base[tuple(full)]}")
                        break
            back = flodym_array_stack(list(parts.values()), U.dim(l))
            if label_dict(U, back)[1] != base or list(back.dims.letters) != [d for d in ds if d != l] + [l]:
                problems.append(f"{{C04}} [stack] dims {ds}: stack(split({l!r})) is not the array (by label) over {[d for d in ds if d != l] + [l]}")
            # the parts after the first stored in ANOTHER dimension order (same labelled content): the stack is the same by label
            rest = [d for d in ds if d != l]
            if len(rest) >= 2:
                plist = list(parts.values())
                turned = [plist[0]] + [p.cast_to(U.dimset(rest[::-1])) for p in plist[1:]]
                back2 = flodym_array_stack(turned, U.dim(l))
                if label_dict(U, back2)[1] != base:
                    problems.append(f"{{C04}} [stack] dims {ds}: stacking parts that store their dimensions in different orders "
                                    f"({rest} and {rest[::-1]}) gives other entries by label")
        except Exception as e:
            problems.append(f"{{C04}} [stack/split] dims {ds}, letter {l!r}: raised {type(e).__name__}: {str(e)[:120]}")
    return problems


def tables_orbit(args):
    """import / export of the same labelled content for every storage order of the array's dims"""
    setid, wide, styleid = args
    letters = [["a", "b"], ["a", "b", "c"], ["b", "c", "d"], ["a", "c"]][setid % 4]
    from .universe import DimensionSet
    problems = []
    ref = None
    for ds in itertools.permutations(letters):
        ds = list(ds)
        if wide and wide not in ds:
            return []
        dims = DimensionSet(dim_list=[replay_tables.DIMOBJ[l] for l in ds])
        vals = np.zeros(tuple(d.len for d in dims))
        for idx in np.ndindex(*vals.shape):
            lab = {l: i + 1 for l, i in zip(ds, idx)}
            vals[idx] = 1.25 + sum(lab[l] * (7 ** k) for k, l in enumerate(sorted(lab)))
        arr = FlodymArray(dims=dims, values=np.asfortranarray(vals) if styleid % 2 else vals.copy())
        try:
            df = arr.to_df(index=bool(styleid % 2), dim_to_columns=(replay_tables.DIMOBJ[wide].name if wide else None))
            rows = replay_tables.project_df(df, ds, wide)
            back = FlodymArray.from_df(dims=dims, df=df.iloc[::-1])
        except Exception as e:
            problems.append(f"{{C04,C11}} [tables] dims {ds}, dim_to_columns {wide or '-'}: raised {type(e).__name__}: {str(e)[:120]}")
            continue
        if not np.array_equal(back.values, vals):
            problems.append(f"{{C04,C11}} [tables] dims {ds}: from_df(to_df(x)) differs from x")
        if ref is None:
            ref = rows
        elif rows != ref:
            problems.append(f"{{C04,C11}} [tables] dims {ds}, dim_to_columns {wide or '-'}: exported rows differ by label from those of storage order {letters}")
    return problems


def shared_labels_orbit(case):
    """Two dimensions carrying the SAME item labels (a time and a cohort dimension with the same years, typed or untyped):
    whatever a key means (or whether it is refused as ambiguous) must not depend on the storage order of the array."""
    from .universe import Dimension, DimensionSet
    typed, n = case
    years = list(range(2000, 2000 + n))
    mk = (lambda v: v) if typed else (lambda v: str(v))
    t = Dimension(name="Time", letter="t", items=[mk(y) for y in years], dtype=int if typed else None)
    c = Dimension(name="Cohort", letter="c", items=[mk(y) for y in years], dtype=int if typed else None)
    r = Dimension(name="Region", letter="r", items=["EUR", "USA", "CHN"], dtype=str if typed else None)
    D = {"t": t, "c": c, "r": r}
    y = mk(years[n // 2])
    keys = [("bare item", y), ("item tuple", (y, "EUR")), ("dict t", {"t": y}), ("dict c", {"c": y}), ("item tuple r first", ("USA", y)),
            ("two equal items", (y, y)), ("dict both", {"t": y, "c": mk(years[0])})]
    problems = []

    def labelled(arr):
        out = {}
        for idx in np.ndindex(*arr.values.shape):
            out[tuple(sorted((d.letter, d.items[i]) for d, i in zip(arr.dims, idx)))] = float(arr.values[idx])
        return out

    for what, key in keys:
        for mode in ("read", "write"):
            ref = None
            for order in itertools.permutations("tcr"):
                dims = DimensionSet(dim_list=[D[l] for l in order])
                vals = np.zeros(tuple(d.len for d in dims))
                for idx in np.ndindex(*vals.shape):
                    lab = {l: i for l, i in zip(order, idx)}
                    vals[idx] = 1.0 + lab["t"] + 100 * lab["c"] + 10000 * lab["r"]
                x = FlodymArray(dims=dims, values=vals)
                try:
                    if mode == "read":
                        res = labelled(x[key])
                    else:
                        x[key] = -1.0
                        res = labelled(x)
                except Exception:
                    res = "error"
                if ref is None:
                    ref = (order, res)
                elif res != ref[1]:
                    problems.append(f"{{C04,C06}} [shared item labels, {'typed' if typed else 'untyped'} dims, {n} years] {mode} with {what} {key!r}: "
                                    f"storage order {''.join(order)} gives {'an error' if res == 'error' else 'a result'} that differs from "
                                    f"storage order {''.join(ref[0])} ({'error' if ref[1] == 'error' else 'result'})")
                    break
    return problems[:4]


def large_orbit(case):
    """LARGE instances (tens of thousands of entries - beyond any size at which an implementation might switch algorithms): the same
    operands stored in different dimension orders give the same result by label.  case = (kind, n)"""
    kind, n = case
    rng = np.random.default_rng(n)
    a = Dimension(name="dim_a", letter="a", items=[f"a{i}" for i in range(n)])
    b = Dimension(name="dim_b", letter="b", items=[f"b{i}" for i in range(n - 10)][::-1])
    c = Dimension(name="dim_c", letter="c", items=["c1", "c2"])
    va = rng.integers(0, 9, size=(n, n - 10)).astype(float)
    vy = rng.integers(0, 9, size=(2, n - 10, n)).astype(float)            # over (c, b, a)
    mk = lambda ds, v: FlodymArray(dims=DimensionSet(dim_list=list(ds)), values=np.ascontiguousarray(v))
    problems = []
    try:
        if kind == "arith":
            x = mk((a, b), va)
            orders = {"cba": mk((c, b, a), vy), "cab": mk((c, a, b), vy.transpose(0, 2, 1)), "abc": mk((a, b, c), vy.transpose(2, 1, 0))}
            for opname, f in (("+", lambda p, q: p + q), ("-", lambda p, q: p - q), ("maximum", lambda p, q: p.maximum(q)), ("*", lambda p, q: p * q)):
                res = {}
                for k, y in orders.items():
                    r = f(x, y)
                    res[k] = r.sum_to(("a", "b")).values if "c" in r.dims.letters and opname == "*" else (r.values if r.dims.letters == ("a", "b") else r.sum_to(("a", "b")).values)
                ref = res["abc"]
                for k, v in res.items():
                    if v.shape != ref.shape or not np.array_equal(v, ref):
                        problems.append(f"{{C04,C01}} [large, {n} x {n - 10}] x(a,b) {opname} y: the result for y stored as {k} differs by label from y stored as abc")
        else:
            z = mk((a, b), va)
            zt = mk((b, a), va.T)
            dims_ab = DimensionSet(dim_list=[a, b])
            for k, src in (("(a,b)", z), ("(b,a)", zt)):
                back = FlodymArray.from_df(dims=dims_ab, df=src.to_df())
                if not np.array_equal(back.values, va):
                    problems.append(f"{{C04,C11}} [large, {n} x {n - 10}] from_df(to_df(x)) into dims (a,b) with x stored as {k} differs from x by label")
    except Exception as e:
        problems.append(f"{{C04,C01,C11}} [large, {kind}, {n}] raised {type(e).__name__}: {str(e)[:160]}")
    return problems


def _call_named(args):
    name, a = args
    return {"orbits": run_orbits, "lifetime": lifetime_orbit, "stack": stack_split_orbit, "tables": tables_orbit,
            "shared": shared_labels_orbit, "large": large_orbit}[name](a)


def check_C04(tier, seed):
    out = Outcome("C04", tier, seed)
    quick = tier == "quick"
    pats_a = ["P222", "P322"] if quick else ["P222", "P322", "P231", "P2222"]
    models = []
    for p in pats_a:
        md = 3 if len(p) <= 4 else 4
        for fam, inv in (("arith", "Prop_C01"), ("reduce", "Prop_C07")):
            models.append(Model("MC_ArrayOps.tla", {"Pattern": p, "Family": fam, "MaxDims": md, "Seeds": {0, 1}, "Emit": True},
                                invariants=["Prop_C04", inv, "EmitInv"], workers=2, label=f"MC_ArrayOps/{fam}/{p}"))
    pats_i = ["P222", "P322"] if quick else ["P222", "P322", "P232", "P2222"]
    for p in pats_i:
        for fam in ("get", "setnum", "setarr"):
            if fam == "setarr" and quick and p == "P322":
                continue
            models.append(Model("MC_Index.tla", {"Pattern": p, "Family": fam, "MaxDims": 3, "Emit": True},
                                invariants=["Prop_C04", "EmitInv"], workers=2, label=f"MC_Index/{fam}/{p}"))
    for fam, p, md in (("getpat", "P22222", 1), ("getpat", "P23232", 1), ("setpat", "P22222", 1)):
        models.append(Model("MC_Index.tla", {"Pattern": p, "Family": fam, "MaxDims": md, "Emit": True},
                            invariants=["Prop_C04", "EmitInv"], workers=2, label=f"MC_Index/{fam}/{p}"))
    groups = {}
    nvec = 0
    for m, res in core.run_models(models, seed=seed, parallel=8):
        out.add_tlc(m, res)
        eng = "arrayops" if m.module == "MC_ArrayOps.tla" else "index"
        for v in res.vectors:
            nvec += 1
            k = (eng, orbit_key_arrayops(v) if eng == "arrayops" else orbit_key_index(v))
            groups.setdefault(k, []).append(v)
    jobs = [("orbits", (k[0], vs)) for k, vs in groups.items() if len(vs) > 1]
    jobs += [("lifetime", i) for i in range(12 if quick else 36)]
    jobs += [("stack", i) for i in range(12)]
    jobs += [("shared", (typed, n)) for typed in (True, False) for n in (3, 12)]
    jobs += [("tables", (s, w, st)) for s in range(4) for w in ("", "a", "b", "c") for st in (1, 2)]
    jobs += [("large", ("arith", 110)), ("large", ("tables", 130))] + ([] if quick else [("large", ("arith", 300)), ("large", ("tables", 400))])
    bad = core.replay_parallel(_call_named, jobs)
    out.replayed += nvec
    # direction B: recorded random programs (histories!) validated by TLC - a result that depends on what was done to another
    # array of the same dimension objects before breaks "independent of storage order" as a history, not as a single call
    from .checks_traces import run_traces
    run_traces(out, "C04", tier)
    out.extra["orbits"] = len(groups)
    out.extra["orbits_with_several_storage_orders"] = sum(1 for vs in groups.values() if len(vs) > 1)
    out.extra["largest_orbit"] = max(len(vs) for vs in groups.values())
    out.extra["dedicated_orbits"] = {"lifetime_parameters": sum(1 for j in jobs if j[0] == "lifetime"), "stack_split": 12,
                                     "dataframe": sum(1 for j in jobs if j[0] == "tables")}
    big = max(groups.values(), key=len)
    out.samples += [core.sample_of({"orbit_of": big[0]["cfg"], "storage_orders": [[v["cfg"]["xd"], v["cfg"].get("yd")] for v in big[:8]]}, 900)]
    out.judge([({"cfg": {"job": str(j[0])}}, p) for j, p in ((jb, pr) for jb, pr in bad)], "orbits",
              lambda v, p: {"engine": "orbits", "what": p[0].split("]")[0][-20:]})
    out.exhaustive = True
    out.assumptions += [
        "orbits are taken over the TLC-enumerated vectors of MC_ArrayOps (arithmetic, reductions, casts, shares, cumsum) and MC_Index (slice reads "
        "with every key form, assignment of numbers and arrays): all storage orders of up to 3 (thorough: 4) dimensions incl. equal lengths",
        "within an orbit the implementation's results are compared with each other by label (float64, C and Fortran layout); conformance of each "
        "vector to the label-keyed contract is checked by C01 / C05 / C06 / C07 / C11",
        "the requested order of sum_to / cast_to / the target's order are part of the call and are kept fixed within an orbit",
        "dedicated orbit: a time and a cohort dimension with the SAME item labels (typed int / untyped, 3 and 12 items): bare items, item tuples and "
        "dict keys read and written for all 6 storage orders - the meaning of a key (or its refusal as ambiguous) may not depend on the order",
        "dedicated orbits: lifetime parameters in all 6 storage orders of (t, r, s) for six lifetime models; split / stack for all orders of a "
        "3-dimensional array with equal lengths; to_df / from_df for all orders of 2-3 dimensional arrays",
    ]
    return out.finish(rule="one orbit per (operation, dimension sets, key / request); every member executed and compared by label with the others")


CHECKS = {"C04": check_C04}
