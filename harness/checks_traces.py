"""Direction B for the array properties: recorded traces of random programs validated by TLC
(spec/trace/Trace_Workspace.tla)."""

import json

from . import core, trace_driver

OP_PROP = {"add": "C01", "sub": "C01", "mul": "C01", "neg": "C01", "copy": "C15", "sum_to": "C07", "sum_over": "C07",
           "cast_to": "C07", "cumsum": "C07", "read": "C06", "assign_num": "C05", "assign_arr": "C05", "poke": "C15"}


def props_of(event, clause):
    """which properties a rejected event violates"""
    p = {OP_PROP.get(event["op"], "C13")}
    if "not written by this call" in clause:
        p = {"C15"} if event["outcome"] == "ok" else {"C13"}
    if clause.startswith("outcome") or event["outcome"] == "error":
        p.add("C13")
    if event["op"] in ("assign_num", "assign_arr"):
        p.add("C06")
    p.add("C04") if event["op"] not in ("poke", "copy") else None
    return p


def run_traces(out, prop, tier):
    ntraces, nsteps = (20, 15) if tier == "quick" else (500, 30)
    total = 0
    events = 0
    for uid in range(len(trace_driver.UNIVERSES)):
        batch = trace_driver.record_batch(uid, ntraces, nsteps, out.seed)
        acc, rej, res = trace_driver.validate_batch(batch, workers=4)
        out.states += res.distinct
        out.transitions += res.generated
        out.models.append({"model": f"Trace_Workspace/universe{uid}", "states": res.distinct, "generated": res.generated,
                           "traces": len(batch["traces"]), "accepted": len(acc), "wall_s": round(res.wall, 2)})
        total += len(batch["traces"])
        events += sum(len(t["events"]) for t in batch["traces"])
        bad = []
        for tid, (pos, clause) in rej.items():
            tr = batch["traces"][tid - 1]
            ev = tr["events"][pos - 1]
            if prop in props_of(ev, clause):
                vec = {"universe": batch["universe"], "trace": {"init": tr["init"], "events": tr["events"][:pos]}}
                bad.append((vec, [f"{{{prop}}} recorded trace rejected by the specification at event {pos} "
                                  f"({ev['op']}, logged outcome {ev['outcome']}): {clause}"]))
        out.judge(bad, "trace", lambda v, p: {"engine": "trace", "op": v["trace"]["events"][-1]["op"], "clause": p[0].split(": ")[-1][:40]})
        if uid == 0:
            t0 = batch["traces"][0]
            out.samples.append(core.sample_of({"recorded_trace": [[e["op"], e["a"], e["b"], e["dst"], e["dims"], e["key"], e["outcome"]]
                                                                  for e in t0["events"][:6]]}, 900))
    out.traces_validated += total
    out.extra["recorded_traces_validated_by_TLC"] = total
    out.extra["recorded_events"] = events
    return total
