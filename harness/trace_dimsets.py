"""Direction B for C14: random programs on real DimensionSet objects, recorded and validated by TLC
(spec/trace/Trace_DimSets.tla).  The recorder logs each public call at its return (also when it raised) with its
arguments and, for every register, what the real object reports about itself.  Nothing here computes an expected set."""

import json
import os
import random
import re
import shutil

from . import tlcrun
from .core import Machinery
from .universe import Dimension, DimensionSet, FlodymArray

# id, letter, name, size: seven letters, three of them with a second dimension on the same letter (other name, other size)
ALPHABET = [("A", "a", "dim_a", 2), ("B", "b", "dim_b", 3), ("C", "c", "dim_c", 2), ("D", "d", "dim_d", 1), ("E", "e", "dim_e", 4),
            ("F", "f", "dim_f", 5), ("G", "g", "dim_g", 7), ("A2", "a", "alt_a", 3), ("B2", "b", "alt_b", 2), ("E2", "e", "alt_e", 6),
            # two dimensions that carry the NAME of another one under their own letter (only letters are unique in a set)
            ("H", "h", "dim_a", 3), ("C2", "c", "dim_g", 2),
            # letters that differ from another one only in CASE are different letters
            ("AU", "A", "dim_A", 2), ("EU", "E", "DIM_E", 3)]
REGS = ["r1", "r2", "r3", "r4"]


def make_dims():
    return {d: Dimension(name=name, letter=letter, items=[f"{d}_{i}" for i in range(1, size + 1)]) for d, letter, name, size in ALPHABET}


class Program:
    def __init__(self, seed):
        self.rnd = random.Random(seed)
        self.dims = make_dims()
        self.regs = {r: None for r in REGS}
        self.arr = None
        self.events = []

    def ids_of(self, dimset):
        out = []
        for d in dimset:
            hit = [k for k, v in self.dims.items() if v.name == d.name and v.letter == d.letter and list(v.items) == list(d.items)]
            out.append(hit[0] if hit else f"?{d.letter}")
        return out

    def log_reg(self, s):
        if s is None:
            return {"none": True, "ids": [], "letters": [], "shape": [], "total": 0, "arrshape": [-1]}
        return {"none": False, "ids": self.ids_of(s), "letters": list(s.letters), "shape": [int(x) for x in s.shape], "total": int(s.total_size),
                "arrshape": self.arrshape(s)}

    def arrshape(self, s):
        """the shape of the values of an array built from the set right now (C13)"""
        n = 1
        for d in s:
            n *= len(d.items)
        if n > 5000:
            return [-1]
        try:
            return [int(x) for x in FlodymArray(dims=s).values.shape]
        except Exception:
            return [-2]

    def rand_set(self):
        letters = {}
        for d, letter, _, _ in self.rnd.sample(ALPHABET, self.rnd.randint(0, 6)):
            letters.setdefault(letter, d)
        ids = list(letters.values())
        self.rnd.shuffle(ids)
        return DimensionSet(dim_list=[self.dims[d] for d in ids])

    def record(self, ev, fn):
        ev = {"op": "", "recv": "", "other": "", "dst": "", "inplace": False, "d": [], "k": "", "i": 0, "keys": [], "how": "", **ev}
        try:
            res = fn()
            ev["outcome"] = "ok"
            if ev["op"] == "build_array":
                self.arr = res
            elif not ev["inplace"]:
                if not isinstance(res, DimensionSet):
                    raise Machinery(f"{ev['op']} returned {type(res).__name__}")
                self.regs[ev["dst"]] = res
            elif res is not None:
                ev["outcome"] = "returned_a_value_in_place"
        except Machinery:
            raise
        except Exception:
            ev["outcome"] = "error"
        ev["post"] = {r: self.log_reg(self.regs[r]) for r in REGS}
        ev["arr"] = {"none": self.arr is None, "ids": [] if self.arr is None else self.ids_of(self.arr.dims)}
        if self.arr is not None and tuple(self.arr.values.shape) != tuple(d.len for d in self.arr.dims):
            ev["arr"]["ids"] = ["?shape"]
        self.events.append(ev)

    def key_of(self, s, d):
        """a key for dimension d of set s: its letter, or its name if no other dimension of s carries that name"""
        unique = sum(1 for x in s if x.name == d.name) == 1
        return d.name if (unique and self.rnd.random() < 0.5) else d.letter

    def keys_of(self, s, unknown_p=0.1):
        return [self.key_of(s, d) for d in s]

    def step(self):
        rnd, regs = self.rnd, self.regs
        defined = [r for r in REGS if regs[r] is not None]
        recv = rnd.choice(defined)
        dst = rnd.choice(REGS)
        s = regs[recv]
        op = rnd.choice(["union", "inter", "diff", "xor", "plus", "append", "prepend", "insert", "expand", "drop", "replace",
                         "subset", "subset", "copy", "build_array"])
        if op in ("union", "inter", "diff", "xor", "plus"):
            other = rnd.choice(defined)
            t = regs[other]
            style = rnd.random() < 0.5
            fn = {"union": (lambda: s | t) if style else (lambda: s.union_with(t)),
                  "inter": (lambda: s & t) if style else (lambda: s.intersect_with(t)),
                  "diff": (lambda: s - t) if style else (lambda: s.difference_with(t)),
                  "xor": lambda: s ^ t, "plus": lambda: s + t}[op]
            self.record({"op": op, "recv": recv, "other": other, "dst": dst}, fn)
        elif op in ("append", "prepend", "insert", "expand", "replace"):
            inplace = rnd.random() < 0.5
            n = rnd.randint(1, 2) if op == "expand" else 1
            ds = [x[0] for x in rnd.sample(ALPHABET, n)]
            objs = [self.dims[d] for d in ds]
            if op == "append":
                fn = lambda: s.append(objs[0], inplace=inplace)
            elif op == "prepend":
                fn = lambda: s.prepend(objs[0], inplace=inplace)
            elif op == "expand":
                fn = lambda: s.expand_by(objs, inplace=inplace)
            elif op == "insert":
                i = rnd.randint(-len(s) - 1, len(s) + 1)      # (Python list.insert semantics: negative / out-of-range positions)
                self.record({"op": op, "recv": recv, "dst": dst, "inplace": inplace, "d": ds, "i": i}, lambda: s.insert(i, objs[0], inplace=inplace))
                return
            else:
                keys = self.keys_of(s) + ["zz"]
                k = rnd.choice(keys)
                if k != "zz" and s[k].letter == objs[0].letter:
                    return      # replacing a dimension by one with the same letter is left open by the statement
                self.record({"op": op, "recv": recv, "dst": dst, "inplace": inplace, "d": ds, "k": k}, lambda: s.replace(k, objs[0], inplace=inplace))
                return
            self.record({"op": op, "recv": recv, "dst": dst, "inplace": inplace, "d": ds}, fn)
        elif op == "drop":
            inplace = rnd.random() < 0.5
            k = rnd.choice(self.keys_of(s) + ["zz"])
            self.record({"op": op, "recv": recv, "dst": dst, "inplace": inplace, "k": k}, lambda: s.drop(k, inplace=inplace))
        elif op == "subset":
            pool = list(s)
            chosen = rnd.sample(pool, rnd.randint(0, len(pool)))
            keys = [self.key_of(s, d) for d in chosen]
            if rnd.random() < 0.08:
                keys.insert(rnd.randint(0, len(keys)), "zz")
            if not keys:
                return      # (get_subset() without arguments is the "copy" operation)
            tk = tuple(keys)
            self.record({"op": op, "recv": recv, "dst": dst, "keys": keys}, (lambda: s.get_subset(tk)) if rnd.random() < 0.5 else (lambda: s[tk]))
        elif op == "copy":
            how = rnd.choice(["copy", "get_subset_noargs", "getitem_all"])
            if how == "getitem_all" and len(s) == 0:
                how = "copy"
            fn = {"copy": lambda: s.copy(), "get_subset_noargs": lambda: s.get_subset(), "getitem_all": lambda: s[tuple(s.letters)]}[how]
            self.record({"op": op, "recv": recv, "dst": dst, "how": how}, fn)
        else:
            if s.total_size > 5000:
                return
            self.record({"op": op, "recv": recv, "dst": recv}, lambda: FlodymArray(dims=s))

    def run(self, nsteps):
        self.regs["r1"] = self.rand_set()
        self.regs["r2"] = self.rand_set()
        init = {r: self.log_reg(self.regs[r]) for r in REGS}
        guard = 0
        while len(self.events) < nsteps and guard < nsteps * 20:
            guard += 1
            self.step()
        return {"init": init, "events": self.events}


def record_batch(ntraces, nsteps, seed):
    traces = [Program(seed * 100003 + 17 * k).run(nsteps) for k in range(ntraces)]
    return {"alphabet": [{"id": d, "letter": l, "name": n, "size": z} for d, l, n, z in ALPHABET], "traces": traces}


_ACC = re.compile(r'^<<"ACCEPTED", (\d+)>>')
_REJ = re.compile(r'^<<"REJECTED", (\d+), (\d+), "(.*)">>')


def validate_batch(batch, workers=4):
    tmp = tlcrun.scratch_dir()
    try:
        path = os.path.join(tmp, "traces.json")
        with open(path, "w") as f:
            json.dump(batch, f)
        lines = []
        cfg = "SPECIFICATION TraceSpec\nINVARIANT Verdict\nINVARIANT UniqueTraceInv\nCHECK_DEADLOCK FALSE\n"
        res = tlcrun.run_tlc("Trace_DimSets.tla", cfg, workers=workers, env={"TRACE_FILE": path}, line_sink=lines.append)
    finally:
        shutil.rmtree(tmp, ignore_errors=True)
    if res.violation:
        raise Machinery(f"dimension-set trace validation: TLC reports {res.violation}\n{res.tail[-1500:]}")
    acc, rej = set(), {}
    for ln in lines:
        m = _ACC.match(ln)
        if m:
            acc.add(int(m.group(1)))
        m = _REJ.match(ln)
        if m:
            rej[int(m.group(1))] = (int(m.group(2)), m.group(3))
    n = len(batch["traces"])
    if acc | set(rej) != set(range(1, n + 1)):
        raise Machinery(f"dimension-set trace validation gave no verdict for traces {sorted(set(range(1, n + 1)) - acc - set(rej))[:10]}")
    return acc, rej, res
