"""Checks decided by histories over the workspace model: C13, C15 (and the history part of C05)."""

from . import core
from .core import Model, Outcome
from . import replay_workspace


def sig_ws(vec, probs):
    ops = [st["op"] for st in vec["hist"]]
    p = probs[0]
    sym = ("not_refused" if "must be refused" in p else "raised" if "call raised" in p else
           "changed_after_refusal" if "REFUSED" in p else "aliasing" if "not an output" in p else "wrong")
    import re
    m = re.search(r"step (\d+) (\w+)", p)
    return {"engine": "workspace", "scenario": vec["scenario"], "op": m.group(2) if m else ops[-1], "symptom": sym}


def ws_model(pattern, scenario, depth, xd, yd, simulate=None, props=True):
    consts = {"Pattern": pattern, "Scenario": scenario, "Depth": depth, "Emit": True}
    for i in range(3):
        consts[f"XD{i + 1}"] = xd[i] if i < len(xd) else ""
        consts[f"YD{i + 1}"] = yd[i] if i < len(yd) else ""
    return Model("MC_Workspace.tla", consts, invariants=["Prop_ShapeInv", "EmitInv"],
                 properties=["Prop_Failed", "Prop_Inputs", "Prop_AssignDims"] if simulate is None else [],
                 workers=4 if simulate is None else 1, simulate=simulate, depth=depth + 1 if simulate else None,
                 label=f"MC_Workspace/{scenario}/{pattern}/x={''.join(xd)},y={''.join(yd)}/depth{depth}"
                       + (f"/simulate:{simulate}" if simulate else ""))


PLANS = {
    # (scenario, pattern, xd, yd, depth, simulate-N or None)
    ("C05", "quick"): [("assign", "P322", "ab", "ba", 2, None), ("assign", "P222", "ba", "cab", 2, None),
                       ("assign", "P322", "cab", "bc", 4, 25)],
    ("C05", "thorough"): [("assign", "P322", "ab", "ba", 2, None), ("assign", "P222", "ba", "cab", 2, None),
                          ("assign", "P222", "abc", "ca", 2, None), ("assign", "P322", "cab", "bc", 5, 400),
                          ("assign", "P232", "bca", "ab", 5, 400)],
    ("C13", "quick"): [("assign", "P322", "ab", "ba", 2, None), ("alias", "P322", "ab", "bc", 2, None),
                       ("mixed", "P322", "ab", "bc", 6, 20), ("mixed", "P222", "cab", "ba", 6, 20)],
    ("C13", "thorough"): [("assign", "P322", "ab", "ba", 2, None), ("assign", "P222", "abc", "ca", 2, None),
                          ("alias", "P322", "ab", "bc", 2, None), ("alias", "P222", "bac", "cb", 2, None),
                          ("mixed", "P322", "ab", "bc", 8, 300), ("mixed", "P222", "cab", "ba", 8, 300),
                          ("mixed", "P232", "ba", "abc", 10, 200)],
    ("C15", "quick"): [("alias", "P322", "ab", "bc", 2, None), ("alias", "P222", "bac", "cb", 2, None),
                       ("alias", "P322", "ba", "ab", 4, 30)],
    ("C15", "thorough"): [("alias", "P322", "ab", "bc", 2, None), ("alias", "P222", "bac", "cb", 2, None),
                          ("alias", "P322", "ab", "ba", 3, None), ("alias", "P322", "ba", "ab", 5, 500),
                          ("mixed", "P222", "cab", "ba", 8, 300)],
}


def run_workspace(out, prop, tier):
    plan = PLANS[(prop, tier)]
    models = [ws_model(pat, sc, depth, list(xd), list(yd), simulate=(f"num={n}" if n else None))
              for sc, pat, xd, yd, depth, n in plan]
    vectors = []
    for m, res in core.run_models(models, seed=out.seed, parallel=6):
        out.add_tlc(m, res)
        vectors += res.vectors
    # drop duplicate behaviours (simulation may repeat one)
    seen, uniq = set(), []
    import json
    for v in vectors:
        k = json.dumps(v["hist"], sort_keys=True) + v["pattern"] + "".join(v["xd"]) + "/" + "".join(v["yd"])
        if k not in seen:
            seen.add(k)
            uniq.append(v)
    bad = core.replay_parallel(replay_workspace.run_history, uniq)
    out.traces_validated += 0
    out.replayed += len(uniq)
    short = [{"scenario": v["scenario"], "xd": v["xd"], "yd": v["yd"],
              "steps": [[s["op"], s["args"], s["outcome"]] for s in v["hist"]]} for v in uniq[:: max(1, len(uniq) // 3)][:3]]
    out.samples += [core.sample_of(s, 900) for s in short]
    out.judge(core.for_property(bad, prop), "workspace", sig_ws)
    ops = out.extra.setdefault("history_steps_by_op", {})
    for v in uniq:
        for s in v["hist"]:
            k = s["op"] + ("/" + s["outcome"] if s["outcome"] == "error" else "")
            ops[k] = ops.get(k, 0) + 1
    return uniq


def check_C13(tier, seed):
    out = Outcome("C13", tier, seed)
    run_workspace(out, "C13", tier)
    # constructors / stocks / lifetime models rejecting wrong shapes and dims: single-call vectors
    from .checks_ctor import run_ctor
    run_ctor(out, "C13", tier)
    from .checks_traces import run_traces
    run_traces(out, "C13", tier)
    from .checks_dimsets import run_dimset_traces
    # refused table imports (one fault each) into pre-filled arrays: the array is exactly what it was ({C12,C13}-tagged problems only)
    from .checks_tables import tab_model, sig_tab
    from .checks_ctor import _only_tagged
    from . import replay_tables
    tvec = []
    for m, res in core.run_models([tab_model("import", 2, 1, {1, 2, 6})], seed=out.seed):
        out.add_tlc(m, res)
        tvec += [v for v in res.vectors if v.get("faults")]
    tbad = core.replay_parallel(replay_tables.run_vector, tvec)
    out.replayed += len(tvec)
    out.extra["refused_import_vectors"] = len(tvec)
    out.judge(core.for_property(_only_tagged(tbad), "C13"), "tables", sig_tab)
    run_dimset_traces(out, "C13", tier)     # arrays built from dimension sets after every call of random set programs (also in-place edits)
    out.assumptions += [
        "ShapeInv, FailedCallsChangeNothing and InputsUnchanged are TLC-checked on the contract; the replay re-checks "
        "values.shape == dims.shape and compares every register with the specification after every step of every behaviour",
        "set_values is given a private copy of the ndarray (aliasing through set_values is not covered by any statement)",
        "exhaustive histories of depth 2; longer histories by tlc -simulate (seeded with VERIF_SEED)",
    ]
    return out.finish(rule="behaviours of MC_Workspace (exhaustive to depth 2, simulated beyond), replayed from scratch; "
                           "distinct behaviours counted")


def check_C15(tier, seed):
    out = Outcome("C15", tier, seed)
    run_workspace(out, "C15", tier)
    from .checks_index import run_index
    run_index(out, ["get", "setnum"], ["P322", "P222"] if tier == "quick" else ["P322", "P222", "P232", "P2222"], 3,
              ["Prop_C06", "Prop_C05"], "C15", probe_alias=True)
    from .checks_ctor import run_inputs
    run_inputs(out, "C15", tier)
    # operands of every arithmetic form (incl. minimum / maximum / ** / reflected forms, which the workspace model does not have):
    # the single-operation vectors of MC_ArrayOps, of which only the "operand changed by the call" findings count here
    from . import replay_arrays
    m = Model("MC_ArrayOps.tla", {"Pattern": "P222", "Family": "arith", "MaxDims": 2 if tier == "quick" else 3, "Seeds": {0}, "Emit": True},
              invariants=["EmitInv"], workers=2, label="MC_ArrayOps/arith/P222 (operand snapshots)")
    for mm, res in core.run_models([m], seed=out.seed, parallel=1):
        out.add_tlc(mm, res)
        bad = core.replay_parallel(replay_arrays.run_vector, res.vectors)
        out.replayed += len(res.vectors)
        bad = [(v, ["{C15} " + p for p in probs if "changed by the call" in p]) for v, p0 in [(v, probs) for v, probs in bad] for probs in [p0]]
        out.judge([(v, p) for v, p in bad if p], "arrayops_operands", lambda v, p: {"engine": "arrayops_operands", "op": v["cfg"]["op"]})
    from .checks_traces import run_traces
    run_traces(out, "C15", tier)
    out.assumptions += [
        "independence of results is tested by writing into the result's values, into the source's values and by editing the "
        "result's dimension set in place, then comparing ALL registers with the specification (registers hold values there)",
        "results of sum_to / cumsum are decoupled by the harness: their independence is not claimed by the statement",
        "input snapshots (values + dimension sets) are compared around every single-operation vector of the other engines as well",
    ]
    return out.finish(rule="alias scenario behaviours (result-producing call; poke result / poke source / edit result dims), "
                           "plus every slice read of MC_Index followed by a write-through probe")


CHECKS = {"C13": check_C13, "C15": check_C15}
