"""Direction A for histories (spec/mc/MC_Workspace.tla): each TLC behaviour is replayed from scratch
into flodym; after EVERY step EVERY register is compared, by label, with the specification's state,
and the shape invariant is re-checked on every live object."""

import traceback

import numpy as np

from .poly import Poly, SymbolicBranch
from .universe import FlodymArray
from .replay_arrays import compare_array, gen_val as _gen_val_int


def gen_val(g):
    """non-integral (quarters: exact in binary floating point) values for the workspace histories: an array that was silently
    turned into an integer array by an earlier assignment would truncate them"""
    return _gen_val_int(g) / 4
from .replay_index import universe_of, key_value, _fmt

OP_TAGS = {
    "arith": "C01", "unary": "C07", "read": "C06", "assign_arr": "C05", "assign_num": "C05",
    "assign_nd": "C05", "assign_whole_nd": "C05", "stack": "C04", "poke": "C15", "poke_dims": "C15", "inplace_neg": "C15",
    "mutate_nd": "C05,C15", "new_nd": "C15",
}


def pykey(U, key, style):
    if not key:
        return Ellipsis if style % 2 == 0 else {}
    if style % 2 == 0:
        return {l: key_value(U, l, s) for l, s in key}
    return {U.name(l): key_value(U, l, s) for l, s in key}


def run_history(vec, modes=("sym", "num")):
    problems = []
    for mode in modes:
        if mode == "sym" and any(st["op"] == "stack" or (st["op"] == "unary" and st["args"][1] == "full_like")
                                 for st in vec["hist"]):
            continue  # flodym_array_stack / full_like allocate float arrays: numeric only
        problems += _run(vec, mode)
    return problems


def _run(vec, mode):
    U = universe_of(vec)
    Poly.seed = None
    tagp = f"[{mode}] "
    regs = {"x": U.array(vec["xd"], U.gen_values(1, vec["xd"], mode, gen_val), name="x"),
            "y": U.array(vec["yd"], U.gen_values(2, vec["yd"], mode, gen_val), name="y"),
            "z": None, "w": None}
    expected = {"x": {"dims": vec["xd"], "gen": 1}, "y": {"dims": vec["yd"], "gen": 2}, "z": None, "w": None}
    nd = None
    nd_dims = None
    problems = []

    def expected_json(e):
        if "val" in e:
            return e
        return {"dims": e["dims"], "val": [[list(t), [[[[[e["gen"], list(t)], 1]], 1]]] for _, t in U.all_labelings(e["dims"])]}

    for i, st in enumerate(vec["hist"]):
        op, args, outcome = st["op"], st["args"], st["outcome"]
        where = f"step {i + 1} {op}{args if op not in ('read', 'assign_arr', 'assign_num', 'assign_nd') else ''}: "
        ptag = OP_TAGS.get(op, "C13")
        raised = None
        try:
            if op == "arith":
                dst, o, s1, s2 = args
                a, b = regs[s1], regs[s2]
                regs[dst] = a + b if o == "add" else (a - b if o == "sub" else a * b)
            elif op == "unary":
                dst, o, s, ds = args
                x = regs[s]
                if o == "copy":
                    r = x.copy()
                elif o == "neg":
                    r = -x
                elif o == "zero_plus":
                    r = (0 if i % 2 else 0.0) + x
                elif o == "plus_zero":
                    r = x + (0 if i % 2 else 0.0)
                elif o == "one_times":
                    r = (1 if i % 2 else 1.0) * x
                elif o == "times_one":
                    r = x * (1 if i % 2 else 1.0)
                elif o == "div_one":
                    r = x / (1 if i % 2 else 1.0)
                elif o == "minus_zero":
                    r = x - (0 if i % 2 else 0.0)
                elif o == "pow_one":
                    r = x ** 1
                elif o == "sum_list":
                    r = sum([x])
                elif o == "apply_neg":
                    r = x.apply(np.negative)
                elif o == "full_like":
                    if (i + len(x.dims.letters)) % 2 == 0:
                        # the fill value as an ndarray of the template's shape, which the caller re-uses afterwards
                        fill = np.full(x.values.shape, 7.0)
                        r = FlodymArray.full_like(x, fill)
                        held = np.array(r.values, copy=True)
                        fill[...] = -1.0
                        if not np.array_equal(np.asarray(r.values, dtype=float), np.asarray(held, dtype=float)):
                            problems.append(tagp + where + "{C15} the array returned by full_like changes when the caller re-uses its fill-value "
                                                           "array afterwards (it shares memory with that argument)")
                            return problems
                    else:
                        r = FlodymArray.full_like(x, 7.0)
                elif o == "cast_to":
                    r = x.cast_to(U.dimset(ds))
                elif o == "sum_to":
                    r = x.sum_to(tuple(ds))
                elif o == "cumsum":
                    r = x.cumsum(ds[0])
                else:
                    raise ValueError(o)
                if o in ("sum_to", "cumsum"):
                    # whether a reduction's result shares memory with its source is not fixed by any
                    # statement (C15 lists copy, arithmetic, cast_to, full_like, slice reads): decouple
                    r = FlodymArray(dims=r.dims, values=np.array(r.values, copy=True), name=r.name)
                regs[dst] = r
            elif op == "inplace_neg":
                (r,) = args
                if regs[r].apply(np.negative, inplace=True) is not None:
                    raise AssertionError("in-place call returned a value")
            elif op == "read":
                dst, s, key = args
                regs[dst] = regs[s][pykey(U, key, i)]
            elif op == "assign_arr":
                t, key, s = args
                regs[t][pykey(U, key, i)] = regs[s]
            elif op == "assign_num":
                t, key = args
                # (a symbolic constant in symbolic mode: a float element would make later 0-d reads float-typed arrays)
                regs[t][pykey(U, key, i)] = Poly.const(5) if mode == "sym" else (5 if i % 2 == 0 else 5.0)
            elif op == "assign_nd":
                t, key = args
                # (a 0-d OBJECT ndarray would be stored as an element by numpy: pass the element)
                regs[t][pykey(U, key, i)] = nd[()] if (mode == "sym" and nd.ndim == 0) else nd
            elif op == "assign_whole_nd":
                t, via = args
                if via == "ellipsis":
                    regs[t][...] = nd
                else:
                    # set_values documents no copy; aliasing through it is outside the statements
                    regs[t].set_values(np.array(nd, copy=True))
            elif op == "new_nd":
                ds, k = args
                nd = U.gen_values(k, ds, mode, gen_val, layout="F" if i % 2 else "C")
                nd_dims = ds
            elif op == "mutate_nd":
                (k,) = args
                nd[...] = U.gen_values(k, nd_dims, mode, gen_val)
            elif op == "poke":
                r, k = args
                new = U.gen_values(k, list(regs[r].dims.letters), mode, gen_val)
                if mode == "sym" and new.ndim == 0:
                    # (numpy takes a 0-d OBJECT array on the right-hand side for a sequence: write the element; when the 0-d
                    # register holds a bare element there is nothing to write into - the numeric runs cover that path)
                    if isinstance(regs[r].values, np.ndarray):
                        regs[r].values[()] = new[()]
                else:
                    regs[r].values[...] = new
            elif op == "poke_dims":
                (r,) = args
                regs[r].dims.drop(regs[r].dims.letters[0], inplace=True)
                regs[r] = None
            elif op == "stack":
                from flodym.flodym_array_helper import flodym_array_stack
                dst, s1, s2, l = args
                regs[dst] = flodym_array_stack([regs[s1], regs[s2]], U.dim(l))
            else:
                return [f"MACHINERY: unknown op {op}"]
        except SymbolicBranch as e:
            problems.append(tagp + where + f"{{{ptag}}} implementation branched on a value: {e}")
            return problems
        except Exception as e:
            raised = e
        if outcome == "error" and raised is None:
            problems.append(tagp + where + f"{{{ptag},C13}} call must be refused but succeeded")
            return problems
        if outcome == "ok" and raised is not None:
            problems.append(tagp + where + f"{{{ptag}}} call raised " + _fmt(raised))
            return problems
        # specification's post-state
        for r, aj in st["writes"]:
            expected[r] = None if aj["none"] else aj
        written = {r for r, _ in st["writes"]}
        # compare every register
        for r in ("x", "y", "z", "w"):
            e = expected[r]
            a = regs[r]
            if e is None or a is None:
                if (e is None) != (a is None) and op != "poke_dims":
                    problems.append(tagp + where + f"{{C13}} register {r} defined-ness differs")
                continue
            if outcome == "error":
                tag = "{C13}"
                what = f"register {r} after a REFUSED call"
            elif r in written:
                tag = "{" + ptag + ",C04}"
                what = f"register {r} (written)"
            else:
                # an assignment that reaches an array it does not address breaks C05's "no entry outside the addressed region"
                tag = "{C15,C05}" if op.startswith("assign") else "{C15}"
                what = f"register {r} (not an output of this call)"
            dp = U.check_dims(a.dims, expected_json(e)["dims"], what)
            if dp:      # the register's dimension set itself differs (e.g. edited through an object shared with another array)
                problems += [tagp + where + tag.replace("}", ",C13}") + " " + p for p in dp]
                continue
            sh = U.check_shape(a, what)
            if sh:
                problems += [tagp + where + "{C13} " + p for p in sh]
                continue
            probs = compare_array(U, a, expected_json(e), mode, gen_val, what=what)
            problems += [tagp + where + tag + " " + p for p in probs[:3]]
        if problems:
            return problems
    return problems
