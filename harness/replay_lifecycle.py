"""Direction A for spec/mc/MC_Lifecycle.tla: every maximal history TLC enumerates is run on a real MFASystem built from the
model's definition; after every step ALL arrays of the system are compared (exact fractions) with the state TLC computed, both
checks are called in every tolerance form and must report exactly what TLC derived for that state, and the system is exported in
every form and read back."""

import hashlib
import json
import random

import numpy as np

from . import trace_lifecycle as tl

UNIVERSE = {"canon": ["t", "r", "e"], "items": {"t": [1, 2, 3], "r": [1, 2], "e": [1, 2]}}


class Scripted(tl.Program):
    def __init__(self, vec, variant):
        self.rnd = random.Random(int(hashlib.sha1(json.dumps(vec["events"][-1]["state"], sort_keys=True).encode()).hexdigest()[:8], 16) + variant)
        self.U = UNIVERSE
        self.n = 3
        self.grid = list(vec["grid"])
        self.items = {l: (list(self.grid) if l == "t" else [f"{l}{i}" for i in UNIVERSE["items"][l]]) for l in UNIVERSE["canon"]}
        self.dimobj = {l: tl.Dimension(name=tl.NAMES[l], letter=l, items=self.items[l], dtype=int if l == "t" else str) for l in UNIVERSE["canon"]}
        self.events = []
        self.tmp = None
        self.model = vec["model"]
        self.prm0 = {p["name"]: np.array([n / d for n, d in flat], dtype=float).reshape(self.shape(p["dims"]))
                     for p, flat in zip(self.model["params"], vec["init"]["prm"])}
        self.life8 = list(vec["init"]["life8"])


def same_state(got, want):
    for k in ("prm", "flw", "sin", "slev", "sout"):
        if len(got[k]) != len(want[k]):
            return f"{k}: {len(got[k])} arrays, the specification has {len(want[k])}"
        for i, (g, w) in enumerate(zip(got[k], want[k])):
            if list(g["dims"]) != list(w["dims"]):
                return f"{k}[{i + 1}]: dims {g['dims']} != {w['dims']}"
            if [list(x) for x in g["flat"]] != [list(x) for x in w["flat"]]:
                bad = [j for j, (a, b) in enumerate(zip(g["flat"], w["flat"])) if list(a) != list(b)]
                return f"{k}[{i + 1}] over {w['dims']}: entry {bad[0] + 1} is {g['flat'][bad[0]]}, the specification says {w['flat'][bad[0]]}"
    return ""


TAGS = {"prm": "{C15,C13}", "flw": "{C05,C01,C07,C15,C17}", "sin": "{C05,C15,C17}", "slev": "{C03,C09,C16,C17}", "sout": "{C03,C09,C16,C17}"}


def rows_match(rows, arr):
    """exported rows (label numbers in the order of arr['dims'], exact value) against the array's own projection"""
    shape = [max(1, 1)] * 0
    want = {}
    dims = arr["dims"]
    lens = [len(UNIVERSE["items"][l]) for l in dims]
    for pos, v in enumerate(arr["flat"]):
        idx = np.unravel_index(pos, lens) if lens else ()
        want[tuple(int(i) + 1 for i in idx)] = list(v)
    got = {}
    for r in rows:
        got[tuple(r["lab"])] = list(r["v"])
    return len(rows) == len(want) and got == want


def run_vector(vec):
    import logging
    logging.disable(logging.CRITICAL)
    problems = []
    for variant in (0, 1):
        P = Scripted(vec, variant)
        m = P.model
        tag = f"[model {vec['modelid']}, history {[e['op'] + (str(e['id']) if e['id'] else '') for e in vec['events']]}, build variant {variant}] "
        try:
            P.build()
        except Exception as e:
            problems.append(tag + f"{{C18}} building the system raised {type(e).__name__}: {str(e)[:160]}")
            continue
        try:
            for k, e in enumerate(vec["events"]):
                step = f"step {k + 1} ({e['op']}): "
                try:
                    if e["op"] == "compute":
                        P.mfa.compute()
                    elif e["op"] == "set_param":
                        p = m["params"][e["id"] - 1]
                        idx = np.unravel_index(e["pos"] - 1, P.shape(p["dims"]))
                        val = e["val"][0] / e["val"][1]
                        if variant == 0:
                            P.mfa.parameters[p["name"]].values[idx] = val
                        else:
                            P.mfa.parameters[p["name"]][{l: P.items[l][i] for l, i in zip(p["dims"], idx)}] = val
                    elif e["op"] == "set_life":
                        s = m["stocks"][e["id"] - 1]
                        lm = P.mfa.stocks[s["name"]].lifetime_model
                        if variant == 0:
                            lm.set_prms(mean=e["val"][0] / 8)
                        else:
                            buf = np.full(P.shape(s["dims"]), e["val"][0] / 8)
                            lm.set_prms(mean=buf)
                            buf[...] = 1.0
                    elif e["op"] == "edit_flow":
                        f = m["flows"][e["id"] - 1]
                        idx = np.unravel_index(e["pos"] - 1, P.shape(f["dims"]))
                        P.mfa.flows[f["name"]].values[idx] = float("nan") if e["val"][1] == 0 else e["val"][0] / e["val"][1]
                except Exception as ex:
                    problems.append(tag + step + f"{{C05,C17}} raised {type(ex).__name__}: {str(ex)[:160]}")
                    break
                got = P.state()
                diff = same_state(got, e["state"])
                if diff:
                    problems.append(tag + step + TAGS[diff.split("[")[0].split(":")[0]] + " " + diff)
                    break
                # ---- checks in this state
                P.events = []
                for form, want in (("half", e["failing_half"]), ("zero", e["failing_strict"]), ("zero_f", e["failing_strict"]),
                                   ("default", None if e["anynan"] else e["failing_strict"])):
                    if want is None:
                        continue
                    for raise_error in (True, False):
                        raised, msgs = P.logged(lambda: P.mfa.check_mass_balance(
                            tolerance={"half": 0.5, "default": None, "zero": 0, "zero_f": 0.0}[form], raise_error=raise_error))
                        text = raised if raised is not None else " ".join(msgs)
                        failing = set(tl.names_in(text, m["procs"]))
                        failed = raised is not None or bool(msgs)
                        if failed and not failing:
                            failing = set(want)         # the report names no process: only the verdict counts
                        if raise_error and msgs and raised is None:
                            problems.append(tag + step + f"{{C02}} check_mass_balance(tolerance={form}, raise_error=True) warned instead of raising")
                        if failed != bool(want) or (failed and failing != set(want)):
                            problems.append(tag + step + f"{{C02}} check_mass_balance(tolerance={form}, raise_error={raise_error}) reported "
                                                         f"{sorted(failing) if failed else 'success'}, the specification says {sorted(want) or 'success'}")
                if not e["anynan"]:
                    for exc, want in (([], e["flagged"]), ([m["flows"][0]["name"]], e["flagged_but_first"])):
                        raised, msgs = P.logged(lambda: P.mfa.check_flows(exceptions=list(exc), raise_error=False))
                        flagged = set()
                        for msg in msgs:
                            flagged |= set(tl.names_in(msg, [f_["name"] for f_ in m["flows"]]))
                        if msgs and not flagged and want:
                            flagged = set(want)         # warnings that name no flow: only the verdict counts
                        if flagged != set(want):
                            problems.append(tag + step + f"{{C02}} check_flows(exceptions={exc}) flagged {sorted(flagged)}, the specification says {sorted(want)}")
                # ---- exports of this state, projected to rows and compared with the system's own arrays (checked above)
                for _ in range(3):
                    P.events = []
                    P.do_export()
                    ev = P.events[-1]
                    if ev["outcome"] != "ok":
                        problems.append(tag + step + f"{{C19}} export({ev['kind']}) {ev['outcome']}")
                        continue
                    for f, want in zip(m["flows"], e["state"]["flw"]):
                        hit = [x for x in ev["flows"] if x["name"] == f["name"]]
                        if len(hit) != 1 or list(hit[0]["dims"]) != list(f["dims"]) or not rows_match(hit[0]["rows"], want) \
                                or hit[0]["from"] != m["procs"][f["from"] - 1] or hit[0]["to"] != m["procs"][f["to"] - 1]:
                            problems.append(tag + step + f"{{C19}} export({ev['kind']}): flow {f['name']!r} is not exported with exactly its values "
                                                         f"under its labels")
                    for s, wl, wi, wo in zip(m["stocks"], e["state"]["slev"], e["state"]["sin"], e["state"]["sout"]):
                        hit = [x for x in ev["stocks"] if x["name"] == s["name"]]
                        ok = len(hit) == 1 and list(hit[0]["dims"]) == list(s["dims"]) and rows_match(hit[0]["rows"], wl) and \
                            hit[0]["proc"] == (m["procs"][s["proc"] - 1] if s["proc"] else "")
                        if ok and ev["inout"]:
                            ok = rows_match(hit[0]["inrows"], wi) and rows_match(hit[0]["outrows"], wo)
                        if not ok:
                            problems.append(tag + step + f"{{C19}} export({ev['kind']}): stock {s['name']!r} is not exported with exactly its values "
                                                         f"under its labels")
                    if same_state(P.state(), e["state"]):
                        problems.append(tag + step + f"{{C19,C15}} export({ev['kind']}) altered the system")
                if same_state(P.state(), e["state"]):
                    problems.append(tag + step + "{C02,C15} the checks altered the system")
                if len(problems) >= 4:
                    break
        finally:
            if P.tmp:
                tl.shutil.rmtree(P.tmp, ignore_errors=True)
    return problems[:5]
