"""Direction B: random programs on the real library, recorded and validated by TLC (spec/trace/Trace_Workspace.tla).

The recorder wraps each public call from the harness side (flodym is a sequential library: the linearisation point
is the call's return): it logs the operation, its arguments, whether it raised, and the projection of EVERY
register afterwards.  Nothing here computes an expected value."""

import json
import os
import random
import re
import tempfile

import numpy as np

from . import tlcrun
from .core import Machinery
from .universe import Universe, FlodymArray

UNIVERSES = [
    {"canon": ["a", "b", "c", "d", "e"], "lens": [2, 3, 2, 1, 2], "subs": {"p": ("a", [2, 1]), "q": ("b", [3, 1])}},
    {"canon": ["a", "b", "c", "d", "e"], "lens": [3, 2, 2, 2, 1], "subs": {"p": ("a", [3, 1, 2]), "q": ("c", [2])}},
    {"canon": ["a", "b", "c", "d"], "lens": [2, 2, 2, 4], "subs": {"p": ("d", [4, 2]), "q": ("a", [2, 1])}},
    # six dimensions, one of them with seven items
    {"canon": ["a", "b", "c", "d", "e", "f"], "lens": [2, 2, 2, 2, 2, 7], "subs": {"p": ("f", [6, 2, 7, 1]), "q": ("a", [2, 1])}},
]
REGS = ["x", "y", "z", "w"]
MAX_SIZE = 64
MAX_ABS = 2000


def size_of(U, ds):
    n = 1
    for l in ds:
        n *= len(U.labels(l))
    return n


def log_array(a):
    if a is None:
        return {"none": True, "dims": [], "flat": []}
    flat = [float(v) for v in np.asarray(a.values).ravel(order="C")]
    assert all(v == int(v) for v in flat), "non-integral value in a trace"
    return {"none": False, "dims": list(a.dims.letters), "flat": [int(v) for v in flat]}


class Program:
    def __init__(self, uid, seed):
        self.rnd = random.Random(seed)
        self.ucfg = UNIVERSES[uid]
        self.U = Universe(self.ucfg["canon"], self.ucfg["lens"], self.ucfg["subs"])
        self.regs = {r: None for r in REGS}
        self.events = []

    # ---- helpers
    def rand_dims(self, kmax=6, letters=None):
        letters = letters or self.ucfg["canon"]
        while True:
            k = self.rnd.randint(0, kmax)
            ds = self.rnd.sample(letters, min(k, len(letters)))
            if size_of(self.U, ds) <= 32:
                return ds

    def rand_values(self, ds):
        shape = tuple(len(self.U.labels(l)) for l in ds)
        a = np.array([self.rnd.randint(-3, 5) for _ in range(int(np.prod(shape)) if shape else 1)], dtype=float).reshape(shape)
        return np.asfortranarray(a) if (a.ndim >= 2 and self.rnd.random() < 0.4) else a

    def defined(self):
        return [r for r in REGS if self.regs[r] is not None]

    def has_sub(self, r):
        return any(l in self.ucfg["subs"] for l in self.regs[r].dims.letters)

    def small(self, r):
        return float(np.max(np.abs(self.regs[r].values))) <= MAX_ABS if self.regs[r].values.size else True

    def record(self, ev, fn):
        ev = {"op": "", "a": "", "b": "", "dst": "", "dims": [], "key": [], "num": 0, **ev}
        try:
            fn()
            ev["outcome"] = "ok"
        except Exception:
            ev["outcome"] = "error"
        finally:
            ev["post"] = {r: log_array(self.regs[r]) for r in REGS}
            self.events.append(ev)

    def rand_key(self, r, writes):
        arr = self.regs[r]
        key, pykey = [], {}
        for l in arr.dims.letters:
            if l in self.ucfg["subs"] or self.rnd.random() < 0.5:
                continue
            kind = self.rnd.choice(["one", "one", "sub"] + (["list"] if writes else []))
            subs = [s for s, (root, _) in self.ucfg["subs"].items() if root == l]
            if kind == "sub" and subs and not any(x in arr.dims.letters for x in subs):
                key.append({"letter": l, "kind": "sub", "item": 0, "dim": subs[0], "items": []})
                pykey[l] = self.U.dim(subs[0])
            elif kind == "list":
                labs = self.rnd.sample(self.U.labels(l), self.rnd.randint(1, len(self.U.labels(l))))
                key.append({"letter": l, "kind": "list", "item": 0, "dim": "", "items": labs})
                pykey[l] = [self.U.item(l, i) for i in labs]
            else:
                lab = self.rnd.choice(self.U.labels(l) + ([0] if self.rnd.random() < 0.08 else []))
                key.append({"letter": l, "kind": "one", "item": lab, "dim": "", "items": []})
                pykey[l] = "no_such_item" if lab == 0 else self.U.item(l, lab)
        return key, (pykey if pykey else Ellipsis)

    # ---- one random step
    def step(self):
        rnd, regs, U = self.rnd, self.regs, self.U
        ops = ["add", "sub", "mul", "neg", "copy", "sum_to", "sum_over", "cast_to", "cumsum", "read", "assign_num", "assign_arr", "poke"]
        op = rnd.choice(ops)
        d = self.defined()
        a = rnd.choice(d)
        dst = rnd.choice(["z", "w"] + (d if rnd.random() < 0.2 else []))
        if op in ("add", "sub", "mul"):
            b = rnd.choice(d)
            if self.has_sub(a) or self.has_sub(b) or not (self.small(a) and self.small(b)):
                return
            if op == "mul" and size_of(U, list(dict.fromkeys(list(regs[a].dims.letters) + list(regs[b].dims.letters)))) > MAX_SIZE:
                return
            f = {"add": lambda: regs[a] + regs[b], "sub": lambda: regs[a] - regs[b], "mul": lambda: regs[a] * regs[b]}[op]
            self.record({"op": op, "a": a, "b": b, "dst": dst}, lambda: regs.__setitem__(dst, f()))
        elif op in ("neg", "copy"):
            self.record({"op": op, "a": a, "dst": dst}, lambda: regs.__setitem__(dst, -regs[a] if op == "neg" else regs[a].copy()))
        elif op in ("sum_to", "sum_over"):
            have = list(regs[a].dims.letters)
            ds = rnd.sample(have, rnd.randint(0, len(have)))
            if rnd.random() < 0.1:
                extra = [l for l in self.ucfg["canon"] if l not in have]
                if extra:
                    ds.append(rnd.choice(extra))      # a dimension the array does not have: must be refused
            form = rnd.choice(["letter", "name", "obj"])
            names = tuple(l if form == "letter" else (U.name(l) if form == "name" else U.dim(l)) for l in ds)
            # whether a reduction's result shares memory with its source is not fixed by any statement: decouple
            def dec(r):
                return FlodymArray(dims=r.dims, values=np.array(r.values, copy=True), name=r.name)
            if op == "sum_to":
                self.record({"op": op, "a": a, "dst": dst, "dims": ds}, lambda: regs.__setitem__(dst, dec(regs[a].sum_to(names))))
            else:
                self.record({"op": op, "a": a, "dst": dst, "dims": ds}, lambda: regs.__setitem__(dst, dec(regs[a].sum_over(names))))
        elif op == "cast_to":
            if self.has_sub(a):
                return
            have = list(regs[a].dims.letters)
            others = [l for l in self.ucfg["canon"] if l not in have]
            target = have + rnd.sample(others, rnd.randint(0, min(2, len(others))))
            rnd.shuffle(target)
            if rnd.random() < 0.1 and have:
                target.remove(rnd.choice(have))        # lacks a source dimension: must be refused
            if size_of(U, target) > MAX_SIZE:
                return
            self.record({"op": op, "a": a, "dst": dst, "dims": target}, lambda: regs.__setitem__(dst, regs[a].cast_to(U.dimset(target))))
        elif op == "cumsum":
            have = list(regs[a].dims.letters)
            if not have or not self.small(a):
                return
            l = rnd.choice(have)
            if rnd.random() < 0.12:
                missing = [m for m in self.ucfg["canon"] if m not in have]
                if missing:
                    l = rnd.choice(missing)         # a dimension the array does not have: must be refused, nothing may change
            if rnd.random() < 0.4:
                # in place: the array itself becomes the result (or stays exactly as it was when the call is refused)
                self.record({"op": "cumsum", "a": a, "dst": a, "dims": [l]}, lambda: regs[a].cumsum(l, inplace=True))
            else:
                self.record({"op": op, "a": a, "dst": dst, "dims": [l]}, lambda: regs.__setitem__(dst, regs[a].cumsum(l)))
        elif op == "read":
            key, pykey = self.rand_key(a, writes=False)
            self.record({"op": op, "a": a, "dst": dst, "key": key}, lambda: regs.__setitem__(dst, regs[a][pykey]))
        elif op == "assign_num":
            key, pykey = self.rand_key(a, writes=True)
            num = rnd.randint(-4, 9)
            self.record({"op": op, "dst": a, "key": key, "num": num}, lambda: regs[a].__setitem__(pykey, float(num)))
        elif op == "assign_arr":
            t = a
            src = rnd.choice(d)
            if src == t or not self.small(src):
                return
            key, pykey = self.rand_key(t, writes=False)
            letters = set(regs[t].dims.letters) | set(regs[src].dims.letters) | {k["dim"] for k in key if k["kind"] == "sub"}
            roots = [U.root(l) for l in letters]
            if len(roots) != len(set(roots)):
                return
            self.record({"op": op, "dst": t, "a": src, "key": key}, lambda: regs[t].__setitem__(pykey, regs[src]))
        elif op == "poke":
            vals = self.rand_values(list(regs[a].dims.letters))
            self.record({"op": op, "dst": a}, lambda: regs[a].values.__setitem__(Ellipsis, vals))

    def run(self, nsteps):
        for r in ("x", "y"):
            ds = self.rand_dims()
            self.regs[r] = self.U.array(ds, self.rand_values(ds), name=r)
        init = {r: log_array(self.regs[r]) for r in REGS}
        guard = 0
        while len(self.events) < nsteps and guard < nsteps * 20:
            guard += 1
            self.step()
        return {"init": init, "events": self.events}


def universe_json(ucfg):
    items = {l: list(range(1, n + 1)) for l, n in zip(ucfg["canon"], ucfg["lens"])}
    roots = {l: l for l in ucfg["canon"]}
    for s, (root, labs) in ucfg["subs"].items():
        items[s] = list(labs)
        roots[s] = root
    return {"canon": ucfg["canon"], "items": items, "roots": roots}


def record_batch(uid, ntraces, nsteps, seed):
    traces = [Program(uid, seed * 100003 + uid * 1009 + k).run(nsteps) for k in range(ntraces)]
    return {"universe": universe_json(UNIVERSES[uid]), "traces": traces}


_ACC = re.compile(r'^<<"ACCEPTED", (\d+)>>')
_REJ = re.compile(r'^<<"REJECTED", (\d+), (\d+), "(.*)">>')


def validate_batch(batch, workers=4):
    """Returns (accepted ids, {id: (position, clause)}, TLC result)."""
    tmp = tlcrun.scratch_dir()
    try:
        path = os.path.join(tmp, "traces.json")
        with open(path, "w") as f:
            json.dump(batch, f)
        lines = []
        cfg = "SPECIFICATION TraceSpec\nINVARIANT Verdict\nINVARIANT ShapeInv\nCHECK_DEADLOCK FALSE\n"
        res = tlcrun.run_tlc("Trace_Workspace.tla", cfg, workers=workers, env={"TRACE_FILE": path}, line_sink=lines.append)
    finally:
        import shutil
        shutil.rmtree(tmp, ignore_errors=True)
    if res.violation:
        raise Machinery(f"trace validation: TLC reports {res.violation}\n{res.tail[-1500:]}")
    acc, rej = set(), {}
    for ln in lines:
        m = _ACC.match(ln)
        if m:
            acc.add(int(m.group(1)))
        m = _REJ.match(ln)
        if m:
            rej[int(m.group(1))] = (int(m.group(2)), m.group(3))
    n = len(batch["traces"])
    if acc | set(rej) != set(range(1, n + 1)):
        raise Machinery(f"trace validation gave no verdict for traces {sorted(set(range(1, n + 1)) - acc - set(rej))[:10]}")
    return acc, rej, res
