"""Entry point: ./check <ID> [quick|thorough] [--replay <path>]"""

import json
import os
import sys
import traceback


def registry():
    from . import checks_arrays
    reg = {}
    for mod in (checks_arrays,):
        reg.update(mod.CHECKS)
    for name in ("checks_index", "checks_workspace", "checks_dimsets", "checks_stocks", "checks_stockobject", "checks_system", "checks_tables", "checks_c04",
                 "checks_export"):
        try:
            mod = __import__(f"harness.{name}", fromlist=["CHECKS"])
        except ModuleNotFoundError as e:
            if e.name != f"harness.{name}":
                raise
            continue
        reg.update(mod.CHECKS)
    return reg


def main(argv):
    if not argv:
        print(__doc__)
        return 2
    prop = argv[0]
    tier = os.environ.get("VERIF_TIER", "quick")
    replay = None
    rest = argv[1:]
    while rest:
        a = rest.pop(0)
        if a in ("quick", "thorough"):
            tier = a
        elif a == "--replay":
            replay = rest.pop(0)
    seed = int(os.environ.get("VERIF_SEED", "0") or 0)
    from .core import Machinery
    try:
        reg = registry()
        if replay:
            from .replay import replay_file
            return replay_file(replay)
        if prop not in reg:
            print(f"unknown property {prop}; known: {sorted(reg)}")
            return 2
        return reg[prop](tier, seed)
    except Machinery as e:
        print(f"MACHINERY-FAILURE property={prop}: {e}")
        return 2
    except Exception:
        print(f"MACHINERY-FAILURE property={prop}:\n{traceback.format_exc()}")
        return 2


if __name__ == "__main__":
    sys.exit(main(sys.argv[1:]))
