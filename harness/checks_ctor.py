"""Constructor / validator vectors (C13) and input snapshots around object construction (C15)."""

from . import core
from .core import Model
from . import replay_ctor


def sig_ctor(vec, probs):
    c = vec["cfg"]
    return {"engine": "ctor", "op": c["op"], "cls": c["cls"], "via": c["via"], "expected": vec["res"]}


def run_ctor(out, prop, tier):
    m = Model("MC_Ctor.tla", {"Emit": True, "MaxDims": 3 if tier == "quick" else 4},
              invariants=["Prop_C13", "EmitInv"], workers=2, label="MC_Ctor")
    vectors = []
    for mm, res in core.run_models([m], seed=out.seed):
        out.add_tlc(mm, res)
        vectors += res.vectors
    bad = core.replay_parallel(replay_ctor.run_vector, vectors)
    out.replayed += len(vectors)
    out.samples += [core.sample_of(v) for v in vectors[:: max(1, len(vectors) // 2)][:2]]
    out.judge(core.for_property(bad, prop), "ctor", sig_ctor)
    kinds = out.extra.setdefault("ctor_vectors", {})
    for v in vectors:
        k = f"{v['cfg']['op']}/{v['res']}"
        kinds[k] = kinds.get(k, 0) + 1
    return vectors


def run_inputs(out, prop, tier):
    """C15 for object construction (stocks, lifetime models, systems, exports): the stock / system / export
    engines snapshot every input around every call and tag changes {C15}; they are run from check_C15."""
    return []
