"""Constructor / validator vectors (C13) and input snapshots around object construction (C15).  (filled in below)"""


def run_ctor(out, prop, tier):
    return []


def run_inputs(out, prop, tier):
    return []
