"""Constructor / validator vectors (C13) and input snapshots around object construction (C15)."""

from . import core
from .core import Model
from . import replay_ctor


def sig_ctor(vec, probs):
    c = vec["cfg"]
    return {"engine": "ctor", "op": c["op"], "cls": c["cls"], "via": c["via"], "expected": vec["res"]}


def run_ctor(out, prop, tier):
    m = Model("MC_Ctor.tla", {"Emit": True, "MaxDims": 3 if tier == "quick" else 4},
              invariants=["Prop_C13", "EmitInv"], workers=2, label="MC_Ctor")
    vectors = []
    for mm, res in core.run_models([m], seed=out.seed):
        out.add_tlc(mm, res)
        vectors += res.vectors
    bad = core.replay_parallel(replay_ctor.run_vector, vectors)
    out.replayed += len(vectors)
    out.samples += [core.sample_of(v) for v in vectors[:: max(1, len(vectors) // 2)][:2]]
    out.judge(core.for_property(bad, prop), "ctor", sig_ctor)
    kinds = out.extra.setdefault("ctor_vectors", {})
    for v in vectors:
        k = f"{v['cfg']['op']}/{v['res']}"
        kinds[k] = kinds.get(k, 0) + 1
    return vectors


def run_inputs(out, prop, tier):
    """C15 for DataFrame import / export, lifetime models and stocks, systems and exports: the replayers of those
    engines snapshot every input (DataFrames, parameter arrays, drivers, whole systems) around every call and tag
    changes {C15}; here small models of those engines are run and only the {C15}-tagged problems are judged."""
    from .checks_tables import tab_model, sig_tab
    from .checks_stocks import stock_model, config_list, sig_stocks
    from .checks_export import exp_model, sig_exp
    from . import replay_tables, replay_stocks, replay_export
    jobs = [
        ([tab_model("import", 2, 0, set(range(1, 11))), tab_model("export", 2, 0, {1, 2, 3, 6})], replay_tables.run_vector, "tables", sig_tab),
        ([stock_model(*c) for c in config_list("quick", out.seed)[:6]], replay_stocks.run_vector, "stocks", sig_stocks),
        ([exp_model("export", {2}), exp_model("sankey", {1})], replay_export.run_vector, "export", sig_exp),
    ]
    for models, fn, engine, sig in jobs:
        vectors = []
        for m, res in core.run_models(models, seed=out.seed, parallel=6):
            out.add_tlc(m, res)
            vectors += res.vectors
        if engine == "export":
            vectors = [v for i, v in enumerate(vectors) if v["op"] == "export" or i % 40 == 0]
        bad = core.replay_parallel(fn, vectors)
        out.replayed += len(vectors)
        out.extra.setdefault("input_snapshot_vectors", {})[engine] = len(vectors)
        out.judge(core.for_property(_only_tagged(bad), prop), engine, sig)
    return []


def _only_tagged(bad):
    """keep only problems that carry an explicit {..} tag (untagged ones belong to the engine's own property)"""
    out = []
    for vec, probs in bad:
        keep = [p for p in probs if "{C" in p or p.startswith("MACHINERY")]
        if keep:
            out.append((vec, keep))
    return out
