"""Concretisation of the abstract universe (spec/Universe.tla) as flodym objects, and the
projection of flodym objects back to abstract values (label-keyed, never positional)."""

import os
import sys

import numpy as np

REPO = os.environ.get("FLODYM_REPO", "/repo")
if REPO not in sys.path:
    sys.path.insert(0, REPO)

import flodym  # noqa: E402
from flodym import Dimension, DimensionSet, FlodymArray  # noqa: E402

assert os.path.abspath(flodym.__file__).startswith(os.path.abspath(REPO) + os.sep), (
    f"flodym imported from {flodym.__file__}, expected {REPO}")

from .poly import Poly  # noqa: E402

ALL_CANON = ["a", "b", "c", "d", "e", "f"]   # (MC_Index names its sixth letter "k"; its vectors carry their own universe)
PATTERNS = {
    "P222": [2, 2, 2], "P231": [2, 3, 1], "P122": [1, 2, 2], "P322": [3, 2, 2], "P22": [2, 2],
    "P2222": [2, 2, 2, 2], "P2132": [2, 1, 3, 2], "P333": [3, 3, 3], "P323": [3, 2, 3],
    "P233": [2, 3, 3], "P3": [3], "P32": [3, 2], "P23": [2, 3], "P33": [3, 3], "P52": [5, 2], "P25": [2, 5],
    "P22222": [2, 2, 2, 2, 2], "P23232": [2, 3, 2, 3, 2], "P72": [7, 2], "P27": [2, 7], "P272": [2, 7, 2],
    "P222222": [2, 2, 2, 2, 2, 2],
}


class Universe:
    """letters -> Dimension objects.  Item label i of base letter l is the string f"{l}{i}"
    (unique across dimensions so that tuple / single-item keys are unambiguous), unless
    `item_of` overrides it."""

    def __init__(self, canon, lens, subs=None, item_of=None, dtype_of=None, name_shift=0, reverse_items=False):
        self.name_shift = name_shift      # dimension names are rotated against the letters: names are not tied to letters
        self.reverse_items = reverse_items  # base dimensions list their items in reversed label order (same item SET, other order)
        self.canon = list(canon)
        self.lens = dict(zip(canon, lens))
        self.subs = dict(subs or {})  # letter -> (root, [labels])
        self.item_of = item_of or (lambda l, i: f"{l}{i}")
        self.dtype_of = dtype_of or (lambda l: None)
        self._dims = {}

    @classmethod
    def from_pattern(cls, pattern, subs=None, **kw):
        lens = PATTERNS[pattern]
        return cls(ALL_CANON[:len(lens)], lens, subs, **kw)

    def root(self, letter):
        return self.subs[letter][0] if letter in self.subs else letter

    def labels(self, letter):
        if letter in self.subs:
            return list(self.subs[letter][1])
        labs = list(range(1, self.lens[letter] + 1))
        return labs[::-1] if self.reverse_items else labs

    def name(self, letter):
        if letter in self.subs:
            return "sub_" + letter
        i = self.canon.index(letter)
        return "dim_" + self.canon[(i + self.name_shift) % len(self.canon)]

    def item(self, letter, label):
        return self.item_of(self.root(letter), label)

    def dim(self, letter):
        if letter not in self._dims:
            self._dims[letter] = Dimension(
                name=self.name(letter), letter=letter,
                items=[self.item(letter, i) for i in self.labels(letter)],
                dtype=self.dtype_of(self.root(letter)))
        return self._dims[letter]

    def dimset(self, letters):
        return DimensionSet(dim_list=[self.dim(l) for l in letters])

    def zero_tuple(self):
        return tuple(0 for _ in self.canon)

    def labtuple(self, letters, labels):
        t = [0] * len(self.canon)
        for l, i in zip(letters, labels):
            t[self.canon.index(self.root(l))] = i
        return tuple(t)

    def all_labelings(self, letters):
        """yield (index tuple, canonical label tuple) in row-major order of `letters`."""
        shape = [len(self.labels(l)) for l in letters]
        for idx in np.ndindex(*shape):
            labs = [self.labels(l)[i] for l, i in zip(letters, idx)]
            yield idx, self.labtuple(letters, labs)

    # ---- building arrays
    def gen_values(self, k, letters, mode, val=None, layout="C"):
        """values of input array number k over `letters`.
        mode "sym": object array of generators; "num": float64 array of val(generator)."""
        shape = tuple(len(self.labels(l)) for l in letters)
        if mode == "sym":
            a = np.empty(shape, dtype=object)
            for idx, t in self.all_labelings(letters):
                a[idx] = Poly.gen(k, t)
        else:
            a = np.zeros(shape, dtype=np.float64)
            for idx, t in self.all_labelings(letters):
                a[idx] = float(val((k, t)))
        if layout == "F" and a.ndim >= 2:
            a = np.asfortranarray(a)
        return a

    def values_from_spec(self, letters, entries, conv, dtype=object, layout="C"):
        """entries: iterable of [label tuple, value json]; conv: json -> python value."""
        shape = tuple(len(self.labels(l)) for l in letters)
        a = np.empty(shape, dtype=dtype)
        lookup = {tuple(t): v for t, v in entries}
        for idx, t in self.all_labelings(letters):
            a[idx] = conv(lookup[t])
        if layout == "F" and a.ndim >= 2:
            a = np.asfortranarray(a)
        return a

    def array(self, letters, values, cls=FlodymArray, **kw):
        return cls(dims=self.dimset(letters), values=values, **kw)

    # ---- projection / comparison
    def check_dims(self, dims, letters, what="result"):
        """dims: a flodym DimensionSet; letters: expected sequence of letters.  Returns list of problems."""
        probs = []
        if tuple(dims.letters) != tuple(letters):
            probs.append(f"{what}: dims {tuple(dims.letters)} != expected {tuple(letters)}")
            return probs
        if len(set(dims.letters)) != len(dims.letters):
            probs.append(f"{what}: duplicate letters {dims.letters}")
        for d, l in zip(dims, letters):
            exp = self.dim(l)
            if d.name != exp.name or list(d.items) != list(exp.items):
                probs.append(f"{what}: dimension {l!r} is ({d.name}, {d.items}), expected ({exp.name}, {exp.items})")
        return probs

    def check_shape(self, arr, what="array"):
        v = arr.values
        if len(arr.dims.letters) == 0 and not isinstance(v, np.ndarray):
            return []      # a 0-dimensional array may hold a numpy scalar (shape ()) after an in-place ufunc
        if not isinstance(v, np.ndarray):
            return [f"{what}: values is {type(v).__name__}, not ndarray"]
        if tuple(v.shape) != tuple(d.len for d in arr.dims):
            return [f"{what}: values.shape {v.shape} != dims shape {tuple(d.len for d in arr.dims)}"]
        return []

    def entry(self, arr, t):
        """entry of flodym array `arr` carrying canonical label tuple t (looked up by LABEL)."""
        idx = []
        for d in arr.dims:
            lab = t[self.canon.index(self.root(d.letter))]
            idx.append(d.items.index(self.item(d.letter, lab)))
        if not idx and not isinstance(arr.values, np.ndarray):
            return arr.values
        return arr.values[tuple(idx)]
