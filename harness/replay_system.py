"""Direction A for spec/mc/MC_System.tla (C18): definitions -> systems through from_data_reader / from_csv /
from_excel / manual assembly with naming functions; dimension files in every orientation."""

import os
import shutil
import tempfile

import numpy as np
import pandas as pd

from .universe import flodym, Dimension, DimensionSet
from flodym import flow_naming

ITEMS = {"t": [2000, 2010], "r": ["r1", "r2"], "e": ["e1", "e2"]}
NAMES = {"t": "Time", "r": "Region", "e": "Element"}
DTYPES = {"t": int, "r": str, "e": str}
DIMOBJ = {l: Dimension(name=NAMES[l], letter=l, items=ITEMS[l], dtype=DTYPES[l]) for l in ITEMS}
LM = {"FixedLifetime": flodym.FixedLifetime, "WeibullLifetime": flodym.WeibullLifetime}


class UserStockDrivenDSM(flodym.StockDrivenDSM):
    """a user-defined stock class that inherits every field"""

    def describe(self):
        return f"user stock {self.name}"


def stock_class(name):
    return UserStockDrivenDSM if name == "UserStockDrivenDSM" else getattr(flodym, name)


def param_values(name, dims):
    shape = tuple(len(ITEMS[l]) for l in dims)
    base = {"alpha": 1.0, "beta": 100.0, "gamma": 7.0}.get(name, 3.0)
    return base + np.arange(int(np.prod(shape)) if shape else 1, dtype=float).reshape(shape) * 0.5


class Reader(flodym.DataReader):
    def read_dimension(self, definition):
        return DIMOBJ[definition.letter]

    def read_parameter_values(self, parameter_name, dims):
        return flodym.Parameter(dims=dims, name=parameter_name, values=param_values(parameter_name, list(dims.letters)))


def scratch(prefix):
    """a scratch directory with the SAME path for every vector this process replays (removed by the caller after each vector):
    files of different content are read from one path again and again, as in a scenario loop that regenerates its input files"""
    path = os.path.join(os.environ.get("VERIF_SCRATCH") or tempfile.gettempdir(), f"{prefix}{os.getpid()}")
    shutil.rmtree(path, ignore_errors=True)
    os.makedirs(path)
    return path


def render_name(n):
    kind = n[0]
    if kind == "given":
        return "" if n[1] == "<empty>" else n[1]
    if kind == "arrow":
        return f"{n[1]} => {n[2]}"
    if kind == "no_spaces":
        return f"{n[1].replace(' ', '_')}_to_{n[2].replace(' ', '_')}"
    return f"F{n[1]}_{n[2]}"


def override_of(f):
    return "" if f["override"] == "<empty>" else (f["override"] or None)


def make_definition(d, spelling="long"):
    """spelling "alias": the documented alternative field names (from_process / to_process, dim_letter, process_name);
    "dict": the definitions handed to MFADefinition as plain dictionaries with the alternative names"""
    if spelling == "long":
        dims = [flodym.DimensionDefinition(name=NAMES[l], letter=l, dtype=DTYPES[l]) for l in ("t", "r", "e")]
        flows = [flodym.FlowDefinition(from_process_name=f["from"], to_process_name=f["to"], dim_letters=tuple(f["dims"]),
                                       name_override=override_of(f)) for f in d["flows"]]
    elif spelling == "alias":
        dims = [flodym.DimensionDefinition(name=NAMES[l], dim_letter=l, dtype=DTYPES[l]) for l in ("t", "r", "e")]
        flows = [flodym.FlowDefinition(from_process=f["from"], to_process=f["to"], dim_letters=tuple(f["dims"]),
                                       name_override=override_of(f)) for f in d["flows"]]
    else:
        dims = [dict(name=NAMES[l], dim_letter=l, dtype=DTYPES[l]) for l in ("t", "r", "e")]
        flows = [dict(from_process=f["from"], to_process=f["to"], dim_letters=tuple(f["dims"]),
                      name_override=override_of(f)) for f in d["flows"]]
    stocks = []
    for s in d["stocks"]:
        kw = dict(name=s["name"], dim_letters=tuple(s["dims"]), subclass=stock_class(s["cls"]), solver=s["solver"],
                  time_letter=s["tl"])
        if s["proc"]:
            kw["process" if spelling == "long" else "process_name"] = s["proc"]
        if s["lm"]:
            kw["lifetime_model_class"] = LM[s["lm"]]
        stocks.append(flodym.StockDefinition(**kw))
    params = [flodym.ParameterDefinition(name=p["name"], dim_letters=tuple(p["dims"])) for p in d["params"]]
    return flodym.MFADefinition(dimensions=dims, processes=list(d["procs"]), flows=flows, stocks=stocks, parameters=params)


def write_files(d, tmp, excel):
    dim_files, prm_files = {}, {}
    ext = "xlsx" if excel else "csv"
    for l in ("t", "r", "e"):
        path = os.path.join(tmp, f"dim_{l}.{ext}")
        df = pd.DataFrame(ITEMS[l])
        if excel:
            df.to_excel(path, header=False, index=False)
        else:
            df.to_csv(path, header=False, index=False)
        dim_files[NAMES[l]] = path
    for p in d["params"]:
        if not all(l in ITEMS for l in p["dims"]):
            continue
        arr = flodym.FlodymArray(dims=DimensionSet(dim_list=[DIMOBJ[l] for l in p["dims"]]), values=param_values(p["name"], p["dims"]))
        df = arr.to_df(index=False)
        path = os.path.join(tmp, f"prm_{p['name']}.{ext}")
        if excel:
            df.to_excel(path, index=False)
        else:
            df.to_csv(path, index=False)
        prm_files[p["name"]] = path
    return dim_files, prm_files


def build(d, route, tmp):
    definition = make_definition(d, "alias" if route == "manual_alias" else ("dict" if route == "reader_dict" else "long"))
    if route in ("reader", "reader_dict"):
        return flodym.MFASystem.from_data_reader(definition, Reader())
    if route == "csv":
        df, pf = write_files(d, tmp, excel=False)
        return flodym.MFASystem.from_csv(definition, dimension_files=df, parameter_files=pf)
    if route == "csv_kwargs":
        # the readers' documented pass-through of pandas keywords (here harmless ones): same system as from_csv
        df, pf = write_files(d, tmp, excel=False)
        reader = flodym.CompoundDataReader(dimension_reader=flodym.CSVDimensionReader(dimension_files=df, encoding="utf-8"),
                                           parameter_reader=flodym.CSVParameterReader(parameter_files=pf))
        return flodym.MFASystem.from_data_reader(definition, reader)
    if route == "excel":
        df, pf = write_files(d, tmp, excel=True)
        return flodym.MFASystem.from_excel(definition, dimension_files=df, parameter_files=pf,
                                           dimension_sheets={n: "Sheet1" for n in df}, parameter_sheets={n: "Sheet1" for n in pf})
    if route == "excel_first_sheet":
        df, pf = write_files(d, tmp, excel=True)
        return flodym.MFASystem.from_excel(definition, dimension_files=df, parameter_files=pf)
    # manual assembly with an explicit naming function
    naming = {"arrow": flow_naming.process_names_with_arrow, "no_spaces": flow_naming.process_names_no_spaces,
              "ids": flow_naming.process_ids}[d["naming"]]
    dims = DimensionSet(dim_list=[DIMOBJ[l] for l in ("t", "r", "e")])
    reader = Reader()
    processes = flodym.make_processes(definition.processes)
    flows = flodym.make_empty_flows(processes=processes, flow_definitions=definition.flows, dims=dims, naming=naming)
    stocks = flodym.make_empty_stocks(processes=processes, stock_definitions=definition.stocks, dims=dims)
    params = reader.read_parameters(definition.parameters, dims=dims)
    return flodym.MFASystem(dims=dims, parameters=params, processes=processes, flows=flows, stocks=stocks)


def compare(mfa, d, exp, tag):
    probs = []
    got_procs = [(p.name, p.id) for p in mfa.processes.values()]
    if got_procs != [tuple(x) for x in exp["procs"]] or list(mfa.processes.keys()) != [x[0] for x in exp["procs"]]:
        probs.append(tag + f"processes {got_procs} != {exp['procs']}")
    if list(mfa.dims.letters) != ["t", "r", "e"] or any(list(mfa.dims[l].items) != ITEMS[l] for l in ITEMS):
        probs.append(tag + "system dimension set differs from the defined dimensions")
    want_names = [render_name(f["name"]) for f in exp["flows"]]
    if sorted(mfa.flows.keys()) != sorted(want_names):
        probs.append(tag + f"flow names {sorted(mfa.flows.keys())} != {sorted(want_names)}")
        return probs
    for f, name in zip(exp["flows"], want_names):
        fl = mfa.flows[name]
        if fl.name != name or (fl.from_process.name, fl.from_process.id, fl.to_process.name, fl.to_process.id) != (f["from"], f["fromid"], f["to"], f["toid"]):
            probs.append(tag + f"flow {name!r}: runs {fl.from_process.name}({fl.from_process.id}) -> {fl.to_process.name}({fl.to_process.id}), "
                               f"defined {f['from']}({f['fromid']}) -> {f['to']}({f['toid']})")
        if list(fl.dims.letters) != list(f["dims"]) or any(list(fl.dims[l].items) != ITEMS[l] for l in f["dims"]):
            probs.append(tag + f"flow {name!r}: dims {fl.dims.letters} != {f['dims']} (or other items)")
        elif fl.values.shape != tuple(len(ITEMS[l]) for l in f["dims"]) or np.any(fl.values != 0):
            probs.append(tag + f"flow {name!r}: not a zero array of the shape of its dims")
    if sorted(mfa.stocks.keys()) != sorted(s["name"] for s in exp["stocks"]):
        probs.append(tag + f"stock names {sorted(mfa.stocks.keys())}")
        return probs
    for s in exp["stocks"]:
        st = mfa.stocks[s["name"]]
        if type(st).__name__ != s["cls"]:
            probs.append(tag + f"stock class {type(st).__name__} != {s['cls']}")
        if s["lm"] and type(getattr(st, "lifetime_model", None)).__name__ != s["lm"]:
            probs.append(tag + f"stock lifetime model {type(getattr(st, 'lifetime_model', None)).__name__} != {s['lm']}")
        if s["lm"] and (list(st.lifetime_model.dims.letters) != list(s["dims"]) or st.lifetime_model.time_letter != s["tl"]):
            probs.append(tag + "lifetime model dims / time letter differ from the stock definition")
        if s["solver"] and getattr(st, "solver", None) != s["solver"]:
            probs.append(tag + f"stock solver {getattr(st, 'solver', None)!r} != requested {s['solver']!r}")
        if st.time_letter != s["tl"]:
            probs.append(tag + f"stock time letter {st.time_letter!r} != {s['tl']!r}")
        if (st.process.name if st.process is not None else "") != s["proc"]:
            probs.append(tag + f"stock process {st.process} != {s['proc']!r}")
        if s["proc"] and st.process.id != [x[0] for x in exp["procs"]].index(s["proc"]):
            probs.append(tag + "stock process id")
        if list(st.dims.letters) != list(s["dims"]) or st.name != s["name"]:
            probs.append(tag + f"stock dims {st.dims.letters} != {s['dims']}")
        for a in (st.stock, st.inflow, st.outflow):
            if list(a.dims.letters) != list(s["dims"]) or a.values.shape != tuple(len(ITEMS[l]) for l in s["dims"]) or np.any(a.values != 0):
                probs.append(tag + "stock arrays are not zero arrays over the stock's dims")
                break
    if sorted(mfa.parameters.keys()) != sorted(p["name"] for p in exp["params"]):
        probs.append(tag + f"parameter names {sorted(mfa.parameters.keys())}")
        return probs
    for p in exp["params"]:
        pa = mfa.parameters[p["name"]]
        if list(pa.dims.letters) != list(p["dims"]) or any(list(pa.dims[l].items) != ITEMS[l] for l in p["dims"]):
            probs.append(tag + f"parameter {p['name']}: dims {pa.dims.letters} != {p['dims']}")
        elif not np.allclose(pa.values, param_values(p["name"], p["dims"])):
            probs.append(tag + f"parameter {p['name']}: values differ from the data")
    return probs


def pad(name):
    """the same name with a leading or trailing blank (names are opaque strings: 'A ' is not 'A')"""
    if not isinstance(name, str) or name in ("", "sysenv", "<empty>"):
        return name
    return name + " " if len(name) % 2 else " " + name


def padded(vec):
    """the vector with every process / stock / parameter name and every overriding flow name padded by a blank"""
    import copy
    d, exp = copy.deepcopy(vec["def"]), copy.deepcopy(vec["res"])
    d["procs"] = [pad(p) for p in d["procs"]]
    for f in d["flows"]:
        f["from"], f["to"], f["override"] = pad(f["from"]), pad(f["to"]), pad(f["override"])
    for s_ in d["stocks"]:
        s_["name"], s_["proc"] = pad(s_["name"]), pad(s_["proc"])
    for p_ in d["params"]:
        p_["name"] = pad(p_["name"])
    if not exp["error"]:
        exp["procs"] = [[pad(n), i] for n, i in exp["procs"]]
        for f in exp["flows"]:
            f["from"], f["to"] = pad(f["from"]), pad(f["to"])
            f["name"] = [f["name"][0]] + [pad(x) if f["name"][0] != "ids" else x for x in f["name"][1:]]
        for s_ in exp["stocks"]:
            s_["name"], s_["proc"] = pad(s_["name"]), pad(s_["proc"])
        for p_ in exp["params"]:
            p_["name"] = pad(p_["name"])
    return d, exp


def run_build(vec):
    problems = []
    tmp = scratch("flodym-verif-sys-")
    try:
        problems += _run_build(vec["def"], vec["res"], tmp, "")
        # second concretisation of the same definition: names carrying a leading / trailing blank
        d2, exp2 = padded(vec)
        problems += _run_build(d2, exp2, tmp, "names padded with a blank, ", routes=["reader", "csv", "manual"])
        if not vec["res"]["error"] and d2["procs"] and d2["procs"][0] == "sysenv":
            # "sysenv " / " sysenv" is not the system environment: refused
            for first in ("sysenv ", " sysenv"):
                d3 = dict(d2, procs=[first] + list(d2["procs"][1:]),
                          flows=[dict(f, **{k: (first if f[k] == "sysenv" else f[k]) for k in ("from", "to")}) for f in d2["flows"]],
                          stocks=[dict(s_, proc=(first if s_["proc"] == "sysenv" else s_["proc"])) for s_ in d2["stocks"]])
                problems += _run_build(d3, {"error": True}, tmp, f"first process {first!r}, ", routes=["reader", "manual"])
    finally:
        shutil.rmtree(tmp, ignore_errors=True)
    return problems[:6]


def _run_build(d, exp, tmp, note, routes=None):
    problems = []
    if routes is None:
        routes = ["manual", "manual_alias"] if d["naming"] != "arrow" else \
            ["reader", "reader_dict", "csv", "csv_kwargs", "excel", "excel_first_sheet", "manual", "manual_alias"]
    elif d["naming"] != "arrow":
        routes = ["manual"]
    if True:
        for route in routes:
            tag = f"[{route}] {note}{{C18}} "
            try:
                mfa = build(d, route, tmp)
                raised = None
            except Exception as e:
                raised = e
            if exp["error"]:
                if raised is None:
                    problems.append(tag + "definition must be refused but a system was built")
                continue
            if raised is not None:
                problems.append(tag + f"valid definition raised {type(raised).__name__}: {str(raised)[:200]}")
                continue
            problems += compare(mfa, d, exp, tag)
    return problems


def run_dimfile(vec):
    f, exp = vec["file"], vec["res"]
    items = list(f["ints"]) if f["dtype"] == "int" else list(f["strs"])
    if f["dtype"] != "int" and (len(items) + len(f["name"])) % 2:
        # every second text dimension carries labels outside ASCII (files are written as UTF-8, the readers' default)
        items = [it + sfx for it, sfx in zip(items, ["-Österreich", "-Åland", "-São Tomé", "-Κύπρος", "-日本", "-Côte"] * 3)]
    cells = ([f["name"]] if f["headed"] else []) + items
    if f["twod"]:
        width = max(2, len(cells))
        grid = [(cells + [cells[-1]] * width)[:width], (cells + [cells[-1]] * width)[:width]]
    elif f["orient"] == "row":
        grid = [cells]
    else:
        grid = [[c] for c in cells]
    df = pd.DataFrame(grid)
    tmp = scratch("flodym-verif-dim-")
    tag = f"[{f['ftype']}/{f['orient']}/{'headed' if f['headed'] else 'bare'}/sheet:{f['sheet']}] {{C18}} "
    try:
        definition = flodym.DimensionDefinition(name=f["name"], letter="x", dtype=int if f["dtype"] == "int" else str)
        try:
            if f["ftype"] == "csv":
                path = os.path.join(tmp, "dim.csv")
                df.to_csv(path, header=False, index=False)
                reader = flodym.CSVDimensionReader(dimension_files={f["name"]: path}, **({"encoding": "utf-8"} if len(items) % 2 else {}))
            else:
                path = os.path.join(tmp, "dim.xlsx")
                with pd.ExcelWriter(path) as w:
                    if f["sheet"] == "second":
                        pd.DataFrame([["something", "else"], ["not", "items"]]).to_excel(w, sheet_name="notes", header=False, index=False)
                        df.to_excel(w, sheet_name="dims", header=False, index=False)
                    else:
                        df.to_excel(w, sheet_name="dims", header=False, index=False)
                        pd.DataFrame([["other"], ["sheet"]]).to_excel(w, sheet_name="zz_other", header=False, index=False)
                sheets = None if f["sheet"] == "default" else {f["name"]: "dims"}
                reader = flodym.ExcelDimensionReader(dimension_files={f["name"]: path}, dimension_sheets=sheets)
            dim = reader.read_dimension(definition)
            raised = None
        except Exception as e:
            raised = e
        if exp["error"]:
            return [] if raised is not None else [tag + f"two-dimensional content accepted as items {dim.items}"]
        if raised is not None:
            return [tag + f"reading a valid dimension file raised {type(raised).__name__}: {str(raised)[:160]}"]
        if list(dim.items) != items or dim.name != f["name"] or dim.letter != "x":
            return [tag + f"items {dim.items} != file content {items} (in file order, converted to {f['dtype']})"]
        if any(type(i) is not (int if f["dtype"] == "int" else str) for i in dim.items):
            return [tag + f"items not converted to the declared type: {[type(i).__name__ for i in dim.items]}"]
        return []
    finally:
        shutil.rmtree(tmp, ignore_errors=True)


def run_vector(vec):
    return run_build(vec) if vec["op"] == "build" else run_dimfile(vec)
