"""Relational runs for C03 / C09 / C10 / C16 on ALL lifetime models (incl. the scipy-based ones, whose tables
TLC cannot compute): the clauses of Prop_C03, Prop_C09, Prop_C10 and Prop_C16 (spec/mc/MC_Stocks.tla) are evaluated
between related executions of the implementation, with the interval lengths (dt2) taken from the TLC run of the
configuration and the implementation's own survival table as `sf`."""

import random

import numpy as np

from . import core
from .core import Model
from .replay_stocks import Setup, StepLifetime, TOL, conservation
from . import lifetime_closed
from .universe import flodym, FlodymArray, DimensionSet


def make_lm(S, model, variant):
    if model in lifetime_closed.MODELS:
        cls, _, names = lifetime_closed.MODELS[model]
        first, second = lifetime_closed.params(model, S, variant)
        a1, a2 = lifetime_closed.build_arrays(S, first, second, variant)
        return cls(dims=S.dims, time_letter="t", **{names[0]: a1, names[1]: a2})
    lm, _ = S.lifetime_model(variant, via_set_prms=False)
    return lm


def prm_kwargs(S, model, variant):
    """keyword arguments for set_prms of the configuration's parameters"""
    if model in lifetime_closed.MODELS:
        _, _, names = lifetime_closed.MODELS[model]
        first, second = lifetime_closed.params(model, S, variant)
        a1, a2 = lifetime_closed.build_arrays(S, first, second, variant)
        return {names[0]: a1, names[1]: a2}
    return {("mean" if S.cfg["family"] == "fixed" else "period"): S.prm_argument(variant)}


def run_id(S, model, variant, inflow):
    st = flodym.InflowDrivenDSM(dims=S.dims, time_letter="t", lifetime_model=make_lm(S, model, variant))
    st.inflow.values[...] = inflow
    st.compute()
    return st


def run_sd(S, model, variant, stock, solver):
    st = flodym.StockDrivenDSM(dims=S.dims, time_letter="t", lifetime_model=make_lm(S, model, variant), solver=solver)
    st.stock.values[...] = stock
    st.compute()
    return st


def allclose(a, b, scale=1.0):
    a, b = np.asarray(a, dtype=float), np.asarray(b, dtype=float)
    if a.shape != b.shape or np.any(np.isnan(a)) or np.any(np.isnan(b)):
        return False
    return bool(np.all(np.abs(a - b) <= TOL * max(1.0, scale, float(np.max(np.abs(a))), float(np.max(np.abs(b))))))


def cohort_clauses(S, st, tag="{C09}"):
    probs = []
    sbc, obc = np.asarray(st.get_stock_by_cohort()), np.asarray(st.get_outflow_by_cohort())
    sf = np.asarray(st.lifetime_model.sf)
    dt = np.array([float(x) for x in S.dt])
    inflow, stock, outflow = st.inflow.values, st.stock.values, st.outflow.values
    scale = max(1.0, float(np.max(np.abs(stock))))
    if not allclose(sbc.sum(axis=1), stock, scale):
        probs.append(f"{tag} stock differs from the sum over cohorts of the stock-by-cohort table")
    if not allclose(obc.sum(axis=1), outflow, scale):
        probs.append(f"{tag} outflow differs from the sum over cohorts of the outflow-by-cohort table")
    for t in range(S.n):
        for c in range(t + 1, S.n):
            if np.any(sbc[t, c] != 0) or np.any(obc[t, c] != 0):
                probs.append(f"{tag} cohort table entry (t={t}, c={c}) for a cohort later than the year is not zero")
                break
    whole = np.einsum("c...,c->c...", inflow, dt)
    if not allclose(sbc, np.einsum("c...,tc...->tc...", whole, sf), scale):
        probs.append(f"{tag} stock by cohort is not inflow x interval length x survival share")
    # cohort conservation
    left = np.cumsum(np.einsum("tc...,t->tc...", obc, dt), axis=0)
    for c in range(S.n):
        for t in range(c, S.n):
            if not allclose(whole[c], sbc[t, c] + left[t, c], scale):
                probs.append(f"{tag} cohort {c} at step {t}: entered {np.ravel(whole[c])[:3]} != in stock + left so far "
                             f"{np.ravel(sbc[t, c] + left[t, c])[:3]}")
                return probs[:4]
    if np.all(inflow >= 0):
        for c in range(S.n):
            if np.any(np.diff(sbc[c:, c], axis=0) > 1e-9 * scale):
                probs.append(f"{tag} stock of cohort {c} increases over time for non-negative inflow")
                break
    return probs[:4]


def relational_vector(vec):
    config, model, variant, seed = vec["config"], vec["model"], vec["variant"], vec["seed"]
    S = Setup(config)
    rnd = random.Random(seed)
    shape = (S.n,) + tuple(k for _, k in S.extra)
    tag = f"[{model}/{config['prmkind']}/grid{config['grid']}] "
    problems = []
    try:
        d1 = np.array([rnd.randint(0, 9) for _ in range(int(np.prod(shape)))], dtype=float).reshape(shape)
        d2 = np.array([rnd.randint(-3, 6) for _ in range(int(np.prod(shape)))], dtype=float).reshape(shape)
        a = run_id(S, model, variant, d1)
        b = run_id(S, model, variant, d2)
        sf = np.asarray(a.lifetime_model.sf)
        dt = np.array([float(x) for x in S.dt])
        scale = max(1.0, float(np.max(np.abs(a.stock.values))))
        # C03 / C09 on the inflow-driven runs
        for st in (a, b):
            problems += [tag + p for p in conservation(S, st.stock.values, st.inflow.values, st.outflow.values)]
            problems += [tag + p for p in cohort_clauses(S, st)]
        # ... and after computing the SAME object a second time (cached tables must not be consumed by a compute)
        a.compute()
        problems += [tag + "(second compute() on the same object) " + p.replace("{C03}", "{C03,C17}") for p in
                     conservation(S, a.stock.values, a.inflow.values, a.outflow.values)]
        problems += [tag + "(second compute() on the same object) " + p.replace("{C09}", "{C09,C17,C16}") for p in cohort_clauses(S, a)]
        other = run_id(S, model, variant, d2)            # (an independent object for comparison below)
        if not (allclose(other.stock.values, b.stock.values, scale) and allclose(other.outflow.values, b.outflow.values, scale)):
            problems.append(tag + "{C16,C17} two fresh models with the same inputs give different results")
        # the clauses have no absolute thresholds: a driver of magnitude 1e-12 obeys them too (checked after rescaling by 2^40)
        tiny0 = run_id(S, model, variant, d1 * 2.0 ** -40)

        class Up:      # the tiny run, scaled back up
            pass
        up = Up()
        up.inflow = Up(); up.stock = Up(); up.outflow = Up(); up.lifetime_model = tiny0.lifetime_model
        up.inflow.values = tiny0.inflow.values * 2.0 ** 40
        up.stock.values = tiny0.stock.values * 2.0 ** 40
        up.outflow.values = tiny0.outflow.values * 2.0 ** 40
        sbc0, obc0 = np.asarray(tiny0.get_stock_by_cohort()) * 2.0 ** 40, np.asarray(tiny0.get_outflow_by_cohort()) * 2.0 ** 40
        up.get_stock_by_cohort = lambda: sbc0
        up.get_outflow_by_cohort = lambda: obc0
        problems += [tag + "(driver of magnitude 1e-12) " + p for p in conservation(S, up.stock.values, up.inflow.values, up.outflow.values)]
        problems += [tag + "(driver of magnitude 1e-12) " + p for p in cohort_clauses(S, up)]
        if not allclose(up.stock.values, a.stock.values, scale):
            problems.append(tag + "{C16,C10,C03} the stock of a driver scaled by 2^-40 is not the stock scaled by 2^-40")
        # C09 / C03 also hold after re-parameterising and recomputing the SAME object
        cfg2 = dict(config)
        cfg2["prm8"] = [[v + 8 for v in row] for row in config["prm8"]]
        S_new = Setup(cfg2)
        re = run_id(S, model, variant, d1)
        re.lifetime_model.set_prms(**prm_kwargs(S_new, model, variant + 1))
        re.compute()
        problems += [tag + "(after set_prms + recompute) " + p.replace("{C03}", "{C03,C17}") for p in
                     conservation(S, re.stock.values, re.inflow.values, re.outflow.values)]
        problems += [tag + "(after set_prms + recompute) " + p.replace("{C09}", "{C09,C17}") for p in cohort_clauses(S, re)]
        # C16 superposition and scaling
        c = run_id(S, model, variant, d1 + 2 * d2)
        for name, f in (("stock", lambda s: s.stock.values), ("outflow", lambda s: s.outflow.values),
                        ("stock_by_cohort", lambda s: s.get_stock_by_cohort()), ("outflow_by_cohort", lambda s: s.get_outflow_by_cohort())):
            if not allclose(f(c), np.asarray(f(a)) + 2 * np.asarray(f(b)), scale):
                problems.append(tag + f"{{C16}} superposition fails for {name}: model(d1 + 2 d2) != model(d1) + 2 model(d2)")
        # C16 scaling also holds for very small drivers (no absolute thresholds): model(2^-40 d) = 2^-40 model(d)
        tiny = run_id(S, model, variant, d1 * 2.0 ** -40)
        for name, f in (("stock", lambda s: s.stock.values), ("outflow", lambda s: s.outflow.values),
                        ("stock_by_cohort", lambda s: s.get_stock_by_cohort())):
            if not allclose(np.asarray(f(tiny)) * 2.0 ** 40, f(a), scale):
                problems.append(tag + f"{{C16}} scaling fails for a driver of magnitude 1e-12: {name}(2^-40 d) != 2^-40 {name}(d)")
        # C16 causality: truncate after k
        k = rnd.randrange(0, S.n - 1)
        dk = d1.copy()
        dk[k + 1:] = 0
        tr = run_id(S, model, variant, dk)
        if not (allclose(tr.stock.values[:k + 1], a.stock.values[:k + 1], scale) and
                allclose(tr.outflow.values[:k + 1], a.outflow.values[:k + 1], scale)):
            problems.append(tag + f"{{C16}} results up to step {k} depend on later inflow")
        # C16 impulse response + label independence
        for cidx in range(S.n):
            li = rnd.randrange(len(S.lab_idx))
            imp = np.zeros(shape)
            imp[(cidx,) + S.lab_idx[li]] = 1.0
            r = run_id(S, model, variant, imp)
            want = np.zeros(shape)
            want[(slice(None),) + S.lab_idx[li]] = sf[(slice(None), cidx) + S.lab_idx[li]] * dt[cidx]
            if not allclose(r.stock.values, want):
                problems.append(tag + f"{{C16}} response to a unit inflow in cohort {cidx}, label {li + 1} is not that cohort's survival "
                                      f"column x interval length (or leaks into other labels)")
                break
        # C16 calendar shift
        S2 = Setup(config, shift=rnd.choice([-1000, 17, 1990]))
        sh = run_id(S2, model, variant, d1)
        if not (allclose(sh.stock.values, a.stock.values, scale) and allclose(sh.outflow.values, a.outflow.values, scale)):
            problems.append(tag + "{C16} shifting all time items by a constant changes the results")
        # C16 each label evolves as if computed alone with its own parameters
        if len(S.lab_idx) > 1:
            li = rnd.randrange(len(S.lab_idx))
            cfg1 = dict(config)
            cfg1["nl"] = 1
            cfg1["prm8"] = [[row[li]] for row in config["prm8"]]
            cfg1["prmkind"] = {"lab": "scalar", "both": "cohort"}.get(config["prmkind"], config["prmkind"])
            S1 = Setup(cfg1)
            alone = run_id(S1, model, variant, d1[(slice(None),) + S.lab_idx[li]])
            if not (allclose(alone.stock.values, a.stock.values[(slice(None),) + S.lab_idx[li]], scale) and
                    allclose(alone.outflow.values, a.outflow.values[(slice(None),) + S.lab_idx[li]], scale)):
                problems.append(tag + f"{{C16}} label {li + 1} does not evolve as if computed alone with its own parameters")
        # C16 with a DEGENERATE neighbour: one label's spread parameter is exactly zero (its own results are then undefined);
        # every other label still evolves as if computed alone
        if len(S.lab_idx) > 1 and model in ("NormalLifetime", "FoldedNormalLifetime", "LogNormalLifetime") and \
                config["prmkind"] in ("lab", "both"):
            cls, _, names = lifetime_closed.MODELS[model]
            first, second = lifetime_closed.params(model, S, variant)
            a1, a2 = lifetime_closed.build_arrays(S, first, lambda c, k: 0.0 if k == 0 else second(c, k), variant)
            with np.errstate(all="ignore"):
                joint = flodym.InflowDrivenDSM(dims=S.dims, time_letter="t",
                                               lifetime_model=cls(dims=S.dims, time_letter="t", **{names[0]: a1, names[1]: a2}))
                joint.inflow.values[...] = d1
                joint.compute()
            lj = 1 + rnd.randrange(len(S.lab_idx) - 1)
            cfgj = dict(config)
            cfgj["nl"] = 1
            cfgj["prm8"] = [[row[lj]] for row in config["prm8"]]
            cfgj["prmkind"] = {"lab": "scalar", "both": "cohort"}[config["prmkind"]]
            Sj = Setup(cfgj)
            alone_j = run_id(Sj, model, variant, d1[(slice(None),) + S.lab_idx[lj]])
            selj = (slice(None),) + S.lab_idx[lj]
            if not (allclose(alone_j.stock.values, joint.stock.values[selj], scale) and allclose(alone_j.outflow.values, joint.outflow.values[selj], scale)):
                problems.append(tag + f"{{C16}} label {lj + 1} does not evolve as if computed alone when ANOTHER label's spread parameter is exactly zero")
        # C10 inverse and solver agreement (where every cohort keeps >= 5% over its first interval)
        diag = np.array([sf[t, t] for t in range(S.n)])
        if np.all(diag >= 0.05):
            m = run_sd(S, model, variant, a.stock.values.copy(), "manual")
            l = run_sd(S, model, variant, a.stock.values.copy(), "lapack")
            amp = float(1.0 / np.min(diag)) ** S.n  # conditioning of the triangular solve
            tol_scale = scale * max(1.0, min(amp, 1e4))
            for name, sd in (("manual", m), ("lapack", l)):
                if not np.array_equal(sd.stock.values, a.stock.values):
                    problems.append(tag + f"{{C10,C16,C15}} stock-driven ({name}): compute() changed the prescribed stock")
                if not allclose(sd.inflow.values, d1, tol_scale):
                    problems.append(tag + f"{{C10}} stock-driven ({name}) does not return the inflow that produced the stock")
                if not allclose(sd.outflow.values, a.outflow.values, tol_scale):
                    problems.append(tag + f"{{C10}} stock-driven ({name}) outflow differs from the inflow-driven model's")
                if not (allclose(sd.get_stock_by_cohort(), a.get_stock_by_cohort(), tol_scale) and
                        allclose(sd.get_outflow_by_cohort(), a.get_outflow_by_cohort(), tol_scale)):
                    problems.append(tag + f"{{C10}} stock-driven ({name}) cohort tables differ from the inflow-driven model's")
                problems += [tag + f"({name}) " + p for p in conservation(S, sd.stock.values, sd.inflow.values, sd.outflow.values)]
                problems += [tag + f"({name}) " + p for p in cohort_clauses(S, sd)]
                back = run_id(S, model, variant, sd.inflow.values.copy())
                if not allclose(back.stock.values, a.stock.values, tol_scale):
                    problems.append(tag + f"{{C10}} inflow-driven model driven with the stock-driven ({name}) inflow does not reproduce the stock")
            if not allclose(m.inflow.values, l.inflow.values, tol_scale):
                problems.append(tag + "{C10} manual and lapack solvers disagree")
            # the inverse is linear too: a prescribed stock scaled by 2^-40 (every value far below any absolute threshold) returns the
            # inflow scaled by 2^-40; and a LARGE legacy cohort next to ordinary later ones (additions far below any relative threshold
            # of the standing stock) still returns every cohort's inflow
            for name in ("manual", "lapack"):
                tiny_sd = run_sd(S, model, variant, a.stock.values * 2.0 ** -40, name)
                if not allclose(tiny_sd.inflow.values * 2.0 ** 40, d1, tol_scale):
                    problems.append(tag + f"{{C10,C16}} stock-driven ({name}): the inflow for a stock scaled by 2^-40 is not the inflow scaled by 2^-40")
            d_leg = d1.copy()
            d_leg[0] = d_leg[0] + 2.0 ** 23
            leg = run_id(S, model, variant, d_leg)
            for name in ("manual", "lapack"):
                leg_sd = run_sd(S, model, variant, leg.stock.values.copy(), name)
                if not allclose(leg_sd.inflow.values, d_leg, tol_scale * 2.0 ** 23):
                    problems.append(tag + f"{{C10}} stock-driven ({name}): with a large legacy cohort (2^23) the inflow of the later, ordinary cohorts is not returned")
            # a phase-out on the SAME inflow-driven object: the inflow of the later cohorts is set to zero and the model recomputed;
            # the stock-driven model fed with that stock returns the phased-out inflow
            ph = run_id(S, model, variant, d1)
            z = d1.copy()
            z[S.n // 2:] = 0.0
            ph.inflow.values[...] = z
            ph.compute()
            back_z = run_sd(S, model, variant, ph.stock.values.copy(), "manual")
            if not allclose(back_z.inflow.values, z, tol_scale):
                problems.append(tag + "{C10,C17} after the inflow of the later cohorts was set to zero and the SAME inflow-driven object recomputed, "
                                      "the stock-driven model does not return that inflow from its stock")
            # C16 for the stock-driven model: one label computed ALONE (a time-only stock) gives that label's series of the joint run
            if len(S.lab_idx) > 1:
                sel = (slice(None),) + S.lab_idx[li]
                for name, joint in (("manual", m), ("lapack", l)):
                    prescribed = a.stock.values[sel].copy()
                    alone_sd = run_sd(S1, model, variant, prescribed.copy(), name)
                    if not (allclose(alone_sd.inflow.values, joint.inflow.values[sel], tol_scale) and
                            allclose(alone_sd.outflow.values, joint.outflow.values[sel], tol_scale) and
                            np.array_equal(alone_sd.stock.values, prescribed)):
                        problems.append(tag + f"{{C16,C10}} stock-driven ({name}): label {li + 1} computed alone (time-only stock) differs from "
                                              f"its series in the joint model (inflow / outflow / the stock left after compute)")
            # a stock that implies negative inflow (C10) and is not reachable with non-negative inflow
            s2 = b.stock.values.copy()
            m2 = run_sd(S, model, variant, s2, "manual")
            l2 = run_sd(S, model, variant, s2, "lapack")
            if not (allclose(m2.inflow.values, d2, tol_scale) and allclose(l2.inflow.values, d2, tol_scale)):
                problems.append(tag + "{C10,C16} stock-driven model does not recover an inflow with negative entries")
    except Exception as e:
        import traceback
        problems.append(tag + f"{{C03,C09,C10,C16}} relational run raised {type(e).__name__}: {str(e)[:200]} "
                        + traceback.format_exc()[-300:].replace("\n", " | "))
    return problems


MODELS_ALL = ["FixedLifetime", "StepLifetime"] + list(lifetime_closed.MODELS)


def run_relational(out, prop, tier):
    from .checks_stocks import config_list, stock_model, sig_stocks
    cfgs = config_list(tier, out.seed)[: (14 if tier == "quick" else 60)]
    # the TLC run supplies the interval lengths and parameter tables (one tiny model per configuration)
    models = []
    for c in cfgs:
        m = stock_model(*c, ncombos=0)
        m.label += "/structure"
        models.append(m)
    vecs = []
    rnd = random.Random(out.seed + 99)
    for m, res in core.run_models(models, seed=out.seed, parallel=10):
        out.add_tlc(m, res)
        config = res.vectors[0]["config"]
        if min(min(r) for r in config["prm8"]) < 4:
            continue
        for model in MODELS_ALL:
            if model in ("FixedLifetime", "StepLifetime"):
                cfgm = dict(config)
                cfgm["family"] = "fixed" if model == "FixedLifetime" else "step"
            else:
                cfgm = config
            for rep in range(1 if tier == "quick" else 3):
                vecs.append({"config": cfgm, "model": model, "variant": rnd.randrange(6), "seed": rnd.randrange(10 ** 6)})
    bad = core.replay_parallel(relational_vector, vecs)
    out.traces_validated += len(vecs)
    out.extra["relational_runs"] = len(vecs)
    out.samples.append(core.sample_of({"relational_run": {"grid": vecs[0]["config"]["grid"], "dt2": vecs[0]["config"]["dt2"],
                                                          "model": vecs[0]["model"], "seed": vecs[0]["seed"]}}))
    out.judge(core.for_property(bad, prop), "relational", sig_stocks)
