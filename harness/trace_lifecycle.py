"""Direction B for whole model runs: histories on ONE real MFASystem object, recorded and validated by TLC
(spec/Lifecycle.tla, spec/trace/Trace_Lifecycle.tla).

A random MODEL is drawn: processes, flows and stocks over random ordered subsets of the dimensions, parameters, and a
compute() PROGRAM - a straight-line sequence of flodym array expressions (products, sums, differences, sum_to, scalar factors),
whole-array assignments into the pre-declared flows and stock inflows, and stock computations.  The real system is built from
its MFADefinition (from_data_reader / from_csv / from_excel), its compute() interprets the program with the library's own
operators, and a history is run on that one object: parameter entries edited, lifetimes replaced, compute(), single flow
entries overwritten (also negative / NaN), both checks with every tolerance form, exports in every form, compute() again.

All numbers are dyadic rationals of small magnitude on time grids whose interval lengths are powers of two, so every quantity
the library computes is exact in float64 and is logged as an exact fraction.  Every call is logged at its return with what it
reported / exported and with the projection of EVERY array of the system.  Nothing here computes an expected value."""

import json
import logging
import os
import random
import re
import shutil
import tempfile

import numpy as np
import pandas as pd

from . import tlcrun
from .core import Machinery, names_in
from .universe import flodym, Dimension, DimensionSet

NAMES = {"t": "Time", "r": "Region", "e": "Element", "g": "Good"}
UNIVERSES = [
    {"canon": ["t", "r", "e"], "items": {"t": [1, 2, 3, 4], "r": [1, 2], "e": [1, 2]}},
    {"canon": ["t", "r", "g"], "items": {"t": [1, 2, 3], "r": [1, 2, 3], "g": [1, 2]}},
    {"canon": ["t", "r", "e", "g"], "items": {"t": [1, 2, 3, 4, 5], "r": [1, 2], "e": [1, 2], "g": [1, 2]}},
]
SENTINEL = [999999937, 1]


def frac(x):
    x = float(x)
    if x != x:
        return [0, 0]
    if x in (float("inf"), float("-inf")):
        return SENTINEL
    n, d = x.as_integer_ratio()
    if d > 2 ** 16 or abs(n) > 2 ** 26:
        return SENTINEL
    return [int(n), int(d)]


def rand_grid(rnd, n):
    """years whose interval lengths (midpoint to midpoint, ends mirrored) are powers of two"""
    if rnd.random() < 0.35:
        steps = [rnd.choice([1, 2, 4])] * (n - 1)
    else:
        steps = [rnd.choice([1, 1, 2, 3])]
        while len(steps) < n - 1:
            options = [p - steps[-1] for p in (2, 4, 8) if p - steps[-1] >= 1]
            steps.append(rnd.choice(options[:2]))
    g = [rnd.choice([1990, 2000, 2001])]
    for s in steps:
        g.append(g[-1] + s)
    return g


class TooBig(Exception):
    """a state whose numbers would overflow the 32-bit rationals of the trace specification: the history ends before it"""


class Capture(logging.Handler):
    def __init__(self):
        super().__init__(level=logging.WARNING)
        self.records = []

    def emit(self, record):
        self.records.append(record)


class ProgramMFA(flodym.MFASystem):
    """compute() interprets the model's program with flodym's own operators"""

    def _ev(self, e):
        op = e["op"]
        if op == "p":
            return self.parameters[self._model["params"][e["id"] - 1]["name"]]
        if op == "f":
            return self.flows[self._model["flows"][e["id"] - 1]["name"]]
        if op in ("sin", "sout", "slev"):
            st = self.stocks[self._model["stocks"][e["id"] - 1]["name"]]
            return {"sin": st.inflow, "sout": st.outflow, "slev": st.stock}[op]
        if op == "neg":
            return -self._ev(e["a"])
        if op == "sumto":
            a = self._ev(e["a"])
            return a.sum_to(tuple(e["dims"])) if e.get("by", "letters") == "letters" else a.sum_to(tuple(NAMES[l] for l in e["dims"]))
        if op == "get":
            a = self._ev(e["a"])
            items = self._items
            sp = e.get("sp", "letter")
            if sp == "letter":
                return a[{l: items[l][i - 1] for l, i in e["key"]}]
            if sp == "name":
                return a[{NAMES[l]: items[l][i - 1] for l, i in e["key"]}]
            return a[tuple(items[l][i - 1] for l, i in e["key"])] if len(e["key"]) > 1 else a[items[e["key"][0][0]][e["key"][0][1] - 1]]
        if op == "cumsum":
            return self._ev(e["a"]).cumsum(dim_letter=e["l"])
        if op == "scale":
            k = e["k"][0] / e["k"][1]
            return self._ev(e["a"]) * k if e.get("side", "r") == "r" else k * self._ev(e["a"])
        a, b = self._ev(e["a"]), self._ev(e["b"])
        return a * b if op == "mul" else (a + b if op == "add" else a - b)

    def compute(self):
        for stmt in self._model["prog"]:
            op = stmt["op"]
            if op == "flow":
                self.flows[self._model["flows"][stmt["id"] - 1]["name"]][...] = self._ev(stmt["e"])
            elif op == "sin":
                self.stocks[self._model["stocks"][stmt["id"] - 1]["name"]].inflow[...] = self._ev(stmt["e"])
            elif op == "sout":
                self.stocks[self._model["stocks"][stmt["id"] - 1]["name"]].outflow[...] = self._ev(stmt["e"])
            elif op == "slev":
                self.stocks[self._model["stocks"][stmt["id"] - 1]["name"]].stock[...] = self._ev(stmt["e"])
            elif op == "flowkey":
                self.flows[self._model["flows"][stmt["id"] - 1]["name"]][{l: self._items[l][i - 1] for l, i in stmt["key"]}] = self._ev(stmt["e"])
            else:
                self.stocks[self._model["stocks"][stmt["id"] - 1]["name"]].compute()


class MemReader(flodym.DataReader):
    def __init__(self, dimobj, prm):
        self.dimobj, self.prm = dimobj, prm

    def read_dimension(self, definition):
        return self.dimobj[definition.letter]

    def read_parameter_values(self, parameter_name, dims):
        return flodym.Parameter(dims=dims, name=parameter_name, values=np.array(self.prm[parameter_name], dtype=float))


class Program:
    def __init__(self, uid, seed):
        self.rnd = rnd = random.Random(seed)
        self.U = U = UNIVERSES[uid]
        self.n = len(U["items"]["t"])
        self.grid = rand_grid(rnd, self.n)
        # items: years for t; strings elsewhere (every second program uses another spelling of the same labels)
        alt = seed % 2
        self.items = {l: (list(self.grid) if l == "t" else [(f"{l}{i}" if not alt else f"{NAMES[l][:2]}-{i}") for i in U["items"][l]])
                      for l in U["canon"]}
        self.dimobj = {l: Dimension(name=NAMES[l], letter=l, items=self.items[l], dtype=int if l == "t" else str) for l in U["canon"]}
        self.events = []
        self.tmp = None

    # ------------------------------------------------------------------ the random model
    def shape(self, ds):
        return tuple(len(self.U["items"][l]) for l in ds)

    def sub_dims(self, pool, lo=1, need=None):
        pool = list(pool)
        k = self.rnd.randint(lo, len(pool))
        ds = self.rnd.sample(pool, k)
        if need and need not in ds:
            ds[self.rnd.randrange(len(ds))] = need
        return ds

    def gen_model(self):
        rnd, canon = self.rnd, self.U["canon"]
        nproc = rnd.randint(1, 4)
        procs = ["sysenv"] + [f"P{i}" for i in range(1, nproc + 1)]
        params, flows, stocks, prog = [], [], [], []
        self.conserving = rnd.random() < 0.55

        def new_param(ds, kind):
            params.append({"name": f"prm{len(params) + 1}", "dims": ds, "kind": kind})
            return {"op": "p", "id": len(params)}

        def new_flow(a, b, ds, e):
            flows.append({"name": f"{procs[a - 1]} => {procs[b - 1]}" if not any(f["from"] == a and f["to"] == b for f in flows)
                          else f"{procs[a - 1]} => {procs[b - 1]} #{len(flows) + 1}", "from": a, "to": b, "dims": ds})
            prog.append({"op": "flow", "id": len(flows), "e": e})
            return {"op": "f", "id": len(flows)}

        def dims_of(e):
            op = e["op"]
            if op == "p":
                return list(params[e["id"] - 1]["dims"])
            if op == "f":
                return list(flows[e["id"] - 1]["dims"])
            if op in ("sin", "sout", "slev"):
                return list(stocks[e["id"] - 1]["dims"])
            if op in ("neg", "scale"):
                return dims_of(e["a"])
            if op == "sumto":
                return list(e["dims"])
            if op == "cumsum":
                return dims_of(e["a"])
            if op == "get":
                return [l for l in dims_of(e["a"]) if l not in [k[0] for k in e["key"]]]
            a, b = dims_of(e["a"]), dims_of(e["b"])
            if op == "mul":
                return a + [l for l in b if l not in a]
            return [l for l in a if l in b]

        def target_dims(e, need_t=False, first_t=False):
            """a random ordered non-empty subset of the expression's dims (the assignment sums the rest away)"""
            have = dims_of(e)
            ds = self.sub_dims(have, lo=max(1, len(have) - 1), need="t" if (need_t and "t" in have) else None)
            if first_t:
                ds = ["t"] + [l for l in ds if l != "t"]
            return ds

        # source: a parameter over dims including t, possibly times a coefficient
        src = new_param(self.sub_dims(canon, lo=2, need="t"), "src")
        e = src
        if rnd.random() < 0.5:
            e = {"op": "mul", "a": e, "b": new_param(self.sub_dims(canon, lo=1), "coef")}
            if rnd.random() < 0.5:
                e["a"], e["b"] = e["b"], e["a"]
        cur = new_flow(1, 2, target_dims(e, need_t=True), e)
        for p in range(2, nproc + 2):
            nxt = p + 1 if p < nproc + 1 else 1
            kind = rnd.choice(["split", "stock", "stock", "pass", "wild", "sdsm", "loop"] if not self.conserving
                              else ["split", "stock", "stock", "pass", "sdsm", "loop"])
            have = dims_of(cur)
            if kind in ("stock", "sdsm") and "t" not in have:
                kind = "split"
            if kind == "loop" and len(have) < 2:
                kind = "split"
            if kind == "loop":
                # a flow written item by item (as model code loops over regions): every item of one dimension gets its own share of the
                # inflow; the remainder goes on
                l = rnd.choice([x for x in have if x != "t"] or have)
                fd = target_dims(cur)
                if l not in fd:
                    fd.insert(rnd.randrange(len(fd) + 1), l)
                a_to = rnd.choice([1, nxt])
                flows.append({"name": f"{procs[p - 1]} => {procs[a_to - 1]} (by {NAMES[l].lower()}) #{len(flows) + 1}", "from": p, "to": a_to, "dims": fd})
                fid = len(flows)
                for i in self.U["items"][l]:
                    part = {"op": "scale", "a": {"op": "get", "a": cur, "key": [[l, i]], "sp": rnd.choice(["letter", "name", "item"])},
                            "k": [rnd.choice([0, 1, 1, 3]), rnd.choice([1, 2, 4])], "side": rnd.choice(["l", "r"])}
                    prog.append({"op": "flowkey", "id": fid, "key": [[l, i]], "e": part})
                rest = {"op": "sub", "a": cur, "b": {"op": "f", "id": fid}}
                cur = new_flow(p, nxt, target_dims(rest), rest)
                continue
            if kind == "sdsm":
                # a stock prescribed by a demand parameter; what the inflow from upstream does not cover comes from the environment
                sds = ["t"] + [x for x in self.sub_dims(have, lo=max(1, len(have) - 1)) if x != "t"]
                dem = new_param(list(sds) if rnd.random() < 0.5 else ["t"] + rnd.sample(sds[1:], len(sds) - 1), "src")
                stocks.append({"name": f"stock{len(stocks) + 1}", "proc": p, "dims": sds, "kind": "sdsm",
                               "setting": rnd.choice(["start", "middle", "end", "gl2"]), "solver": rnd.choice(["manual", "lapack"])})
                sid = len(stocks)
                prog.append({"op": "slev", "id": sid, "e": dem if rnd.random() < 0.6 else {"op": "cumsum", "a": dem, "l": "t"}})
                prog.append({"op": "scompute", "id": sid})
                extra = {"op": "sub", "a": {"op": "sin", "id": sid}, "b": cur}
                new_flow(1, p, target_dims(extra), extra)
                so = {"op": "sout", "id": sid}
                cur = new_flow(p, nxt, target_dims(so), so)
                continue
            if kind == "split":
                c = new_param(self.sub_dims(canon, lo=1), "mask")
                part = {"op": "mul", "a": cur, "b": c}
                da = target_dims(part)
                if not any(l in have for l in da):
                    da = target_dims(cur)           # (the remainder below needs a dimension in common)
                out_a = new_flow(p, rnd.choice([1, nxt]), da, part)
                rest = {"op": "sub", "a": cur, "b": out_a}
                cur = new_flow(p, nxt, target_dims(rest), rest)
            elif kind == "stock" and rnd.random() < 0.3:
                # TWO stocks at the same process: a masked part of the inflow enters the first, the remainder the second
                c = new_param(self.sub_dims([x for x in have if x != "t"] or have, lo=1), "mask")
                part = {"op": "mul", "a": cur, "b": c}
                outs = []
                for which in (0, 1):
                    src_e = part if which == 0 else {"op": "sub", "a": cur, "b": {"op": "sin", "id": len(stocks)}}
                    hv = dims_of(src_e)
                    sds = ["t"] + [l for l in self.sub_dims(hv, lo=max(1, len(hv) - 1)) if l != "t"]
                    stocks.append({"name": f"stock{len(stocks) + 1}", "proc": p, "dims": sds, "kind": "dsm",
                                   "setting": rnd.choice(["start", "middle", "end", "gl2"])})
                    prog.append({"op": "sin", "id": len(stocks), "e": src_e})
                    prog.append({"op": "scompute", "id": len(stocks)})
                    outs.append({"op": "sout", "id": len(stocks)})
                e = {"op": "add", "a": outs[0], "b": outs[1]}
                cur = new_flow(p, nxt, target_dims(e), e)
            elif kind == "stock":
                sds = ["t"] + [l for l in self.sub_dims(have, lo=max(1, len(have) - 1)) if l != "t"]
                skind = rnd.choice(["dsm", "dsm", "dsm", "simple"])
                stocks.append({"name": f"stock{len(stocks) + 1}", "proc": p if rnd.random() < 0.85 else rnd.choice([0, p]), "dims": sds,
                               "kind": skind, "setting": rnd.choice(["start", "middle", "middle", "end", "gl2"])})
                sid = len(stocks)
                prog.append({"op": "sin", "id": sid, "e": cur})
                if skind == "simple":
                    # a flow-driven stock: the outflow is a scaled, delayed-looking share of the inflow
                    prog.append({"op": "sout", "id": sid, "e": {"op": "scale", "a": {"op": "sin", "id": sid}, "k": [1, rnd.choice([2, 4])],
                                                                "side": rnd.choice(["l", "r"])}})
                prog.append({"op": "scompute", "id": sid})
                so = {"op": "sout", "id": sid}
                cur = new_flow(p, nxt, target_dims(so), so)
            elif kind == "pass":
                e = cur if rnd.random() < 0.5 else {"op": "sumto", "a": cur, "dims": target_dims(cur), "by": rnd.choice(["letters", "names"])}
                cur = new_flow(p, nxt, target_dims(e), e)
            else:
                c = new_param(self.sub_dims(canon, lo=1), "coef")
                e = rnd.choice([{"op": "mul", "a": cur, "b": c}, {"op": "add", "a": cur, "b": {"op": "mul", "a": cur, "b": c}},
                                {"op": "cumsum", "a": cur, "l": rnd.choice(have)},
                                {"op": "neg", "a": cur}, {"op": "scale", "a": cur, "k": [rnd.choice([1, 3]), rnd.choice([2, 4])], "side": "l"}])
                cur = new_flow(p, nxt, target_dims(e), e)
        if not self.conserving:
            for _ in range(rnd.randint(0, 2)):
                a, b = rnd.sample(range(1, nproc + 2), 2)
                refs = [{"op": "f", "id": k + 1} for k in range(len(flows))] + [{"op": "p", "id": k + 1} for k in range(len(params))]
                x, y = rnd.choice(refs), rnd.choice(refs)
                e = rnd.choice([x, {"op": "mul", "a": x, "b": y}, {"op": "sub", "a": x, "b": y}, {"op": "add", "a": x, "b": y}])
                if not dims_of(e):
                    e = x
                new_flow(a, b, target_dims(e), e)
        self.model = {"procs": procs, "params": [{"name": p["name"], "dims": p["dims"]} for p in params], "flows": flows,
                      "stocks": stocks, "prog": prog}
        # initial parameter values and lifetimes
        self.prm0 = {}
        for p in params:
            size = int(np.prod(self.shape(p["dims"])))
            if p["kind"] == "mask":
                vals = [rnd.choice([0, 1, 1]) for _ in range(size)]
            elif p["kind"] == "coef":
                vals = [rnd.choice([0, 1, 2, 3, 0.5, 0.25]) for _ in range(size)]
            else:
                vals = [rnd.randint(0, 6) for _ in range(size)]
            self.prm0[p["name"]] = np.array(vals, dtype=float).reshape(self.shape(p["dims"]))
        self.life8 = [self.rand_life(s) for s in stocks]

    def rand_life(self, s):
        """lifetime in eighths of a year; a stock-driven model needs a non-zero survival share in every first interval"""
        steps = [b - a for a, b in zip(self.grid, self.grid[1:])]
        dtmax = max([steps[0], steps[-1]] + [(a + b) // 2 for a, b in zip(steps, steps[1:])])
        lo = 8 * dtmax + 8 if s["kind"] == "sdsm" else 4
        return self.rnd.randint(lo, lo + 8 * self.rnd.choice([2, 6, 14]))

    # ------------------------------------------------------------------ the real system
    def definition(self):
        m = self.model
        dims = [flodym.DimensionDefinition(name=NAMES[l], letter=l, dtype=int if l == "t" else str) for l in self.U["canon"]]
        flows = []
        for f in m["flows"]:
            generated = f"{m['procs'][f['from'] - 1]} => {m['procs'][f['to'] - 1]}"
            flows.append(flodym.FlowDefinition(from_process_name=m["procs"][f["from"] - 1], to_process_name=m["procs"][f["to"] - 1],
                                               dim_letters=tuple(f["dims"]), name_override=None if generated == f["name"] else f["name"]))
        stocks = []
        for s in m["stocks"]:
            kw = dict(name=s["name"], dim_letters=tuple(s["dims"]), time_letter="t",
                      subclass={"dsm": flodym.InflowDrivenDSM, "sdsm": flodym.StockDrivenDSM, "simple": flodym.SimpleFlowDrivenStock}[s["kind"]])
            if s["kind"] in ("dsm", "sdsm"):
                kw["lifetime_model_class"] = flodym.FixedLifetime
            if s["kind"] == "sdsm":
                kw["solver"] = s.get("solver", "manual")
            if s["proc"]:
                kw["process"] = m["procs"][s["proc"] - 1]
            stocks.append(flodym.StockDefinition(**kw))
        params = [flodym.ParameterDefinition(name=p["name"], dim_letters=tuple(p["dims"])) for p in m["params"]]
        return flodym.MFADefinition(dimensions=dims, processes=list(m["procs"]), flows=flows, stocks=stocks, parameters=params)

    def write_files(self, excel):
        dim_files, prm_files = {}, {}
        ext = "xlsx" if excel else "csv"
        for l in self.U["canon"]:
            path = os.path.join(self.tmp, f"dim_{l}.{ext}")
            df = pd.DataFrame(self.items[l])
            (df.to_excel if excel else df.to_csv)(path, header=False, index=False)
            dim_files[NAMES[l]] = path
        for p in self.model["params"]:
            arr = flodym.FlodymArray(dims=DimensionSet(dim_list=[self.dimobj[l] for l in p["dims"]]), values=self.prm0[p["name"]].copy())
            df = arr.to_df(index=False)
            if self.rnd.random() < 0.5:
                df = df.sample(frac=1.0, random_state=self.rnd.randint(0, 10 ** 6))        # rows in any order
            path = os.path.join(self.tmp, f"prm_{p['name']}.{ext}")
            (df.to_excel if excel else df.to_csv)(path, index=False)
            prm_files[p["name"]] = path
        return dim_files, prm_files

    def build(self):
        rnd = self.rnd
        definition = self.definition()
        route = rnd.choice(["reader", "reader", "csv", "excel"])
        if route == "reader":
            mfa = ProgramMFA.from_data_reader(definition, MemReader(self.dimobj, self.prm0))
        else:
            self.tmp = tlcrun.reused_scratch("flodym-verif-life-")
            df, pf = self.write_files(excel=(route == "excel"))
            mfa = (ProgramMFA.from_excel if route == "excel" else ProgramMFA.from_csv)(definition, dimension_files=df, parameter_files=pf)
        mfa._model = self.model
        mfa._items = self.items
        self.mfa, self.route = mfa, route
        for s, l8 in zip(self.model["stocks"], self.life8):
            if s["kind"] not in ("dsm", "sdsm"):
                continue
            lm = mfa.stocks[s["name"]].lifetime_model
            if s["setting"] == "gl2":
                lm.n_pts_per_interval = 2
            else:
                lm.inflow_at = s["setting"]
            lm.set_prms(mean=l8 / 8)
        sysj = {"procs": [[p.name, p.id] for p in mfa.processes.values()],
                "flows": [{"name": f.name, "from": f.from_process.name, "to": f.to_process.name, "dims": list(f.dims.letters)}
                          for f in mfa.flows.values()],
                "stocks": [{"name": s.name, "proc": s.process.name if s.process is not None else "", "dims": list(s.dims.letters),
                            "kind": "dsm" if isinstance(s, flodym.InflowDrivenDSM) else ("sdsm" if isinstance(s, flodym.StockDrivenDSM) else
                                                                                  ("simple" if isinstance(s, flodym.SimpleFlowDrivenStock) else "?"))}
                           for s in mfa.stocks.values()],
                "params": [{"name": n, "dims": list(p.dims.letters)} for n, p in mfa.parameters.items()]}
        self.ev(op="build", sys=sysj, route=route)

    # ------------------------------------------------------------------ logging
    def arr(self, a):
        return {"dims": list(a.dims.letters), "flat": [frac(x) for x in np.asarray(a.values, dtype=float).ravel(order="C")]}

    def state(self):
        m, mfa = self.model, self.mfa
        return {"prm": [self.arr(mfa.parameters[p["name"]]) for p in m["params"]],
                "flw": [self.arr(mfa.flows[f["name"]]) for f in m["flows"]],
                "sin": [self.arr(mfa.stocks[s["name"]].inflow) for s in m["stocks"]],
                "sout": [self.arr(mfa.stocks[s["name"]].outflow) for s in m["stocks"]],
                "slev": [self.arr(mfa.stocks[s["name"]].stock) for s in m["stocks"]]}

    def ev(self, **kw):
        base = {"op": "", "id": 0, "pos": 0, "val": [0, 1], "tol": "", "raise": False, "outcome": "", "failing": [], "exc": [], "flagged": [],
                "kind": "", "inout": False, "procs": [], "flows": [], "stocks": [], "sys": {}, "route": "",
                "slice": [], "exclp": [], "exclf": [], "split": [], "nodes": [], "links": [], "newflat": [], "intra": "", "sub": "", "col": "", "lines": []}
        base.update(kw)
        base["state"] = self.state()
        if base["op"] != "build" and any(d > 64 or abs(n) > 4096 * max(d, 1) for k in ("prm", "flw", "sin", "sout", "slev")
                                         for a in base["state"][k] for n, d in a["flat"] if d != 0):
            raise TooBig()
        self.events.append(base)

    def has_nan(self):
        mfa = self.mfa
        return any(np.isnan(f.values).any() for f in mfa.flows.values()) or \
            any(np.isnan(a.values).any() for s in mfa.stocks.values() for a in (s.stock, s.inflow, s.outflow))

    # ------------------------------------------------------------------ events
    def do_compute(self):
        try:
            self.mfa.compute()
            self.ev(op="compute", outcome="ok")
        except Exception as e:
            self.ev(op="compute", outcome=f"raised {type(e).__name__}: {str(e)[:80]}")

    def do_set_param(self):
        rnd = self.rnd
        k = rnd.randrange(len(self.model["params"]))
        p = self.model["params"][k]
        arr = self.mfa.parameters[p["name"]]
        shape = self.shape(p["dims"])
        pos = rnd.randint(1, int(np.prod(shape)))
        idx = np.unravel_index(pos - 1, shape)
        v = rnd.choice([0, 1, 2, 3, 4, 5, 0.5, 0.25, 1.5])
        if rnd.random() < 0.5:
            arr.values[idx] = v
        else:
            arr[{l: self.items[l][i] for l, i in zip(p["dims"], idx)}] = v          # the label-keyed spelling of the same write
        self.ev(op="set_param", id=k + 1, pos=pos, val=frac(v))

    def do_set_life(self):
        rnd = self.rnd
        cand = [k for k, s in enumerate(self.model["stocks"]) if s["kind"] in ("dsm", "sdsm")]
        if not cand:
            return
        k = rnd.choice(cand)
        s = self.model["stocks"][k]
        l8 = self.rand_life(s)
        lm = self.mfa.stocks[s["name"]].lifetime_model
        form = rnd.choice(["scalar", "array", "ndarray"])
        if form == "scalar":
            lm.set_prms(mean=l8 / 8)
        elif form == "array":
            ds = self.sub_dims(s["dims"], lo=1)
            lm.set_prms(mean=flodym.FlodymArray(dims=DimensionSet(dim_list=[self.dimobj[l] for l in ds]), values=np.full(self.shape(ds), l8 / 8)))
        else:
            buf = np.full(self.shape(s["dims"]), l8 / 8)
            lm.set_prms(mean=buf)
            buf[...] = 1.0          # the caller re-uses its buffer afterwards
        self.ev(op="set_life", id=k + 1, val=[l8, 1])

    def do_edit_flow(self):
        rnd = self.rnd
        k = rnd.randrange(len(self.model["flows"]))
        f = self.model["flows"][k]
        arr = self.mfa.flows[f["name"]]
        shape = self.shape(f["dims"])
        pos = rnd.randint(1, int(np.prod(shape)))
        idx = np.unravel_index(pos - 1, shape)
        old = float(arr.values[idx])
        kind = rnd.choice(["nudge", "nudge", "neg", "nan", "int"])
        if old != old:
            v = float(rnd.randint(0, 4))
        elif kind == "nudge":
            v = old + rnd.choice([0.25, -0.25, 0.5, 1.0])
        elif kind == "neg":
            v = -rnd.choice([0.25, 1.0, 2.0])
        elif kind == "nan":
            v = float("nan")
        else:
            v = float(rnd.randint(0, 5))
        arr.values[idx] = v
        self.ev(op="edit_flow", id=k + 1, pos=pos, val=frac(v))

    def narrowed(self, dtypes):
        """Context: some flows temporarily hold the SAME numbers in a narrow dtype that represents them exactly (set through set_values,
        restored afterwards); what a check reports or a plot shows does not depend on how the numbers are stored."""
        import contextlib

        @contextlib.contextmanager
        def cm():
            saved = []
            for f in self.model["flows"]:
                arr = self.mfa.flows[f["name"]]
                v = np.asarray(arr.values)
                if v.dtype != np.float64 or np.isnan(v).any() or self.rnd.random() < 0.4:
                    continue
                for dt in dtypes:
                    with np.errstate(all="ignore"):
                        w = v.astype(dt)
                    # (signed integers only within the SYMMETRIC range: the most negative value has no negative in its own dtype - numpy's
                    #  wrap-around on -x for int8 -128 is the dtype's arithmetic, not the library's; first seen as a rejected trace in the selftest)
                    if np.issubdtype(dt, np.signedinteger) and v.size and float(np.max(np.abs(v))) > np.iinfo(dt).max:
                        continue
                    if np.array_equal(w.astype(np.float64), v):
                        saved.append((arr, v.copy()))
                        arr.set_values(w)
                        break
            try:
                yield len(saved)
            finally:
                for arr, v in saved:
                    arr.set_values(v)
        return cm()

    def logged(self, fn):
        root = logging.getLogger()
        prev = root.manager.disable
        logging.disable(logging.NOTSET)
        cap = Capture()
        root.addHandler(cap)
        old = root.level
        root.setLevel(logging.WARNING)
        raised = None
        try:
            fn()
        except ValueError as e:
            raised = str(e)
        finally:
            root.removeHandler(cap)
            root.setLevel(old)
            logging.disable(prev)
        return raised, [r.getMessage() for r in cap.records if r.levelno >= logging.WARNING]

    def do_check_mb(self):
        rnd = self.rnd
        nan = self.has_nan()
        form = rnd.choice(["half", "zero", "zero_f"] if nan else ["half", "default", "default", "zero", "zero_f"])
        tol_arg = {"half": 0.5, "default": None, "zero": 0, "zero_f": 0.0}[form]
        raise_error = rnd.random() < 0.5
        raised, msgs = self.logged(lambda: self.mfa.check_mass_balance(tolerance=tol_arg, raise_error=raise_error))
        text = raised if raised is not None else " ".join(msgs)
        failing = names_in(text, self.model["procs"])
        if (raised is not None or msgs) and not failing:
            failing = ["?"]         # the report names no process at all: only the verdict counts
        self.ev(op="check_mb", tol="half" if form == "half" else "strict", outcome="fail" if (raised is not None or msgs) else "ok",
                failing=failing)
        self.events[-1]["raise"] = raise_error

    def do_check_flows(self):
        if self.has_nan() and any(np.isnan(a.values).any() for s in self.mfa.stocks.values() for a in (s.stock,)):
            return
        if self.has_nan():
            return      # the default tolerance is undefined with a NaN among the magnitudes
        rnd = self.rnd
        names = [f["name"] for f in self.model["flows"]]
        exc = rnd.sample(names, rnd.randint(0, min(2, len(names)))) if rnd.random() < 0.5 else []
        raise_error = rnd.random() < 0.4
        if exc or rnd.random() < 0.5:
            raised, msgs = self.logged(lambda: self.mfa.check_flows(exceptions=list(exc), raise_error=raise_error))
        else:
            raised, msgs = self.logged(lambda: self.mfa.check_flows(raise_error=raise_error))
        flagged = []
        for m in msgs:
            flagged += names_in(m, names)
        if msgs and not flagged:
            flagged = ["?"]
        self.ev(op="check_flows", outcome="fail" if (raised is not None or msgs) else "ok", exc=exc, flagged=sorted(set(flagged)))
        self.events[-1]["raise"] = raise_error

    # ---- exports: projected to rows (label numbers in the order of the exported dimension letters, exact value)
    def label(self, letter, item):
        items = self.items[letter]
        for i, it in enumerate(items):
            if it == item or str(it) == str(item):
                return i + 1
        return 0

    def rows_numpy(self, values, dims):
        a = np.asarray(values, dtype=float)
        return [{"lab": [i + 1 for i in idx], "v": frac(a[idx])} for idx in np.ndindex(*a.shape)] if len(dims) == a.ndim else []

    def back(self, df, dims):
        """the exported frame read back with from_df into an array over the exported dimension letters (C19's read-back clause)"""
        try:
            a = flodym.FlodymArray.from_df(dims=DimensionSet(dim_list=[self.dimobj[l] for l in dims]), df=df.copy())
            return {"dims": list(a.dims.letters), "flat": [frac(x) for x in np.asarray(a.values, dtype=float).ravel(order="C")]}
        except Exception as e:
            return {"dims": ["?" + type(e).__name__], "flat": []}

    def rows_df(self, df, dims):
        if not isinstance(df, pd.DataFrame):
            return []
        d = df.reset_index() if not isinstance(df.index, pd.RangeIndex) or df.index.name else df
        name2letter = {n: l for l, n in getattr(self, "dimnames", NAMES).items()}
        cols = {name2letter.get(str(c), str(c)): c for c in d.columns}
        rows = []
        for _, r in d.iterrows():
            if any(l not in cols for l in dims) or "value" not in d.columns:
                return []
            rows.append({"lab": [self.label(l, r[cols[l]]) for l in dims], "v": frac(r["value"])})
        return rows

    def do_export(self):
        from flodym.export import data_writer
        rnd, m, mfa = self.rnd, self.model, self.mfa
        kind = rnd.choice(["numpy", "pandas", "pickle", "csv"])
        inout = False
        try:
            if kind in ("numpy", "pandas", "pickle"):
                if kind == "pickle":
                    if self.tmp is None:
                        self.tmp = tlcrun.reused_scratch("flodym-verif-life-")
                    path = os.path.join(self.tmp, "mfa.pickle")
                    data_writer.export_mfa_to_pickle(mfa, path)
                    import pickle
                    with open(path, "rb") as fh:
                        d = pickle.load(fh)
                else:
                    d = data_writer.convert_to_dict(mfa, type=kind)
                rows = self.rows_df if kind == "pandas" else self.rows_numpy
                flows = [{"name": n, "dims": list(d["flow_dimensions"][n]), "from": d["flow_processes"][n][0], "to": d["flow_processes"][n][1],
                          "rows": rows(v, list(d["flow_dimensions"][n])),
                          "back": self.back(v, list(d["flow_dimensions"][n])) if kind == "pandas" else {"dims": [], "flat": []}}
                         for n, v in d["flows"].items()]
                stocks = [{"name": n, "dims": list(d["stock_dimensions"][n]), "proc": d["stock_processes"].get(n, "") or "",
                           "rows": rows(v, list(d["stock_dimensions"][n])), "inrows": [], "outrows": []} for n, v in d["stocks"].items()]
                procs = list(d["processes"])
            else:
                if self.tmp is None:
                    self.tmp = tlcrun.reused_scratch("flodym-verif-life-")
                inout = rnd.random() < 0.6
                dname = os.path.join(self.tmp, "csv")           # the same directory at every export of this history
                data_writer.export_mfa_flows_to_csv(mfa, dname)
                data_writer.export_mfa_stocks_to_csv(mfa, dname, with_in_and_out=inout)

                def sane(name):
                    return re.sub(r"[-\s]", "_", re.sub(r"[^\w\s-]", "", name.lower())).strip("-_")

                def read(fn, dims):
                    path = os.path.join(dname, fn)
                    return self.rows_df(pd.read_csv(path), dims) if os.path.exists(path) else []

                def readback(fn, dims):
                    path = os.path.join(dname, fn)
                    return self.back(pd.read_csv(path), dims) if os.path.exists(path) else {"dims": ["?missing"], "flat": []}
                flows = [{"name": f["name"], "dims": list(f["dims"]), "from": m["procs"][f["from"] - 1], "to": m["procs"][f["to"] - 1],
                          "rows": read(sane(f["name"]) + ".csv", f["dims"]), "back": readback(sane(f["name"]) + ".csv", f["dims"])}
                         for f in m["flows"]]
                stocks = [{"name": s["name"], "dims": list(s["dims"]), "proc": m["procs"][s["proc"] - 1] if s["proc"] else "",
                           "rows": read(sane(s["name"]) + "_stock.csv", s["dims"]),
                           "inrows": read(sane(s["name"]) + "_inflow.csv", s["dims"]) if inout else [],
                           "outrows": read(sane(s["name"]) + "_outflow.csv", s["dims"]) if inout else []} for s in m["stocks"]]
                procs = list(m["procs"])        # (the CSV export carries no process list)
            self.ev(op="export", kind=kind, inout=inout, procs=procs, flows=flows, stocks=stocks, outcome="ok")
        except Exception as e:
            self.ev(op="export", kind=kind, inout=inout, procs=[], flows=[], stocks=[], outcome=f"raised {type(e).__name__}: {str(e)[:80]}")

    def run(self, nsteps):
        try:
            self.gen_model()
            try:
                self.build()
            except Exception as e:
                self.events.append({"op": "raised", "outcome": f"building the system raised {type(e).__name__}: {str(e)[:100]} {{C18}}"})
                return self.result()
            try:
                self.history(nsteps)
            except TooBig:
                pass                      # (the recorded history simply ends one call earlier; that call is not judged)
            except Exception as e:
                self.events.append({"op": "raised", "outcome": f"a well-formed call raised {type(e).__name__}: {str(e)[:100]} {{C05,C17,C18}}"})
        finally:
            if self.tmp:
                shutil.rmtree(self.tmp, ignore_errors=True)
        return self.result()

    def do_import_param(self):
        """new values for one parameter arrive as a table (random layout); faulty tables must be refused and change nothing"""
        rnd = self.rnd
        k = rnd.randrange(len(self.model["params"]))
        p = self.model["params"][k]
        arr = self.mfa.parameters[p["name"]]
        shape = self.shape(p["dims"])
        new = np.array([rnd.choice([0, 1, 2, 3, 4, 5, 0.5, 2.5]) for _ in range(int(np.prod(shape)))], dtype=float).reshape(shape)
        hdr = rnd.choice(["name", "letter", "mixed"])
        cols = {l: (getattr(self, "dimnames", NAMES)[l] if hdr == "name" or (hdr == "mixed" and i % 2) else l) for i, l in enumerate(p["dims"])}
        rows = [dict({cols[l]: self.items[l][i] for l, i in zip(p["dims"], idx)}, value=float(new[idx])) for idx in np.ndindex(*shape)]
        rnd.shuffle(rows)
        fault = rnd.choice(["none", "none", "none", "dup", "drop", "drop_allowed", "unknown"])
        kw = {}
        flat = [frac(x) for x in new.ravel(order="C")]
        if fault == "dup":
            rows.append(dict(rows[0]))
        elif fault in ("drop", "drop_allowed") and len(rows) > 1:
            gone = rows.pop()
            if fault == "drop_allowed":
                kw["allow_missing_values"] = True
                idx = tuple(self.items[l].index(gone[cols[l]]) for l in p["dims"])
                new[idx] = 0.0
                flat = [frac(x) for x in new.ravel(order="C")]
        elif fault == "unknown":
            bad = dict(rows[0])
            bad[cols[p["dims"][0]]] = 1234 if p["dims"][0] == "t" else "no such item"
            rows.append(bad)
        if fault in ("drop", "drop_allowed") and len(rows) == int(np.prod(shape)):
            fault = "none"          # (a one-entry parameter: nothing was dropped)
        df = pd.DataFrame(rows)
        df = df[rnd.sample(list(df.columns), len(df.columns))]          # columns in any order
        if len(p["dims"]) >= 2 and fault == "none" and rnd.random() < 0.4:
            wide = rnd.choice(p["dims"])
            df = df.pivot(index=[cols[l] for l in p["dims"] if l != wide], columns=cols[wide], values="value").reset_index()
            df.columns.name = None
        elif rnd.random() < 0.4:
            df = df.set_index([cols[l] for l in p["dims"]])
        expect_refusal = fault in ("dup", "drop", "unknown")
        try:
            arr.set_values_from_df(df, **kw)
            outcome = "ok"
        except Exception as e:
            outcome = f"raised {type(e).__name__}"
        self.ev(op="import_param", id=k + 1, outcome=outcome, kind="faulty" if expect_refusal else "valid")
        self.events[-1]["newflat"] = flat

    def do_lines(self):
        """a line plot (plotly) of one flow of the live system: one line per (subplot item, line item) along a chosen dimension"""
        from flodym.export.array_plotter import PlotlyArrayPlotter
        rnd, m = self.rnd, self.model
        cand = [k for k, f in enumerate(m["flows"]) if 1 <= len(f["dims"]) <= 3]
        if not cand or self.has_nan():
            return
        k = rnd.choice(cand)
        f = m["flows"][k]
        arr = self.mfa.flows[f["name"]]
        ds = list(f["dims"])
        roles = rnd.sample(ds, len(ds))
        intra = roles[0]
        col = roles[1] if len(roles) > 1 else ""
        sub = roles[2] if len(roles) > 2 else ""
        if len(roles) == 2 and rnd.random() < 0.5:
            col, sub = "", roles[1]
        byname = rnd.random() < 0.5
        ref = (lambda l: getattr(self, "dimnames", NAMES)[l] if byname else l)
        kw = dict(array=arr, intra_line_dim=ref(intra))
        if sub:
            kw["subplot_dim"] = ref(sub)
        if col:
            kw["linecolor_dim"] = ref(col)
        try:
            plotter = PlotlyArrayPlotter(**kw)
            fig = plotter.plot()
            axis_to_item = {}
            if sub:
                nx = plotter.nx
                ann = [a.text for a in fig.layout.annotations]
                for i, text in enumerate(ann):
                    row, colm = i // nx + 1, i % nx + 1
                    xa = fig.get_subplot(row, colm).xaxis.plotly_name.replace("axis", "")
                    item_txt = str(text).split("=", 1)[1] if "=" in str(text) else str(text)
                    axis_to_item[xa] = max([j + 1 for j, it in enumerate(self.items[sub]) if str(it) == item_txt] + [0])
            lines = []
            for tr in fig.data:
                s_ = axis_to_item.get(tr.xaxis or "x", 0) if sub else 0
                c_ = max([j + 1 for j, it in enumerate(self.items[col]) if str(it) == str(tr.name)] + [0]) if col else 0
                xs = [self.label(intra, x) for x in tr.x]
                lines.append({"s": s_, "c": c_, "x": xs, "y": [frac(y) for y in tr.y]})
            self.ev(op="lines", id=k + 1, outcome="ok", kind=f"{intra}/{sub}/{col}")
            self.events[-1].update({"intra": intra, "sub": sub, "col": col, "lines": lines})
        except Exception as e:
            self.ev(op="lines", id=k + 1, outcome=f"raised {type(e).__name__}: {str(e)[:80]}", kind=f"{intra}/{sub}/{col}")
            self.events[-1].update({"intra": intra, "sub": sub, "col": col, "lines": []})

    def do_sankey(self):
        """the Sankey diagram of the live system: random slice, exclusions and at most one flow split by one of its unsliced dimensions"""
        if self.has_nan():
            return
        from flodym.export.sankey import PlotlySankeyPlotter
        rnd, m = self.rnd, self.model
        canon = self.U["canon"]
        sl = [[l, rnd.choice(self.U["items"][l])] for l in rnd.sample(canon, rnd.choice([0, 0, 1, 1, 2]))]
        exclp = rnd.choice([["sysenv"], ["sysenv"], [], ["sysenv"] + rnd.sample(m["procs"][1:], min(1, len(m["procs"]) - 1))])
        exclf = rnd.sample([f["name"] for f in m["flows"]], rnd.choice([0, 0, 1]))
        split = []
        cand = [(f["name"], l) for f in m["flows"] for l in f["dims"] if l not in [x[0] for x in sl]]
        if cand and rnd.random() < 0.5:
            split = [list(rnd.choice(cand))]
        colors = {"default": "gray"}
        for fname, l in split:
            colors[fname] = (getattr(self, "dimnames", NAMES)[l], ["red", "green", "blue", "black", "orange"] * 8)
        kw = dict(mfa=self.mfa, slice_dict={l: self.items[l][i - 1] for l, i in sl}, exclude_flows=list(exclf), flow_color_dict=colors)
        if exclp != ["sysenv"] or rnd.random() < 0.5:
            kw["exclude_processes"] = list(exclp)           # (["sysenv"] is also the default)
        try:
            fig = PlotlySankeyPlotter(**kw).plot()
            sk = fig.data[0]
            nodes = [str(x) for x in sk.node.label]
            names = {f["name"] for f in m["flows"]}
            links = []
            for s_, t_, lab, v in zip(sk.link.source, sk.link.target, sk.link.label, sk.link.value):
                src = nodes[s_] if 0 <= s_ < len(nodes) else f"?{s_}"
                tgt = nodes[t_] if 0 <= t_ < len(nodes) else f"?{t_}"
                if lab in names:
                    links.append({"src": src, "tgt": tgt, "kind": "flow", "name": str(lab), "item": 0, "v": frac(v)})
                else:
                    it = max([self.label(l, lab) for _, l in split] + [0])
                    links.append({"src": src, "tgt": tgt, "kind": "item", "name": "", "item": it, "v": frac(v)})
            self.ev(op="sankey", outcome="ok", slice=sl, exclp=exclp, exclf=exclf, split=split, nodes=nodes, links=links)
        except Exception as e:
            self.ev(op="sankey", outcome=f"raised {type(e).__name__}: {str(e)[:80]}", slice=sl, exclp=exclp, exclf=exclf, split=split, nodes=[], links=[])

    def history(self, nsteps):
        if True:
            rnd = self.rnd
            self.do_check_mb()
            self.do_compute()
            self.do_check_mb()
            while len(self.events) < nsteps:
                r = rnd.random()
                if r < 0.22:
                    self.do_compute()
                elif r < 0.38:
                    self.do_set_param()
                elif r < 0.42:
                    self.do_import_param()
                elif r < 0.46:
                    self.do_set_life()
                elif r < 0.56:
                    self.do_edit_flow()
                elif r < 0.72:
                    self.do_check_mb()
                elif r < 0.80:
                    self.do_check_flows()
                elif r < 0.86:
                    self.do_sankey()
                elif r < 0.90:
                    self.do_lines()
                else:
                    self.do_export()
            self.do_compute()
            self.do_check_mb()
            self.do_export()

    def result(self):
        strip = [{k: v for k, v in p.items()} for p in self.model["params"]]
        return {"grid": self.grid, "model": dict(self.model, params=strip),
                "init": {"prm": [[frac(x) for x in self.prm0[p["name"]].ravel(order="C")] for p in self.model["params"]], "life8": self.life8},
                "events": self.events}


# ---------------------------------------------------------------------------------------------------------------------------
# The library's OWN example system (flodym.example_objects.ExampleMFA, the system of example 2 and of the export how-to) as a fixed
# instance of the specification: its compute() is transcribed below as program DATA; the real object runs the library's own
# compute().  Parameter values are replaced by dyadic ones (the example's 0.92 etc. are not exact in binary).
EXAMPLE_UNIVERSE = {"canon": ["t", "e"], "items": {"t": list(range(1, 32)), "e": [1, 2, 3]}}


def _example_model():
    P = lambda i: {"op": "p", "id": i}
    F = lambda i: {"op": "f", "id": i}
    mul = lambda a, b: {"op": "mul", "a": a, "b": b}
    one_minus = lambda a: {"op": "rsub", "k": [1, 1], "a": a}
    procs = ["sysenv", "shredder", "demolition", "remelting", "landfills", "slag piles"]
    params = [{"name": n, "dims": d} for n, d in (("eol machines", ["t"]), ("eol buildings", ["t"]), ("composition eol machines", ["e"]),
                                                  ("composition eol buildings", ["e"]), ("shredder yield", ["e"]), ("demolition yield", ["e"]),
                                                  ("remelting yield", ["e"]))]
    fl = [(1, 2), (1, 3), (2, 4), (2, 1), (3, 4), (3, 5), (4, 6), (4, 1)]
    flows = [{"name": f"{procs[a - 1]} => {procs[b - 1]}", "from": a, "to": b, "dims": ["t", "e"]} for a, b in fl]
    scrap = {"op": "add", "a": F(3), "b": F(5)}
    prog = [{"op": "flow", "id": 1, "e": mul(P(1), P(3))}, {"op": "flow", "id": 2, "e": mul(P(2), P(4))},
            {"op": "flow", "id": 3, "e": mul(F(1), P(5))}, {"op": "flow", "id": 4, "e": mul(F(1), one_minus(P(5)))},
            {"op": "flow", "id": 5, "e": mul(F(2), P(6))}, {"op": "flow", "id": 6, "e": mul(F(2), one_minus(P(6)))},
            {"op": "flow", "id": 8, "e": mul(scrap, P(7))}, {"op": "flow", "id": 7, "e": mul(scrap, one_minus(P(7)))},
            {"op": "sin", "id": 1, "e": F(6)}, {"op": "scompute", "id": 1},
            # (the example books "shredder => remelting" - not "remelting => slag piles" - into the slag piles: transcribed as it is)
            {"op": "sin", "id": 2, "e": F(3)}, {"op": "scompute", "id": 2}]
    stocks = [{"name": "landfills", "proc": 5, "dims": ["t", "e"], "kind": "simple", "setting": "middle"},
              {"name": "slag piles", "proc": 6, "dims": ["t", "e"], "kind": "simple", "setting": "middle"}]
    return {"procs": procs, "params": params, "flows": flows, "stocks": stocks, "prog": prog}


class ExampleProgram(Program):
    def __init__(self, seed):
        self.rnd = random.Random(seed)
        self.U = EXAMPLE_UNIVERSE
        self.n = 31
        self.grid = list(range(1980, 2011))
        self.items = {"t": list(self.grid), "e": ["Fe", "Cu", "Mn"]}
        self.events = []
        self.tmp = None
        self.conserving = False

    def gen_model(self):
        rnd = self.rnd
        self.model = _example_model()
        self.prm0 = {}
        for p in self.model["params"]:
            n = int(np.prod(self.shape(p["dims"])))
            if p["dims"] == ["t"]:
                vals = [rnd.randint(1, 40) for _ in range(n)]
            elif "composition" in p["name"]:
                vals = [0.5, 0.25, 0.25]
            else:
                vals = [rnd.choice([0, 0.25, 0.5, 0.75, 1]) for _ in range(n)]
            self.prm0[p["name"]] = np.array(vals, dtype=float).reshape(self.shape(p["dims"]))
        self.life8 = [8, 8]

    def build(self):
        from flodym.example_objects import get_example_mfa
        mfa = get_example_mfa()
        for name, v in self.prm0.items():
            mfa.parameters[name].values[...] = v
        self.dimobj = {l: mfa.dims[l] for l in ("t", "e")}
        self.dimnames = {l: mfa.dims[l].name for l in ("t", "e")}
        mfa._model, mfa._items = self.model, self.items
        self.mfa, self.route = mfa, "example"
        sysj = {"procs": [[p.name, p.id] for p in mfa.processes.values()],
                "flows": [{"name": f.name, "from": f.from_process.name, "to": f.to_process.name, "dims": list(f.dims.letters)} for f in mfa.flows.values()],
                "stocks": [{"name": s.name, "proc": s.process.name if s.process is not None else "", "dims": list(s.dims.letters), "kind": "simple"}
                           for s in mfa.stocks.values()],
                "params": [{"name": n, "dims": list(p.dims.letters)} for n, p in mfa.parameters.items()]}
        self.ev(op="build", sys=sysj, route="example")

    def do_set_life(self):
        return

    def do_check_mb(self):
        # (process names with blanks: parse the report by the known names)
        rnd = self.rnd
        nan = self.has_nan()
        form = rnd.choice(["half", "zero", "zero_f"] if nan else ["half", "default", "default", "zero", "zero_f"])
        tol_arg = {"half": 0.5, "default": None, "zero": 0, "zero_f": 0.0}[form]
        raise_error = rnd.random() < 0.5
        raised, msgs = self.logged(lambda: self.mfa.check_mass_balance(tolerance=tol_arg, raise_error=raise_error))
        text = raised if raised is not None else " ".join(msgs)
        failing = names_in(text, self.model["procs"])
        if (raised is not None or msgs) and not failing:
            failing = ["?"]
        self.ev(op="check_mb", tol="half" if form == "half" else "strict", outcome="fail" if (raised is not None or msgs) else "ok", failing=failing)
        self.events[-1]["raise"] = raise_error


def record_example_batch(ntraces, nsteps, seed):
    logging.disable(logging.CRITICAL)
    return {"universe": EXAMPLE_UNIVERSE, "traces": [ExampleProgram(seed * 7919 + k).run(nsteps) for k in range(ntraces)]}


def record_batch(uid, ntraces, nsteps, seed):
    logging.disable(logging.CRITICAL)        # (the library warns about zero inflows etc.; the checks' own reports are captured in logged())
    traces = [Program(uid, seed * 100003 + uid * 1009 + k).run(nsteps) for k in range(ntraces)]
    return {"universe": UNIVERSES[uid], "traces": traces}


_ACC = re.compile(r'^<<"ACCEPTED", (\d+)>>')
_REJ = re.compile(r'^<<"REJECTED", (\d+), (\d+), "(.*)">>')


def validate_batch(batch, workers=4):
    tmp = tlcrun.scratch_dir()
    try:
        path = os.path.join(tmp, "traces.json")
        with open(path, "w") as f:
            json.dump(batch, f)
        lines = []
        cfg = ("SPECIFICATION TraceSpec\nINVARIANT Verdict\nINVARIANT MirrorInv\nINVARIANT ProgramOK\nINVARIANT AfterCompute\n"
               "CHECK_DEADLOCK FALSE\n")
        res = tlcrun.run_tlc("Trace_Lifecycle.tla", cfg, workers=workers, env={"TRACE_FILE": path}, line_sink=lines.append)
    finally:
        shutil.rmtree(tmp, ignore_errors=True)
    if res.violation:
        raise Machinery(f"lifecycle trace validation: TLC reports {res.violation}\n{res.tail[-2500:]}")
    acc, rej = set(), {}
    for ln in lines:
        m = _ACC.match(ln)
        if m:
            acc.add(int(m.group(1)))
        m = _REJ.match(ln)
        if m:
            rej[int(m.group(1))] = (int(m.group(2)), m.group(3))
    n = len(batch["traces"])
    if acc | set(rej) != set(range(1, n + 1)):
        raise Machinery(f"lifecycle trace validation gave no verdict for traces {sorted(set(range(1, n + 1)) - acc - set(rej))[:10]}")
    return acc, rej, res
