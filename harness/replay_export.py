"""Direction A for spec/mc/MC_Export.tla: exports (C19) and plots (C20)."""

import json
import os
import pickle
import shutil
import tempfile

import numpy as np
import pandas as pd

from .universe import flodym, Dimension, DimensionSet, FlodymArray

CANON = ["t", "r", "e"]
DIMOBJ = {
    "t": Dimension(name="Time", letter="t", items=[2000, 2010], dtype=int),
    "r": Dimension(name="Region", letter="r", items=["north", "mid", "south"], dtype=str),
    "e": Dimension(name="Element", letter="e", items=["Fe", "Cu"], dtype=str),
}
DIMS = DimensionSet(dim_list=[DIMOBJ[l] for l in CANON])
# the same letters, names and lengths with OTHER items: every third vector is replayed a second time on these, in the
# same process (nothing remembered from an earlier export / plot may leak into a later one)
DIMSETS = [DIMOBJ, {
    "t": Dimension(name="Time", letter="t", items=[1990, 2005], dtype=int),
    "r": Dimension(name="Region", letter="r", items=["west", "east", "centre"], dtype=str),
    # (string items that are all digits: a CSV reader parses them as integers)
    "e": Dimension(name="Element", letter="e", items=["13", "30"], dtype=str),
}]


def gsum(g, letters, idx):
    tot = 0
    for t, v in g:
        if all(t[CANON.index(l)] - 1 == i for l, i in zip(letters, idx)):
            tot += v
    return tot


def fill(arr, letters, coef, g):
    for idx in np.ndindex(*arr.values.shape):
        arr.values[idx] = float(coef * gsum(g, letters, idx))


def build(S):
    procs = flodym.make_processes(S["procs"])
    fdefs = []
    for f in sorted(S["flows"], key=lambda x: x["id"]):
        generated = f"{f['from']} => {f['to']}"
        fdefs.append(flodym.FlowDefinition(from_process_name=f["from"], to_process_name=f["to"], dim_letters=tuple(f["dims"]),
                                           name_override=None if generated == f["name"] else f["name"]))
    flows = flodym.make_empty_flows(processes=procs, flow_definitions=fdefs, dims=DIMS)
    sdefs = [flodym.StockDefinition(name=s["name"], process=(s["process"] or None), dim_letters=tuple(s["dims"]),
                                    subclass=flodym.SimpleFlowDrivenStock, time_letter="t")
             for s in sorted(S["stocks"], key=lambda x: x["id"])]
    stocks = flodym.make_empty_stocks(stock_definitions=sdefs, processes=procs, dims=DIMS)
    if len(S["flows"]) % 2:
        # every second system: stocks assembled by the user from own arrays (which carry the default name "unnamed")
        for s in S["stocks"]:
            sd = DIMS.get_subset(tuple(s["dims"]))
            stocks[s["name"]] = flodym.SimpleFlowDrivenStock(
                dims=sd, name=s["name"], process=(procs[s["process"]] if s["process"] else None), time_letter="t",
                stock=flodym.StockArray(dims=sd), inflow=flodym.StockArray(dims=sd), outflow=flodym.StockArray(dims=sd))
    mfa = flodym.MFASystem(dims=DIMS, parameters={}, processes=procs, flows=flows, stocks=stocks)
    for f in S["flows"]:
        fill(mfa.flows[f["name"]], f["dims"], f["coef"], S["g"])
    for s in S["stocks"]:
        st = mfa.stocks[s["name"]]
        fill(st.inflow, s["dims"], s["cin"], S["g"])
        fill(st.outflow, s["dims"], s["cout"], S["g"])
        fill(st.stock, s["dims"], s["level"], S["g"])
    # every second array holds its values in a non-C-contiguous buffer (as after set_values(x.T) or a cast):
    # exports must go by label, not by memory order
    k = 0
    for f in mfa.flows.values():
        k += 1
        if k % 2 == 0 and f.values.ndim >= 2:
            f.set_values(np.asfortranarray(f.values.copy()))
    for st in mfa.stocks.values():
        if st.stock.values.ndim >= 2:
            st.stock.set_values(np.asfortranarray(st.stock.values.copy()))
            st.inflow.set_values(np.asfortranarray(st.inflow.values.copy()))
    definition = flodym.MFADefinition(
        dimensions=[flodym.DimensionDefinition(name=DIMOBJ[l].name, letter=l, dtype=DIMOBJ[l].dtype) for l in CANON],
        processes=list(S["procs"]), flows=fdefs, stocks=sdefs, parameters=[])
    return mfa, definition


def expected_array(letters, entries):
    a = np.zeros(tuple(len(DIMOBJ[l].items) for l in letters))
    for t, v in entries:
        a[tuple(t[CANON.index(l)] - 1 for l in letters)] = float(v)
    return a


def system_snapshot(mfa):
    out = {}
    for n, f in mfa.flows.items():
        out["f:" + n] = (tuple(f.dims.letters), f.values.copy(), f.from_process.name, f.to_process.name)
    for n, s in mfa.stocks.items():
        out["s:" + n] = (tuple(s.dims.letters), s.stock.values.copy(), s.inflow.values.copy(), s.outflow.values.copy())
    out["procs"] = [(p.name, p.id) for p in mfa.processes.values()]
    out["dims"] = [(d.letter, d.name, tuple(d.items)) for d in mfa.dims]
    return out


def snapshots_equal(a, b):
    if a.keys() != b.keys():
        return False
    for k in a:
        x, y = a[k], b[k]
        if isinstance(x, tuple):
            for u, v in zip(x, y):
                if isinstance(u, np.ndarray):
                    if not np.array_equal(u, v):
                        return False
                elif u != v:
                    return False
        elif x != y:
            return False
    return True


def run_export(vec):
    from flodym.export import data_writer
    from flodym.export.helper import to_valid_file_name
    S = vec["sys"]
    tag = f"[flows {sorted(f['name'] for f in S['flows'])}, stocks {sorted(s['name'] for s in S['stocks'])}] {{C19}} "
    problems = []
    try:
        mfa, definition = build(S)
    except Exception as e:
        return [tag + f"building the system raised {type(e).__name__}: {str(e)[:200]}"]
    before = system_snapshot(mfa)
    exp = vec["dict"]
    exp_flows = {n: (dims, fr, to, expected_array(dims, vals)) for n, dims, fr, to, vals in exp["flows"]}
    exp_stocks = {n: (dims, proc, expected_array(dims, vals)) for n, dims, proc, vals in exp["stocks"]}
    tmp = tempfile.mkdtemp(prefix="flodym-verif-exp-")
    try:
        for form in ("numpy", "pandas", "pickle"):
            try:
                if form == "pickle":
                    path = os.path.join(tmp, "mfa.pickle")
                    data_writer.export_mfa_to_pickle(mfa, path)
                    with open(path, "rb") as fh:
                        d = pickle.load(fh)
                else:
                    d = data_writer.convert_to_dict(mfa, type=form)
            except Exception as e:
                problems.append(tag + f"{form} export raised {type(e).__name__}: {str(e)[:160]}")
                continue
            t = tag + f"{form}: "
            if d.get("dimension_names") != {l: DIMOBJ[l].name for l in CANON} or \
                    {k: list(v) for k, v in d.get("dimension_items", {}).items()} != {DIMOBJ[l].name: DIMOBJ[l].items for l in CANON}:
                problems.append(t + "dimension letters / names / items differ")
            if list(d.get("processes", [])) != list(exp["processes"]):
                problems.append(t + f"process list {d.get('processes')}")
            if set(d.get("flows", {})) != set(exp_flows) or set(d.get("stocks", {})) != set(exp_stocks):
                problems.append(t + f"flows {sorted(d.get('flows', {}))} / stocks {sorted(d.get('stocks', {}))} are not exactly the system's")
                continue
            for n, (dims, fr, to, vals) in exp_flows.items():
                if tuple(d["flow_dimensions"][n]) != tuple(dims) or tuple(d["flow_processes"][n]) != (fr, to):
                    problems.append(t + f"flow {n!r}: dimensions {d['flow_dimensions'][n]} / processes {d['flow_processes'][n]}")
                got = d["flows"][n]
                if form == "pandas":
                    try:
                        got = FlodymArray.from_df(dims=DimensionSet(dim_list=[DIMOBJ[l] for l in dims]), df=got).values
                    except Exception as e:
                        problems.append(t + f"flow {n!r}: the exported frame cannot be read back: {str(e)[:120]}")
                        continue
                if np.shape(got) != vals.shape or not np.array_equal(np.asarray(got, dtype=float), vals):
                    problems.append(t + f"flow {n!r}: values differ from the system's under their labels")
            for n, (dims, proc, vals) in exp_stocks.items():
                if tuple(d["stock_dimensions"][n]) != tuple(dims):
                    problems.append(t + f"stock {n!r}: dimensions")
                if (d["stock_processes"].get(n, "") or "") != proc:
                    problems.append(t + f"stock {n!r}: process {d['stock_processes'].get(n)!r} != {proc!r}")
                got = d["stocks"][n]
                if form == "pandas":
                    try:
                        got = FlodymArray.from_df(dims=DimensionSet(dim_list=[DIMOBJ[l] for l in dims]), df=got).values
                    except Exception as e:
                        problems.append(t + f"stock {n!r}: the exported frame cannot be read back: {str(e)[:120]}")
                        continue
                if np.shape(got) != vals.shape or not np.array_equal(np.asarray(got, dtype=float), vals):
                    problems.append(t + f"stock {n!r}: values differ from the system's under their labels")
        # ---- CSV files: one per flow and per exported stock quantity, readable back with from_df.
        # Round 2: all values of the system are doubled in place and the export is repeated INTO THE SAME DIRECTORIES:
        # the files then hold the current values (dict_doubled), nothing of the first export remains.
        unchanged_after_round1 = True
        for round_no in (1, 2):
          if round_no == 2:
            if "dict_doubled" not in vec:
                break
            unchanged_after_round1 = snapshots_equal(before, system_snapshot(mfa))
            for f in mfa.flows.values():
                f.values[...] = 2 * f.values
            for st in mfa.stocks.values():
                for a in (st.stock, st.inflow, st.outflow):
                    a.values[...] = 2 * a.values
            exp2 = vec["dict_doubled"]
            exp_flows = {n: (dims, fr, to, expected_array(dims, vals)) for n, dims, fr, to, vals in exp2["flows"]}
            tag = tag.replace("] {C19}", ", second export into the same directory after doubling all values] {C19}")
          fac = float(round_no)
          for with_io, quantities in ((False, vec["csv_plain"]), (True, vec["csv_full"])):
              d1 = os.path.join(tmp, f"csv_{with_io}")
              try:
                  data_writer.export_mfa_flows_to_csv(mfa, d1)
                  data_writer.export_mfa_stocks_to_csv(mfa, d1, with_in_and_out=with_io)
              except Exception as e:
                  problems.append(tag + f"csv export raised {type(e).__name__}: {str(e)[:160]}")
                  continue
              files = sorted(os.listdir(d1))
              if len(files) != len(quantities):
                  problems.append(tag + f"csv export (with_in_and_out={with_io}) wrote {len(files)} files for {len(quantities)} flows / stock "
                                        f"quantities: {files}")
              for kind, name, q in quantities:
                  fn = to_valid_file_name(name) + (".csv" if kind == "flow" else f"_{q}.csv")
                  path = os.path.join(d1, fn)
                  if kind == "flow":
                      dims, _, _, vals = exp_flows[name]
                  else:
                      s = next(s for s in S["stocks"] if s["name"] == name)
                      dims = s["dims"]
                      st = mfa.stocks[name]
                      vals = fac * {"stock": before["s:" + name][1], "inflow": before["s:" + name][2], "outflow": before["s:" + name][3]}[q]
                  if not os.path.exists(path):
                      problems.append(tag + f"csv export: no file for {kind} {name!r} {q}")
                      continue
                  try:
                      back = FlodymArray.from_df(dims=DimensionSet(dim_list=[DIMOBJ[l] for l in dims]), df=pd.read_csv(path)).values
                      if not np.array_equal(back, vals):
                          problems.append(tag + f"csv export: file of {kind} {name!r} {q} does not hold its values under their labels")
                  except Exception as e:
                      problems.append(tag + f"csv export: file of {kind} {name!r} {q} cannot be read back: {str(e)[:120]}")
        if not unchanged_after_round1:
            problems.append(tag.replace("{C19}", "{C19,C15}") + "exporting altered the system")
        # ---- MFADefinition.to_dfs: one table per non-empty kind, one row per definition with its field values
        try:
            dfs = definition.to_dfs()
            want = {"dimensions": 3, "processes": len(S["procs"]), "flows": len(S["flows"]), "stocks": len(S["stocks"])}
            want = {k: v for k, v in want.items() if v}
            if {k: len(v) for k, v in dfs.items()} != want:
                problems.append(tag + f"to_dfs tables {dict((k, len(v)) for k, v in dfs.items())} != one row per definition {want}")
            else:
                fl = dfs.get("flows")
                if fl is not None:
                    got = sorted((r["from_process_name"], r["to_process_name"], tuple(r["dim_letters"])) for _, r in fl.iterrows())
                    exp_rows = sorted((f["from"], f["to"], tuple(f["dims"])) for f in S["flows"])
                    if got != exp_rows:
                        problems.append(tag + "to_dfs flow table does not hold the definitions' field values")
                if list(dfs["processes"]["name"]) != list(S["procs"]):
                    problems.append(tag + "to_dfs process table")
        except Exception as e:
            problems.append(tag + f"to_dfs raised {type(e).__name__}: {str(e)[:120]}")
    finally:
        shutil.rmtree(tmp, ignore_errors=True)
    return problems[:6]


def run_sankey(vec):
    from flodym.export.sankey import PlotlySankeyPlotter
    S = vec["sys"]
    tag = f"[slice {vec['slice']}, exclude_processes {vec['exclp']}, exclude_flows {vec['exclf']}, split {vec['split']}] {{C20}} "
    try:
        mfa, _ = build(S)
        slice_dict = {l: DIMOBJ[l].items[i - 1] for l, i in vec["slice"]}
        colors = {"default": "gray"}
        for fname, l in vec["split"]:
            colors[fname] = (DIMOBJ[l].name, ["red", "green", "blue", "black"])
        before = system_snapshot(mfa)
        plotter = PlotlySankeyPlotter(mfa=mfa, slice_dict=slice_dict, exclude_processes=list(vec["exclp"]),
                                      exclude_flows=list(vec["exclf"]), flow_color_dict=colors)
        fig = plotter.plot()
        sk = fig.data[0]
        nodes = list(sk.node.label)
        got = sorted((nodes[s], nodes[t], str(lab), round(float(v), 9)) for s, t, lab, v in
                     zip(sk.link.source, sk.link.target, sk.link.label, sk.link.value))
    except Exception as e:
        return [tag + f"plotting raised {type(e).__name__}: {str(e)[:200]}"]
    problems = []
    if nodes != list(vec["nodes"]):
        problems.append(tag + f"nodes {nodes} != shown processes {vec['nodes']}")

    def wanted(links):
        want = []
        for src, tgt, lab, v in links:
            label = lab[1] if lab[0] == "flow" else str(DIMOBJ[lab[1]].items[lab[2] - 1])
            want.append((src, tgt, str(label), round(float(v), 9)))
        return sorted(want)

    want = wanted(vec["links"])
    if got != want:
        diff = [x for x in got if x not in want][:2], [x for x in want if x not in got][:2]
        problems.append(tag + f"links differ: shown but wrong {diff[0]}, expected but missing {diff[1]}")
    if not snapshots_equal(before, system_snapshot(mfa)):
        problems.append(tag.replace("{C20}", "{C15}") + "plotting altered the system")
    # ---- the system's values change in place (all doubled), the SAME plotter plots again
    if "links_doubled" in vec and not problems:
        try:
            for f in mfa.flows.values():
                f.values[...] = 2 * f.values
            fig = plotter.plot()
            sk = fig.data[0]
            nodes = list(sk.node.label)
            got = sorted((nodes[s], nodes[t], str(lab), round(float(v), 9)) for s, t, lab, v in
                         zip(sk.link.source, sk.link.target, sk.link.label, sk.link.value))
            want = wanted(vec["links_doubled"])
            if got != want:
                diff = [x for x in got if x not in want][:2], [x for x in want if x not in got][:2]
                problems.append(tag + f"second plot() of the same plotter after the flows were doubled in place: shown but wrong {diff[0]}, "
                                      f"expected but missing {diff[1]}")
        except Exception as e:
            problems.append(tag + f"second plot() raised {type(e).__name__}: {str(e)[:200]}")
    return problems


def line_val(letters, idx):
    lab = {l: i + 1 for l, i in zip(letters, idx)}
    if lab.get("r", 0) == 2:
        return 0.0
    return float(1 + 10 * lab.get("t", 0) + 3 * lab.get("r", 0) + 100 * lab.get("e", 0))


def run_lines(vec):
    import matplotlib
    matplotlib.use("Agg")
    from matplotlib import pyplot as plt
    from flodym.export.array_plotter import PlotlyArrayPlotter, PyplotArrayPlotter
    ds = vec["ds"]
    dims = DimensionSet(dim_list=[DIMOBJ[l] for l in ds])
    vals = np.zeros(tuple(len(DIMOBJ[l].items) for l in ds))
    for idx in np.ndindex(*vals.shape):
        vals[idx] = line_val(ds, idx)
    arr = FlodymArray(dims=dims, values=vals, name="quantity")
    ref = (lambda l: DIMOBJ[l].name if vec["byname"] else l)
    intra, sub, col = vec["intra"], vec["subplot"], vec["linecolor"]
    chart = vec.get("chart", "line")
    kw = dict(array=arr, intra_line_dim=ref(intra), chart_type=chart)
    if sub:
        kw["subplot_dim"] = ref(sub)
    if col:
        kw["linecolor_dim"] = ref(col)
    xvals = None
    if vec["xarr"] == "same":
        xvals = FlodymArray(dims=dims, values=2 * vals + 1, name="xq")
        kw["x_array"] = xvals
    elif vec["xarr"] == "reversed":
        # the x array stores the same dimensions in the REVERSED order (its entries are matched by label, not by position)
        rds = list(reversed(ds))
        xv = np.zeros(tuple(len(DIMOBJ[l].items) for l in rds))
        for idx in np.ndindex(*xv.shape):
            xv[idx] = 2 * line_val(ds, tuple(idx[rds.index(l)] for l in ds)) + 1
        xvals = FlodymArray(dims=DimensionSet(dim_list=[DIMOBJ[l] for l in rds]), values=xv, name="xq")
        kw["x_array"] = xvals
    elif vec["xarr"] == "intra_only":
        xvals = FlodymArray(dims=DimensionSet(dim_list=[DIMOBJ[intra]]), values=1000.0 + np.arange(len(DIMOBJ[intra].items)), name="xq")
        kw["x_array"] = xvals
    tag = f"[dims {ds}, intra {intra}, subplot {sub or '-'}, linecolor {col or '-'}, by {'name' if vec['byname'] else 'letter'}, x {vec['xarr']}, chart {chart}] {{C20}} "

    def expected_x(s, c):
        if xvals is None:
            return list(DIMOBJ[intra].items)
        out = []
        for k in range(len(DIMOBJ[intra].items)):
            lab = {intra: k}
            if sub:
                lab[sub] = s - 1
            if col:
                lab[col] = c - 1
            out.append(float(xvals.values[tuple(lab[l] for l in xvals.dims.letters)]))
        return out

    want = {}
    for s, c, ys in vec["lines"]:
        want[(s, c)] = ([float(y) for y in ys], expected_x(s, c))
    problems = []
    for backend in ("plotly", "pyplot"):
        if backend == "pyplot" and chart == "area":
            continue        # (fill_between polygons are not read back; area charts are checked on the plotly traces)
        try:
            plotter = (PlotlyArrayPlotter if backend == "plotly" else PyplotArrayPlotter)(**kw)
            fig = plotter.plot()
            got = {}
            if backend == "plotly":
                nx, ny = plotter.nx, plotter.ny
                # subplot titles are laid out row by row by make_subplots: cell (row, col) -> title index
                axis_to_item = {}
                if sub:
                    titles = [f"{ref(sub)}={it}" for it in DIMOBJ[sub].items]
                    ann = [a.text for a in fig.layout.annotations]
                    if ann != titles:
                        problems.append(tag + f"{backend}: subplot titles {ann}")
                    for i in range(len(titles)):
                        row, colm = i // nx + 1, i % nx + 1
                        xa = fig.get_subplot(row, colm).xaxis.plotly_name.replace("axis", "")
                        axis_to_item[xa] = i + 1
                for tr in fig.data:
                    s = axis_to_item.get(tr.xaxis or "x", None) if sub else 0
                    if s is None:
                        problems.append(tag + f"{backend}: a line sits in a subplot without title")
                        continue
                    c = (list(map(str, DIMOBJ[col].items)).index(str(tr.name)) + 1) if col else 0
                    got[(s, c)] = ([float(v) for v in tr.y], list(tr.x))
            else:
                axes = fig.axes
                for i, ax in enumerate(axes):
                    if chart == "scatter":
                        if not ax.collections:
                            continue
                        s = 0
                        if sub:
                            s = [f"{ref(sub)}={it}" for it in DIMOBJ[sub].items].index(ax.get_title()) + 1
                        for pc in ax.collections:
                            c = (list(map(str, DIMOBJ[col].items)).index(str(pc.get_label())) + 1) if col else 0
                            off = np.asarray(pc.get_offsets())
                            got[(s, c)] = ([float(v) for v in off[:, 1]], [float(v) for v in off[:, 0]])
                        continue
                    if not ax.lines:
                        continue
                    s = 0
                    if sub:
                        title = ax.get_title()
                        s = [f"{ref(sub)}={it}" for it in DIMOBJ[sub].items].index(title) + 1
                    for ln in ax.lines:
                        c = (list(map(str, DIMOBJ[col].items)).index(str(ln.get_label())) + 1) if col else 0
                        got[(s, c)] = ([float(v) for v in ln.get_ydata()], list(ln.get_xdata()))
                plt.close(fig)
            if set(got) != set(want):
                problems.append(tag + f"{backend}: lines drawn for (subplot, line) {sorted(got)} != {sorted(want)}")
                continue
            for k, (ys, xs) in want.items():
                gy, gx = got[k]
                if gy != ys:
                    problems.append(tag + f"{backend}: line {k}: y {gy} != the array's entries {ys}")
                    break
                if backend == "pyplot" and chart == "scatter" and any(isinstance(v, str) for v in xs):
                    xs = list(range(len(xs)))      # matplotlib places categories at 0, 1, 2, ... in the order given
                if [str(v) for v in gx] != [str(v) for v in xs] and [float(v) for v in gx] != [float(v) for v in xs]:
                    problems.append(tag + f"{backend}: line {k}: x {gx} != {xs}")
                    break
        except Exception as e:
            problems.append(tag + f"{backend}: raised {type(e).__name__}: {str(e)[:200]}")
    return problems[:4]


def run_large_export(case):
    """The read-back clause of C19 on a LARGE instance (a time grid of hundreds of years, a region list of > 127 items):
    every pandas table of convert_to_dict and every CSV file, read back with from_df, is the system's array."""
    from flodym.export import data_writer
    from flodym.export.helper import to_valid_file_name
    n_time, n_reg = case
    t = Dimension(name="Time", letter="t", items=list(range(1850, 1850 + n_time)), dtype=int)
    r = Dimension(name="Region", letter="r", items=[f"reg{i:03d}" for i in range(n_reg)], dtype=str)
    dims = DimensionSet(dim_list=[t, r])
    procs = flodym.make_processes(["sysenv", "use", "waste"])
    fdefs = [flodym.FlowDefinition(from_process_name="sysenv", to_process_name="use", dim_letters=("t", "r")),
             flodym.FlowDefinition(from_process_name="use", to_process_name="waste", dim_letters=("r", "t")),
             flodym.FlowDefinition(from_process_name="waste", to_process_name="sysenv", dim_letters=("t",))]
    flows = flodym.make_empty_flows(processes=procs, flow_definitions=fdefs, dims=dims)
    sdefs = [flodym.StockDefinition(name="in use", process="use", dim_letters=("t", "r"), subclass=flodym.SimpleFlowDrivenStock, time_letter="t")]
    stocks = flodym.make_empty_stocks(stock_definitions=sdefs, processes=procs, dims=dims)
    mfa = flodym.MFASystem(dims=dims, parameters={}, processes=procs, flows=flows, stocks=stocks)
    rng = np.random.default_rng(n_time * 977 + n_reg)
    arrays = {}
    for n, f in mfa.flows.items():
        f.values[...] = rng.integers(1, 10 ** 6, size=f.values.shape).astype(float) + 0.25
        arrays[("flow", n, "")] = f
    st = mfa.stocks["in use"]
    for q in ("stock", "inflow", "outflow"):
        a = getattr(st, q)
        a.values[...] = rng.integers(1, 10 ** 6, size=a.values.shape).astype(float) + 0.75
        arrays[("stock", "in use", q)] = a
    tag = f"[large instance: {n_time} years x {n_reg} regions] {{C19}} "
    problems = []
    tmp = tempfile.mkdtemp(prefix="flodym-verif-bigexp-")
    try:
        d = data_writer.convert_to_dict(mfa, type="pandas")
        for n, f in mfa.flows.items():
            back = FlodymArray.from_df(dims=f.dims, df=d["flows"][n]).values
            if not np.array_equal(back, f.values):
                problems.append(tag + f"pandas form of flow {n!r} read back with from_df differs in {int(np.sum(back != f.values))} of {f.values.size} entries")
        back = FlodymArray.from_df(dims=st.stock.dims, df=d["stocks"]["in use"]).values
        if not np.array_equal(back, st.stock.values):
            problems.append(tag + "pandas form of the stock read back with from_df differs")
        data_writer.export_mfa_flows_to_csv(mfa, tmp)
        data_writer.export_mfa_stocks_to_csv(mfa, tmp, with_in_and_out=True)
        for (kind, n, q), a in arrays.items():
            fn = to_valid_file_name(n) + (".csv" if kind == "flow" else f"_{q}.csv")
            back = FlodymArray.from_df(dims=a.dims, df=pd.read_csv(os.path.join(tmp, fn))).values
            if not np.array_equal(back, a.values):
                problems.append(tag + f"CSV file of {kind} {n!r} {q} read back with from_df differs in {int(np.sum(back != a.values))} of {a.values.size} entries")
    except Exception as ex:
        problems.append(tag + f"export / read back raised {type(ex).__name__}: {str(ex)[:160]}")
    finally:
        shutil.rmtree(tmp, ignore_errors=True)
    return problems[:3]


def run_vector(vec):
    global DIMOBJ, DIMS
    fn = {"export": run_export, "sankey": run_sankey, "lines": run_lines}[vec["op"]]
    problems = fn(vec)
    if not problems and len(json.dumps(vec, sort_keys=True)) % 3 == 0:
        DIMOBJ = DIMSETS[1]
        DIMS = DimensionSet(dim_list=[DIMOBJ[l] for l in CANON])
        try:
            problems = ["[same letters, names and lengths, other items] " + p for p in fn(vec)]
        finally:
            DIMOBJ = DIMSETS[0]
            DIMS = DimensionSet(dim_list=[DIMOBJ[l] for l in CANON])
    elif not problems and vec["op"] == "lines" and vec["intra"] == "t" and len(json.dumps(vec, sort_keys=True)) % 3 == 1:
        # the dimension along the lines holds NUMPY scalars as items (list(np.arange(...)) is a common way to write years):
        # the x-data are still that dimension's items
        DIMOBJ = dict(DIMSETS[0], t=Dimension(name="Time", letter="t", items=list(np.array([1990, 2005]))))
        DIMS = DimensionSet(dim_list=[DIMOBJ[l] for l in CANON])
        try:
            problems = ["[time items are numpy integers] " + p for p in fn(vec)]
        finally:
            DIMOBJ = DIMSETS[0]
            DIMS = DimensionSet(dim_list=[DIMOBJ[l] for l in CANON])
    elif not problems and vec["op"] == "export" and len(json.dumps(vec, sort_keys=True)) % 3 == 1:
        # the same system under other NAMES (names are opaque): two processes whose names differ only in an accented letter, and the
        # opposing flow named by the arrow rule - one file per flow must still be written, every name spelled as given
        import re
        txt = json.dumps(vec, ensure_ascii=False).replace("B: back (to use)", "B => use phase").replace("use phase", "Müller GmbH")
        txt = re.sub(r"\bB\b", "Möller GmbH", txt)
        problems = ["[process names Müller GmbH / Möller GmbH] " + p for p in fn(json.loads(txt))]
    return problems
