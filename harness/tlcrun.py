"""Run TLC on a model of /verif/spec and collect statistics, coverage and emitted vectors."""

import json
import os
import re
import shutil
import subprocess
import tempfile
import time

VERIF = os.path.dirname(os.path.dirname(os.path.abspath(__file__)))
SPEC = os.path.join(VERIF, "spec")
JAR = "/opt/veriftools/tla/tla2tools.jar:/opt/veriftools/tla/CommunityModules-deps.jar"
LIBPATH = os.pathsep.join([SPEC, os.path.join(SPEC, "mc"), os.path.join(SPEC, "trace")])


class TLCError(Exception):
    pass


def scratch_dir(prefix="flodym-verif-"):
    base = os.environ.get("VERIF_SCRATCH") or tempfile.gettempdir()
    return tempfile.mkdtemp(prefix=prefix, dir=base)


def reused_scratch(prefix):
    """a scratch directory with the SAME path for everything this process does under that prefix (the caller removes it after each
    use): files of different content are written to and read from one path again and again, as in a scenario loop that regenerates
    its input files - anything the library remembers about a PATH must not leak from one read to the next"""
    path = os.path.join(os.environ.get("VERIF_SCRATCH") or tempfile.gettempdir(), f"{prefix}{os.getpid()}")
    shutil.rmtree(path, ignore_errors=True)
    os.makedirs(path)
    return path


def cfg_text(spec="Spec", constants=None, invariants=(), properties=(), constraints=(),
             action_constraints=(), deadlock=False, extra=""):
    lines = [f"SPECIFICATION {spec}"]
    if constants:
        lines.append("CONSTANTS")
        for k, v in constants.items():
            lines.append(f"  {k} = {tla_value(v)}")
    for i in invariants:
        lines.append(f"INVARIANT {i}")
    for p in properties:
        lines.append(f"PROPERTY {p}")
    for c in constraints:
        lines.append(f"CONSTRAINT {c}")
    for c in action_constraints:
        lines.append(f"ACTION_CONSTRAINT {c}")
    lines.append(f"CHECK_DEADLOCK {'TRUE' if deadlock else 'FALSE'}")
    if extra:
        lines.append(extra)
    return "\n".join(lines) + "\n"


def tla_value(v):
    if isinstance(v, bool):
        return "TRUE" if v else "FALSE"
    if isinstance(v, int):
        return str(v)
    if isinstance(v, str):
        return '"' + v + '"'
    if isinstance(v, (set, frozenset)):
        return "{" + ", ".join(tla_value(x) for x in sorted(v, key=repr)) + "}"
    if isinstance(v, (list, tuple)):
        return "<<" + ", ".join(tla_value(x) for x in v) + ">>"
    raise TypeError(v)


_VEC_PREFIX = '<<"VEC", "'


def parse_vec_line(line):
    inner = line[len(_VEC_PREFIX):-3]
    return json.loads(json.loads('"' + inner + '"'))


class TLCResult:
    def __init__(self):
        self.generated = 0
        self.distinct = 0
        self.depth = 0
        self.vectors = []
        self.coverage = {}
        self.ok = False
        self.violation = None  # text of an invariant / property violation reported by TLC
        self.wall = 0.0
        self.tail = ""
        self.cmd = ""


def run_tlc(module, cfg, workers=16, coverage=False, simulate=None, depth=None, seed=None,
            timeout=3600, keep_vectors=True, extra_args=(), vec_sink=None, java_opts=(), env=None, line_sink=None):
    """module: file name under spec/mc or spec/trace (or absolute path).  cfg: text of the config."""
    path = module
    if not os.path.isabs(path):
        for d in (os.path.join(SPEC, "mc"), os.path.join(SPEC, "trace"), SPEC):
            if os.path.exists(os.path.join(d, module)):
                path = os.path.join(d, module)
                break
    if not os.path.exists(path):
        raise TLCError(f"module not found: {module}")
    tmp = scratch_dir()
    res = TLCResult()
    try:
        cfgp = os.path.join(tmp, "model.cfg")
        with open(cfgp, "w") as f:
            f.write(cfg)
        # many small models run concurrently: the serial collector and a small heap avoid the thread
        # oversubscription of 16 parallel-GC threads per JVM (measured: 10 s -> 6 s for 6 concurrent models)
        gc = ["-XX:+UseSerialGC", "-Xmx4g"] if workers <= 4 else ["-XX:+UseParallelGC", "-Xmx12g"]
        cmd = ["java", *gc, f"-DTLA-Library={LIBPATH}", *java_opts, "-cp", JAR,
               "tlc2.TLC", "-workers", str(workers), "-metadir", os.path.join(tmp, "meta"),
               "-noGenerateSpecTE", "-config", cfgp]
        if coverage:
            cmd += ["-coverage", "1"]
        if simulate is not None:
            cmd += ["-simulate", simulate]
        if depth is not None:
            cmd += ["-depth", str(depth)]
        if seed is not None:
            cmd += ["-seed", str(seed)]
        cmd += list(extra_args)
        cmd.append(path)
        res.cmd = " ".join(cmd)
        t0 = time.time()
        penv = dict(os.environ)
        if env:
            penv.update(env)
        proc = subprocess.Popen(cmd, cwd=tmp, stdout=subprocess.PIPE, stderr=subprocess.STDOUT,
                                text=True, bufsize=1 << 20, env=penv)
        other = []
        pending = None      # TLC pretty-prints long tuples over several lines: join them before handing them on
        try:
            for line in proc.stdout:
                if pending is not None:
                    pending += " " + line.strip()
                    if line.rstrip().endswith(">>"):
                        joined = re.sub(r"^<< ", "<<", pending)
                        joined = re.sub(r" >>$", ">>", joined)
                        pending = None
                        if line_sink is not None:
                            line_sink(joined)
                    continue
                if line_sink is not None and line.startswith("<< ") and not line.rstrip().endswith(">>"):
                    pending = line.strip()
                    continue
                if line.startswith(_VEC_PREFIX):
                    try:
                        v = parse_vec_line(line.rstrip("\n"))
                    except Exception as e:  # malformed line = machinery failure
                        raise TLCError(f"unparsable VEC line: {e}: {line[:200]}")
                    if vec_sink is not None:
                        vec_sink(v)
                    elif keep_vectors:
                        res.vectors.append(v)
                else:
                    if line_sink is not None and line.startswith("<<"):
                        line_sink(line.rstrip("\n"))
                    else:
                        other.append(line)
                if time.time() - t0 > timeout:
                    proc.kill()
                    raise TLCError("TLC timeout")
        finally:
            proc.wait()
        res.wall = time.time() - t0
        text = "".join(other)
        res.tail = text[-6000:]
        m = re.search(r"(\d[\d,]*) states generated, (\d[\d,]*) distinct states found", text)
        if m:
            res.generated = int(m.group(1).replace(",", ""))
            res.distinct = int(m.group(2).replace(",", ""))
        m = re.search(r"depth of the complete state graph search is (\d+)", text)
        if m:
            res.depth = int(m.group(1))
        for m in re.finditer(r"^<(\w+) line \d+, col \d+ to line \d+, col \d+ of module (\w+)>: (\d+):(\d+)",
                             text, re.M):
            res.coverage[m.group(1)] = res.coverage.get(m.group(1), 0) + int(m.group(4))
        if "Model checking completed. No error has been found." in text or (
                simulate is not None and proc.returncode == 0):
            res.ok = True
        else:
            mm = re.search(r"Error: (Invariant \w+ is violated|Action property \w+ is violated|"
                           r"Temporal properties were violated|Deadlock reached|The invariant of \w+ is equal to FALSE)", text)
            if mm:
                res.violation = mm.group(1)
            else:
                i = text.find("Error:")
                raise TLCError("TLC failed:\n" + (text[i:i + 3000] if i >= 0 else text[-3000:]))
        return res
    finally:
        shutil.rmtree(tmp, ignore_errors=True)
