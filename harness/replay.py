"""./check <ID> --replay <path>: re-execute exactly the vector / behaviour stored in a replay file."""

import json


def engine_fn(engine):
    if engine == "arrayops":
        from .replay_arrays import run_vector
    elif engine == "index":
        from .replay_index import run_vector
    elif engine == "workspace":
        from .replay_workspace import run_history as run_vector
    elif engine == "ctor":
        from .replay_ctor import run_vector
    elif engine == "dimsets":
        from .replay_dimsets import run_history as run_vector
    elif engine == "stocks":
        from .replay_stocks import run_vector
    elif engine == "lifetime_structure":
        from .lifetime_closed import run_structure_vector as run_vector
    elif engine == "relational":
        from .checks_relational import relational_vector as run_vector
    elif engine == "stockobject":
        from .replay_stockobject import run_history as run_vector
    elif engine == "massbalance":
        from .replay_massbalance import run_vector
    elif engine == "system":
        from .replay_system import run_vector
    elif engine == "tables":
        from .replay_tables import run_vector
    elif engine == "workflow":
        from .replay_workflow import run_vector
    elif engine == "trace":
        raise ValueError("recorded traces are re-validated by re-running the check (TLC decides them)")
    elif engine == "export":
        from .replay_export import run_vector
    else:
        raise ValueError(f"no replayer for engine {engine!r}")
    return run_vector


def replay_file(path):
    with open(path) as f:
        r = json.load(f)
    fn = engine_fn(r["engine"])
    from .core import for_property, _init_worker
    _init_worker()
    probs = fn(r["vector"])
    mine = for_property([(r["vector"], probs)], r["property"]) if probs else []
    print(f"replay of {path}: engine={r['engine']} property={r['property']}")
    if mine:
        print(f"VIOLATION property={r['property']} replay={path}")
        for p in mine[0][1][:6]:
            print("    " + p[:500])
        return 1
    print("the stored case conforms to the specification on the current tree")
    return 0
