"""Direction A for spec/mc/MC_DimSets.tla (C14): histories of DimensionSet operations compared, step by
step and on every register, with the ordered-list model; lookups are checked against the model's order."""

import numpy as np

from .universe import Dimension, DimensionSet, FlodymArray


import json
import math

INFLATE2 = 250007
INFLATE = 60000        # filler items per dimension in the inflated run: two dimensions already exceed 2^31 entries
_CACHE = {}


def make_dims(alphabet, inflate=0):
    key = (json.dumps(alphabet), inflate)
    if key not in _CACHE:
        _CACHE[key] = {d: Dimension(name=name, letter=letter,
                                    items=[f"{d}_{i}" for i in range(1, size + 1)] + [f"{d}_filler{i}" for i in range(inflate)])
                       for d, letter, name, size in alphabet}
    return _CACHE[key]


def ids_of(dimset, dims):
    out = []
    for d in dimset:
        hit = [k for k, v in dims.items() if v.name == d.name and v.letter == d.letter and list(v.items) == list(d.items)]
        out.append(hit[0] if hit else f"?{d.letter}")
    return out


def check_lookups(ds, exp, dims, what):
    """lookup by name, letter, position, membership, index, size, shape, total size agree with the order"""
    probs = []
    try:
        names = [dims[e].name for e in exp]
        if list(ds.letters) != [dims[e].letter for e in exp] or list(ds.names) != names:
            probs.append(f"{what}: letters/names {ds.letters}/{ds.names} != model {exp}")
            return probs
        if tuple(ds.shape) != tuple(len(dims[e].items) for e in exp):
            probs.append(f"{what}: shape {ds.shape}")
        true_total = math.prod(len(dims[e].items) for e in exp)
        # (beyond 2^63 - 1 entries numpy's 64-bit product wraps; no such array can exist, and the clause is not asserted there)
        if (true_total < 2 ** 63 and ds.total_size != true_total) or len(ds) != len(exp) or ds.ndim != len(exp):
            probs.append(f"{what}: total_size/len/ndim disagree with the model")
        if bool(ds) != (len(exp) > 0) or ds.string != "".join(dims[e].letter for e in exp):
            probs.append(f"{what}: bool/string disagree with the model")
        for i, e in enumerate(exp):
            d = dims[e]
            unique_name = names.count(d.name) == 1      # a name shared by two dimensions of the set identifies neither
            for key in (d.letter, d.name, i) if unique_name else (d.letter, i):
                got = ds[key]
                if got.name != d.name or got.letter != d.letter or list(got.items) != list(d.items):
                    probs.append(f"{what}: lookup [{key!r}] returned {got.name}")
            if ds.index(d.letter) != i or ds.size(d.letter) != len(d.items) or \
                    (unique_name and (ds.index(d.name) != i or ds.size(d.name) != len(d.items))):
                probs.append(f"{what}: index/size of {d.letter!r} disagree with the order")
            if d.letter not in ds or d.name not in ds or d not in ds:
                probs.append(f"{what}: membership of {d.letter!r}")
        if "zz" in ds:
            probs.append(f"{what}: unknown key reported as member")
        if [x.name for x in ds] != [dims[e].name for e in exp]:
            probs.append(f"{what}: iteration order")
    except Exception as e:
        probs.append(f"{what}: lookup raised {e!r}")
    return probs


def run_history(vec):
    problems = run_history_in(vec, 0)
    if not problems and len(vec["hist"]) > 1 and any(st["inplace"] for st in vec["hist"]):
        # the same history WITHOUT looking at any object between the calls (lookups may refresh what an object remembers about
        # itself): every register and every lookup form is compared with the model only after the last call
        problems = ["[no lookups between the calls] " + p for p in run_history_in(vec, 0, blind=True)]
    if not problems and hash(json.dumps(vec["hist"], sort_keys=True)) % 8 == 0:
        # the same history over LONG dimensions (tens of thousands of items; no array is allocated): sizes are exact integers
        problems = [f"[dimensions inflated by {INFLATE} items] " + p for p in run_history_in(vec, INFLATE)]
    elif not problems and hash(json.dumps(vec["hist"], sort_keys=True)) % 3000 == 1:
        # ... and over dimensions of about 250 000 items: a set of three describes more than 2^53 (and fewer than 2^63) entries -
        # a total size that is exact as an integer but not as a float
        problems = [f"[dimensions inflated by {INFLATE2} items] " + p for p in run_history_in(vec, INFLATE2)]
    return problems


def run_history_in(vec, inflate, blind=False):
    dims = make_dims(vec["alphabet"], inflate)
    hist = vec["hist"]
    if not hist:
        return []
    regs = {}
    for r, s in hist[0]["pre"].items():
        regs[r] = None if s == ["None"] else DimensionSet(dim_list=[dims[e] for e in s])
    arr = None
    problems = []
    if blind:
        for r, s in hist[0]["pre"].items():
            if s != ["None"]:
                problems += check_lookups(regs[r], s, dims, f"initial register {r}")      # (every lookup form used once before the history)
        if problems:
            return problems
    for n, st in enumerate(hist):
        op, recv, dst, inplace, args, outcome = st["op"], st["recv"], st["dst"], st["inplace"], st["args"], st["outcome"]
        where = f"step {n + 1} {op}({recv}->{dst if not inplace else 'inplace'}, {args}): "
        raised = None
        result = None
        try:
            s = regs[recv]
            if op in ("union", "inter", "diff", "xor", "plus"):
                t = regs[args[0]]
                style = n % 2
                if op == "union":
                    result = (s | t) if style else s.union_with(t)
                elif op == "inter":
                    result = (s & t) if style else s.intersect_with(t)
                elif op == "diff":
                    result = (s - t) if style else s.difference_with(t)
                elif op == "xor":
                    result = s ^ t
                else:
                    result = s + t
                if len(t) == 1 and op != "xor" and not blind:
                    # a single Dimension as right operand means the one-element set
                    # ('^' with a bare Dimension raises TypeError in the library - loud, and outside C14, which speaks of sets)
                    fn = {"union": lambda: s | t[0], "inter": lambda: s & t[0], "diff": lambda: s - t[0], "xor": lambda: s ^ t[0],
                          "plus": lambda: s + t[0]}[op]
                    try:
                        alt = fn()
                        if ids_of(alt, dims) != ids_of(result, dims):
                            problems.append(where + f"with the bare Dimension as right operand the result is {ids_of(alt, dims)}, "
                                                    f"with the one-element set {ids_of(result, dims)}")
                    except Exception as e2:
                        problems.append(where + f"with the bare Dimension as right operand the call raised {type(e2).__name__}")
            elif op in ("append", "prepend", "expand", "insert", "drop", "replace"):
                d, k, i = args
                if op == "append":
                    result = s.append(dims[d], inplace=inplace)
                elif op == "prepend":
                    result = s.prepend(dims[d], inplace=inplace)
                elif op == "expand":
                    result = s.expand_by([dims[d]], inplace=inplace)
                elif op == "insert":
                    result = s.insert(i, dims[d], inplace=inplace)
                elif op == "drop":
                    result = s.drop(k, inplace=inplace)
                else:
                    result = s.replace(k, dims[d], inplace=inplace)
            elif op == "expand_many":
                result = s.expand_by([dims[d] for d in args[0]], inplace=inplace)
            elif op == "subset":
                keys = tuple(args[0])
                result = s.get_subset(keys) if n % 2 else s[keys]
            elif op == "copy":
                how = args[0]
                result = s.copy() if how == "copy" else (s.get_subset() if how == "get_subset_noargs" else s[tuple(s.letters)])
            elif op == "build_array":
                if not inflate:
                    arr = FlodymArray(dims=s)
            else:
                return [f"MACHINERY: unknown op {op}"]
        except Exception as e:
            raised = e
            if op in ("union", "inter", "diff", "plus") and regs[args[0]] is not None and len(regs[args[0]]) == 1:
                try:
                    t0 = regs[args[0]][0]
                    {"union": lambda: s | t0, "inter": lambda: s & t0, "diff": lambda: s - t0, "xor": lambda: s ^ t0, "plus": lambda: s + t0}[op]()
                    problems.append(where + "refused for the one-element set but accepted for the bare Dimension as right operand")
                except Exception:
                    pass
        if outcome == "error" and raised is None:
            problems.append(where + "must be refused but was accepted")
        elif outcome == "ok" and raised is not None:
            problems.append(where + f"raised {type(raised).__name__}: {str(raised)[:150]}")
        if problems:
            return problems
        if outcome == "ok" and op != "build_array":
            if inplace:
                if result is not None:
                    problems.append(where + "in-place call returned a value")
            else:
                if not isinstance(result, DimensionSet):
                    problems.append(where + f"returned {type(result).__name__}")
                    return problems
                regs[dst] = result
        if blind and n < len(hist) - 1:
            continue
        # every register against the model
        for r, exp in st["post"].items():
            got = regs[r]
            if exp == ["None"]:
                continue
            if got is None:
                problems.append(where + f"register {r} undefined")
                continue
            if ids_of(got, dims) != exp:
                role = "receiver" if r == recv else ("result" if r == dst else "bystander")
                problems.append(where + f"register {r} ({role}) is {ids_of(got, dims)}, model says {exp}")
            else:
                problems += check_lookups(got, exp, dims, where + f"register {r}")
        if st["arrdims"] != ["None"] and arr is not None:
            if ids_of(arr.dims, dims) != st["arrdims"] or tuple(arr.values.shape) != tuple(len(dims[e].items) for e in st["arrdims"]):
                problems.append(where + f"array built earlier now has dims {ids_of(arr.dims, dims)} / shape {arr.values.shape}, model says {st['arrdims']}")
        if problems:
            return problems
    return problems
