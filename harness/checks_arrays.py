"""Checks decided by the single-operation array models: C01, C07."""

from . import core
from .core import Model, Outcome
from . import replay_arrays


def _sig(vec, probs):
    cfg = vec["cfg"]
    return {"engine": "arrayops", "op": cfg["op"], "ndim_x": len(cfg["xd"]), "ndim_y": len(cfg["yd"]),
            "form": cfg.get("form", ""), "symptom": "raised" if any("raised" in p for p in probs) else
            ("not_refused" if any("must be refused" in p for p in probs) else "wrong")}


def _run_family(out, family, patterns, invariant, seeds, maxdims):
    models = [Model("MC_ArrayOps.tla",
                    {"Pattern": p, "Family": family, "MaxDims": maxdims[p] if isinstance(maxdims, dict) else maxdims,
                     "Seeds": set(seeds), "Emit": True},
                    invariants=["TypeOK", invariant, "EmitInv"], workers=8, label=f"MC_ArrayOps/{family}/{p}")
              for p in patterns]
    vectors = []
    for m, res in core.run_models(models, seed=out.seed, parallel=3):
        out.add_tlc(m, res)
        vectors += res.vectors
    bad = core.replay_parallel(replay_arrays.run_vector, vectors)
    out.replayed += len(vectors)
    out.samples += [core.sample_of(v) for v in vectors[:: max(1, len(vectors) // 3)][:3]]
    out.judge(bad, "arrayops", _sig)
    ops = {}
    for v in vectors:
        ops[v["cfg"]["op"]] = ops.get(v["cfg"]["op"], 0) + 1
    out.extra.setdefault("per_op_vectors", {}).update(ops)
    return vectors


def check_C01(tier, seed):
    out = Outcome("C01", tier, seed)
    pats = ["P222", "P231"] if tier == "quick" else ["P222", "P231", "P122", "P322", "P2222", "P2132"]
    md = {p: (3 if len(p) <= 4 else 4) for p in pats}
    # a 7-item dimension, and 6-dimensional operands in a few storage orders ("big" mode, MaxDims = 0)
    pats += ["P72", "P272", "P222222"]
    md.update({"P72": 2, "P272": 0, "P222222": 0})
    _run_family(out, "arith", pats, "Prop_C01", {0, 1} if tier == "quick" else {0, 1, 2}, md)
    from .checks_traces import run_traces
    run_traces(out, "C01", tier)
    # large operands (tens of thousands of entries) in several storage orders: equal by label (an algorithm switched at a size limit)
    from .checks_c04 import large_orbit
    lbad = []
    for case in ([("arith", 110)] if tier == "quick" else [("arith", 110), ("arith", 300)]):
        probs = large_orbit(case)
        if probs:
            lbad.append(({"op": "large_orbit", "case": list(case)}, probs))
    out.replayed += 1
    out.judge(core.for_property(lbad, "C01"), "large", lambda v, p: {"engine": "large", "case": str(v["case"])})
    out.exhaustive = True
    out.assumptions += [
        "direction B: random programs over 4-5 dimensions recorded from the real library and validated by TLC against the contract "
        "(Trace_Workspace.tla); integer values",
        "symbolic run: numpy object arrays of formal polynomials pass through flodym unchanged in meaning; "
        "each vector is additionally run on float64 arrays (C and Fortran memory layout)",
        "minimum/maximum/abs/sign are decided concolically (entry-wise, both orders per entry via several valuations); "
        "** is decided on small integers (base 1..3, exponent 0..2)",
        "bounded universe: every ordered subset pair of <= 4 dimensions of length <= 3; plus a 7-item dimension and 6-dimensional operands "
        "in a few storage orders; float32, integer-typed, 2^40-scaled and NaN-carrying operands (NaN must appear exactly at the entries that "
        "depend on it)",
    ]
    return out.finish(rule="one vector per (operator, ordered dims of x, ordered dims of y, valuation seed); "
                           "TLC computes the label-keyed result polynomial, flodym is run symbolically and numerically; "
                           "all vectors are distinct configurations")


def check_C07(tier, seed):
    out = Outcome("C07", tier, seed)
    pats = ["P222", "P231"] if tier == "quick" else ["P222", "P231", "P122", "P322", "P2222", "P2132"]
    md = {p: (3 if len(p) <= 4 else 4) for p in pats}
    pats += ["P72", "P272", "P222222"]
    md.update({"P72": 2, "P272": 0, "P222222": 0})
    _run_family(out, "reduce", pats, "Prop_C07", {0, 1} if tier == "quick" else {0, 1, 2, 3}, md)
    from .checks_traces import run_traces
    run_traces(out, "C07", tier)
    out.exhaustive = True
    out.assumptions += [
        "direction B: recorded random programs validated by TLC (Trace_Workspace.tla)",
        "linear operations (sum_to, sum_over, cumsum, cast_to) decided symbolically for all values; "
        "get_shares_over decided on exact rationals for small integer arrays (entries with zero total unspecified)",
        "bounded universe: <= 4 dimensions of length <= 3; every ordered subset enumerated for kept/summed/added dims",
    ]
    return out.finish(rule="one vector per (operation, ordered dims of x, ordered list of kept/summed/target dims, "
                           "naming form letter/name/object, seed)")


CHECKS = {"C01": check_C01, "C07": check_C07}
