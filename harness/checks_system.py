"""C02 (mass balance / flow checks) and C18 (system assembly)."""

from . import core
from .core import Model, Outcome
from . import replay_massbalance


def sig_mb(vec, probs):
    import re
    m = re.search(r"(check_mass_balance|check_flows)\(([^)]*)\)", probs[0])
    S = vec["sys"]
    return {"engine": "massbalance", "call": m.group(1) if m else "build", "has_stocks": bool(S["stocks"]),
            "idle_process": len(S["procs"]) > 3, "pert": vec["pert"]["obj"], "nan": bool(vec["anynan"]),
            "default_tol": "tolerance=default" in probs[0]}


def run_workflow(out, prop, tier):
    """the how-to system as one specification (spec/Workflow.tla): formal parameters through the real compute()"""
    from . import replay_workflow
    models = [Model("MC_Workflow.tla", {"LenR": r, "LenT": t, "Emit": True}, invariants=["Prop_Workflow", "EmitInv"], workers=2,
                    label=f"MC_Workflow/r{r}/t{t}") for r, t in ([(2, 1)] if tier == "quick" else [(2, 1), (3, 1), (2, 2)])]
    vectors = []
    for m, res in core.run_models(models, seed=out.seed, parallel=3):
        out.add_tlc(m, res)
        vectors += res.vectors
    bad = core.replay_parallel(replay_workflow.run_vector, vectors)
    out.replayed += len(vectors)
    out.extra["workflow_vectors"] = len(vectors)
    out.samples.append(core.sample_of({"workflow": {"orders": vectors[0]["orders"], "balance_of_process_a": vectors[0]["balA"]["val"][:1]}}, 900))
    out.judge(core.for_property(bad, prop), "workflow", lambda v, p: {"engine": "workflow", "orders": str(v["orders"])})


def run_mb_traces(out, tier):
    """direction B: recorded histories on random systems, validated by TLC (spec/trace/Trace_MassBalance.tla)"""
    from . import trace_massbalance as tm
    ntraces, nsteps = (25, 12) if tier == "quick" else (400, 25)
    total = events = 0
    from concurrent.futures import ThreadPoolExecutor
    batches = [tm.record_batch(uid, ntraces, nsteps, out.seed) for uid in range(len(tm.UNIVERSES))]
    with ThreadPoolExecutor(max_workers=len(batches)) as ex:
        verdicts = list(ex.map(lambda b: tm.validate_batch(b, workers=2 if tier == "quick" else 4), batches))
    for uid, (batch, (acc, rej, res)) in enumerate(zip(batches, verdicts)):
        out.states += res.distinct
        out.transitions += res.generated
        out.models.append({"model": f"Trace_MassBalance/universe{uid}", "states": res.distinct, "generated": res.generated,
                           "traces": len(batch["traces"]), "accepted": len(acc), "wall_s": round(res.wall, 2)})
        total += len(batch["traces"])
        events += sum(len(t["events"]) for t in batch["traces"])
        bad = []
        for tid, (pos, clause) in rej.items():
            tr = batch["traces"][tid - 1]
            vec = {"universe": batch["universe"], "trace": {"sys": tr["sys"], "events": tr["events"][:pos]}}
            bad.append((vec, [f"{{C02}} recorded history rejected by the specification at event {pos} ({tr['events'][pos - 1]['op']}): {clause}"]))
        out.judge(bad, "mb_trace", lambda v, p: {"engine": "mb_trace", "op": v["trace"]["events"][-1]["op"], "clause": p[0].split(": ")[-1][:40]})
        if uid == 0 and batch["traces"]:
            t0 = batch["traces"][0]
            out.samples.append(core.sample_of({"recorded_system": {"procs": t0["sys"]["procs"], "flows": [[f["name"], f["dims"]] for f in t0["sys"]["flows"]],
                                                                   "stocks": [[s["name"], s["proc"], s["dims"]] for s in t0["sys"]["stocks"]]},
                                               "events": [[e["op"], e["obj"], e["val"], e["tol"], e["outcome"], e["failing"], e["flagged"]] for e in t0["events"][:8]]}, 900))
    out.traces_validated += total
    out.extra["recorded_histories_validated_by_TLC"] = total
    out.extra["recorded_events"] = events
    outcomes = out.extra.setdefault("recorded_check_outcomes", {})
    return total


def check_C02(tier, seed):
    out = Outcome("C02", tier, seed)
    maxflows = 2 if tier == "quick" else 5
    models = [Model("MC_MassBalance.tla", {"Schemes": {k}, "MaxFlows": maxflows, "Emit": True, "GModes": {1}},
                    invariants=["Prop_C02", "EmitInv"], workers=4,
                    label=f"MC_MassBalance/scheme{k}/maxflows{maxflows}") for k in ((2, 3, 5) if tier == "quick" else (1, 2, 3, 4, 5))]
    # base values antisymmetric in r: all-zero flows of lower dimensionality and flows whose entries cancel
    models += [Model("MC_MassBalance.tla", {"Schemes": {k}, "MaxFlows": 2 if tier == "quick" else 3, "Emit": True, "GModes": {2}},
                     invariants=["Prop_C02", "EmitInv"], workers=4,
                     label=f"MC_MassBalance/scheme{k}/cancelling") for k in ((3,) if tier == "quick" else (1, 3, 4, 5))]
    vectors = []
    for m, res in core.run_models(models, seed=seed, parallel=5):
        out.add_tlc(m, res)
        vectors += res.vectors
    bad = core.replay_parallel(replay_massbalance.run_vector, vectors)
    out.replayed += len(vectors)
    out.samples += [core.sample_of({"flows": [[f["name"], f["dims"], f["coef"]] for f in v["sys"]["flows"]],
                                    "stocks": [[s["process"], s["dims"], s["cin"], s["cout"]] for s in v["sys"]["stocks"]],
                                    "procs": v["sys"]["procs"], "pert": v["pert"], "failing": v["failing"], "flagged": v["flagged"]}, 900)
                    for v in vectors[:: max(1, len(vectors) // 3)][:3]]
    out.judge(core.for_property(bad, "C02"), "massbalance", sig_mb)
    kinds = out.extra.setdefault("perturbation_kinds", {})
    for v in vectors:
        k = f"{v['pert']['obj']}:{v['pert']['op']}:{v['pert']['val']}"
        kinds[k] = kinds.get(k, 0) + 1
    run_workflow(out, "C02", tier)
    run_mb_traces(out, tier)
    from .checks_lifecycle import run_lifecycle_traces
    run_lifecycle_traces(out, "C02", tier, direction_a=(tier != "quick"))    # (quick: the recorded runs only; direction A runs in C05 / C17 / C18 / C19)
    out.exhaustive = True
    out.assumptions += [
        "workflow engine: the library's own how-to system (spec/Workflow.tla) with FORMAL parameters: TLC proves the balance of process_a "
        "equals extraction x (1 - sum of product shares) as a polynomial identity for every storage order of the four flows; the real "
        "compute() is run on the same formal parameters, and numerically check_mass_balance must pass iff the shares add up to one",
        "system graphs: every non-empty subset (quick: up to 2, thorough: all 5) of the templates sysenv->A, A->B, B->sysenv, parallel A->B, opposing "
        "B->A; five dimension schemes (equal dims, permuted orders with equal lengths, differing dimensionality, no time dimension, "
        "zero-dimensional flows); stocks at A / at B / without process, an idle process; only BALANCED systems are kept and then perturbed",
        "two-component numbers: integer part + multiples of tol/2; perturbations are 0.5 tol ('below') or 2 tol ('above'), a factor-2 margin "
        "against float rounding; explicit tolerance 0.01 and the default tolerance (scaled to the largest magnitude, taken from the model)",
        "where a NaN is among the magnitudes the default tolerance is undefined by the statement: only the NaN clauses are asserted there",
        "exceptions are flow names (the statement speaks of excepted flows)",
        "the verdict is read from exception / WARNING log records; flagged flows are parsed from the warning messages",
    ]
    return out.finish(rule="one vector per (balanced system, single-entry perturbation); every vector is run with explicit and default tolerance, "
                           "raise_error True/False, and three exception lists for check_flows")


def sig_sys(vec, probs):
    import re
    m = re.search(r"\[(\w+)", probs[0])
    return {"engine": "system", "op": vec["op"], "route": m.group(1) if m else "",
            "symptom": "not_refused" if "must be refused" in probs[0] or "accepted" in probs[0] else
            ("raised" if "raised" in probs[0] else "wrong")}


def check_C18(tier, seed):
    from . import replay_system
    out = Outcome("C18", tier, seed)
    models = [Model("MC_System.tla", {"Emit": True, "Part": part}, invariants=["Prop_C18", "EmitInv"], workers=2,
                    label=f"MC_System/{part}") for part in (("defs", "files") if tier == "quick" else ("defs", "files", "deep"))]
    vectors = []
    for m, res in core.run_models(models, seed=seed, parallel=3):
        out.add_tlc(m, res)
        vectors += res.vectors
    bad = core.replay_parallel(replay_system.run_vector, vectors)
    out.replayed += len(vectors)
    out.samples += [core.sample_of({"op": v["op"], "def": v["def"], "file": v["file"], "res": v["res"]}, 900)
                    for v in vectors[:: max(1, len(vectors) // 3)][:3]]
    out.judge(core.for_property(bad, "C18"), "system", sig_sys)
    kinds = out.extra.setdefault("vectors", {})
    for v in vectors:
        k = v["op"] + ("/error" if v["res"]["error"] else "/ok")
        kinds[k] = kinds.get(k, 0) + 1
    from .checks_lifecycle import run_lifecycle_traces
    run_lifecycle_traces(out, "C18", tier)
    out.exhaustive = True
    out.assumptions += [
        "thorough tier: additionally the full cross product of 3 process lists x lists of two or three distinct valid flow templates x 3 naming "
        "functions x (no stock / two stocks with every process combination) x 2 parameter lists",
        "definitions vary one aspect at a time around a base definition (process lists x flow lists x naming function; process lists x "
        "one stock from the full pool of class x lifetime model x solver x time letter x process x dims; parameter lists x flows)",
        "every valid arrow-named definition is built through from_data_reader, from_csv, from_excel (named sheets and first sheet) and "
        "manual assembly; other naming functions through make_empty_flows",
        "files are written by the harness with pandas (to_csv / openpyxl) into a temporary directory",
        "a dimension file whose first cell equals the dimension's name is a headed file by definition",
    ]
    return out.finish(rule="one vector per definition / per dimension file variant; Build(def) and ParseDimFile from spec/System.tla")


CHECKS = {"C02": check_C02, "C18": check_C18}
