"""C02 (mass balance / flow checks) and C18 (system assembly)."""

from . import core
from .core import Model, Outcome
from . import replay_massbalance


def sig_mb(vec, probs):
    import re
    m = re.search(r"(check_mass_balance|check_flows)\(([^)]*)\)", probs[0])
    S = vec["sys"]
    return {"engine": "massbalance", "call": m.group(1) if m else "build", "has_stocks": bool(S["stocks"]),
            "idle_process": len(S["procs"]) > 3, "pert": vec["pert"]["obj"], "nan": bool(vec["anynan"]),
            "default_tol": "tolerance=default" in probs[0]}


def check_C02(tier, seed):
    out = Outcome("C02", tier, seed)
    maxflows = 2 if tier == "quick" else 5
    models = [Model("MC_MassBalance.tla", {"Schemes": {k}, "MaxFlows": maxflows, "Emit": True},
                    invariants=["Prop_C02", "EmitInv"], workers=2 if tier == "quick" else 3,
                    label=f"MC_MassBalance/scheme{k}/maxflows{maxflows}") for k in (1, 2, 3, 4, 5)]
    vectors = []
    for m, res in core.run_models(models, seed=seed, parallel=5):
        out.add_tlc(m, res)
        vectors += res.vectors
    bad = core.replay_parallel(replay_massbalance.run_vector, vectors)
    out.replayed += len(vectors)
    out.samples += [core.sample_of({"flows": [[f["name"], f["dims"], f["coef"]] for f in v["sys"]["flows"]],
                                    "stocks": [[s["process"], s["dims"], s["cin"], s["cout"]] for s in v["sys"]["stocks"]],
                                    "procs": v["sys"]["procs"], "pert": v["pert"], "failing": v["failing"], "flagged": v["flagged"]}, 900)
                    for v in vectors[:: max(1, len(vectors) // 3)][:3]]
    out.judge(core.for_property(bad, "C02"), "massbalance", sig_mb)
    kinds = out.extra.setdefault("perturbation_kinds", {})
    for v in vectors:
        k = f"{v['pert']['obj']}:{v['pert']['op']}:{v['pert']['val']}"
        kinds[k] = kinds.get(k, 0) + 1
    out.exhaustive = True
    out.assumptions += [
        "system graphs: every non-empty subset (quick: up to 2, thorough: all 5) of the templates sysenv->A, A->B, B->sysenv, parallel A->B, opposing "
        "B->A; five dimension schemes (equal dims, permuted orders with equal lengths, differing dimensionality, no time dimension, "
        "zero-dimensional flows); stocks at A / at B / without process, an idle process; only BALANCED systems are kept and then perturbed",
        "two-component numbers: integer part + multiples of tol/2; perturbations are 0.5 tol ('below') or 2 tol ('above'), a factor-2 margin "
        "against float rounding; explicit tolerance 0.01 and the default tolerance (scaled to the largest magnitude, taken from the model)",
        "where a NaN is among the magnitudes the default tolerance is undefined by the statement: only the NaN clauses are asserted there",
        "exceptions are flow names (the statement speaks of excepted flows)",
        "the verdict is read from exception / WARNING log records; flagged flows are parsed from the warning messages",
    ]
    return out.finish(rule="one vector per (balanced system, single-entry perturbation); every vector is run with explicit and default tolerance, "
                           "raise_error True/False, and three exception lists for check_flows")


CHECKS = {"C02": check_C02}
