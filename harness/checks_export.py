"""C19 (exports) and C20 (Sankey and line plots)."""

from . import core
from .core import Model, Outcome
from . import replay_export


def sig_exp(vec, probs):
    S = vec.get("sys", {"flows": [], "stocks": []})
    zero = any(len(f["dims"]) == 0 for f in S.get("flows", [])) or any(len(s["dims"]) == 0 for s in S.get("stocks", []))
    p = probs[0]
    symptom = ("raised_in_pandas_or_csv_export" if ("pandas export raised" in p or "csv export raised" in p) and all(
        ("pandas export raised" in q or "csv export raised" in q) for q in probs) else
               "raised" if " raised " in p else "wrong")
    return {"engine": "export", "op": vec["op"], "zero_dimensional_member": zero, "symptom": symptom}


def exp_model(part, schemes, workers=2, deep=False):
    return Model("MC_Export.tla", {"Part": part, "Schemes": set(schemes), "Emit": True, "Deep": deep},
                 invariants=["Prop_C19", "Prop_C20", "EmitInv"], workers=workers, label=f"MC_Export/{part}/schemes{sorted(schemes)}")


def run_export_models(out, prop, models, stride=1):
    vectors = []
    for m, res in core.run_models(models, seed=out.seed, parallel=4):
        out.add_tlc(m, res)
        vectors += res.vectors
    if stride > 1:
        vectors = vectors[out.seed % stride:: stride]
    bad = core.replay_parallel(replay_export.run_vector, vectors)
    out.replayed += len(vectors)
    out.samples += [core.sample_of({k: v[k] for k in v if k not in ("sys", "dict")} | {"flows": [[f["name"], f["dims"]] for f in v.get("sys", {}).get("flows", [])]}, 900)
                    for v in vectors[:: max(1, len(vectors) // 3)][:3]]
    out.judge(core.for_property(bad, prop), "export", sig_exp)
    kinds = out.extra.setdefault("vectors_by_op", {})
    for v in vectors:
        kinds[v["op"]] = kinds.get(v["op"], 0) + 1
    return vectors


def check_C19(tier, seed):
    out = Outcome("C19", tier, seed)
    run_export_models(out, "C19", [exp_model("export", {1, 2, 3}, deep=(tier == "thorough"))])
    # the read-back clause on large instances (time grids / item lists far longer than any bounded model reaches)
    # (sizes chosen around representation limits: > 127 / > 255 items, 1 700 - 2 300 and > 32 767 entries)
    cases = [(150, 3), (20, 140), (150, 13), (128, 2)] if tier == "quick" else \
        [(150, 3), (20, 140), (150, 13), (128, 2), (300, 130), (260, 2), (129, 129), (256, 8), (1000, 40)]
    bad = core.replay_parallel(replay_export.run_large_export, cases)
    out.replayed += len(cases)
    out.extra["large_instance_exports"] = len(cases)
    out.judge(core.for_property([({"op": "large_export", "case": c}, p) for c, p in bad], "C19"), "export_large",
              lambda v, p: {"engine": "export_large", "case": str(v["case"])})
    from .checks_lifecycle import run_lifecycle_traces
    run_lifecycle_traces(out, "C19", tier)
    out.exhaustive = True
    out.assumptions += [
        "systems: subsets of 2, 3 or 5 of five flow templates (names with spaces, '=>', '->', ':' and parentheses that stay distinct after "
        "file-name sanitising), three dimension schemes incl. permuted orders and a zero-dimensional flow, 0-2 stocks (one without process)",
        "file names are computed with flodym's own to_valid_file_name (its concrete form is not part of the contract); the number of files and "
        "their contents are checked independently; CSV / pandas forms are read back with from_df",
        "values are small integers (exact in float64)",
    ]
    return out.finish(rule="one vector per system; ExportDict / CsvQuantities from spec/Export.tla; numpy, pandas, pickle and CSV exports compared")


def check_C20(tier, seed):
    out = Outcome("C20", tier, seed)
    if tier == "quick":
        run_export_models(out, "C20", [exp_model("sankey", {2}, 3)], stride=2)
        run_export_models(out, "C20", [exp_model("lines", {1})])
    else:
        run_export_models(out, "C20", [exp_model("sankey", {1, 2, 3}, 4), exp_model("lines", {1})])
    from .checks_lifecycle import run_lifecycle_traces
    run_lifecycle_traces(out, "C20", tier, direction_a=False)    # Sankey diagrams of live, recomputed systems (recorded model runs)
    out.exhaustive = tier != "quick"
    out.assumptions += [
        "Sankey: every combination of slice dictionary (none / one / two sliced dimensions), excluded processes (sysenv, none, sysenv + B), "
        "one excluded flow or none, and at most one flow split by one of its unsliced dimensions; links are compared as a multiset of "
        "(source node label, target node label, link label, value)",
        "array plotters (plotly and pyplot under the Agg backend): every 1-3 dimensional array over (t, r, e) with every assignment of its "
        "dimensions to intra-line / subplot / line roles, by name and by letter, without x array, with an x array over the same dims and over the "
        "intra-line dimension only; a plotly trace is attributed to the subplot TITLE above the axes it is drawn in",
        "plotly and matplotlib are trusted to report figure.data / Line2D data faithfully",
    ]
    return out.finish(rule="SankeyLinks / SankeyNodes / Lines from spec/Export.tla, one vector per setting")


CHECKS = {"C19": check_C19, "C20": check_C20}
