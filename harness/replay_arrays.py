"""Direction A for the single-operation array models (spec/mc/MC_ArrayOps.tla):
every TLC transition is executed on the real flodym code and compared with the
specification's result, by label."""

import traceback
from fractions import Fraction

import numpy as np

from .poly import Poly, nu, seq_code, SymbolicBranch
from .universe import Universe, FlodymArray, Dimension, DimensionSet

S_NUM = 2.5  # numeric value of "the plain number": deliberately NOT integral (integer-typed arrays must not truncate it)


def gen_val(g):
    """Generic non-zero valuation for numeric instantiation of symbolic vectors."""
    k, t = g
    if abs(k) == 9:
        return Fraction(5, 2)
    return Fraction(((abs(k) * 131 + seq_code(t) * 17 + 7) % 23) + 2)


def num_input(seed, lo, n):
    """MC_ArrayOps!NumArr entry for generator g."""
    return lambda g: lo + ((nu(seed, g) + 5) % n)


def close(a, b, tol=1e-9):
    a = float(a)
    b = float(b)
    if a != a or b != b:
        return False
    return abs(a - b) <= tol * max(1.0, abs(a), abs(b))


def compare_nan(U, arr, exp, cfg):
    """x's last entry is NaN: the result is NaN exactly at the entries whose polynomial contains that generator"""
    probs = U.check_dims(arr.dims, exp["dims"]) + U.check_shape(arr)
    if probs or not cfg["xd"] and False:
        return probs
    last = U.labtuple(cfg["xd"], [U.labels(l)[-1] for l in cfg["xd"]])
    for t, pj in exp["val"]:
        p = Poly.from_json(pj)
        depends = any(g == (1, last) for m in p.t for g, _ in m)
        got = U.entry(arr, tuple(t))
        if bool(got != got) != depends:
            probs.append(f"result[{tuple(t)}] is {'NaN' if got != got else got} although it {'depends' if depends else 'does not depend'} "
                         f"on the NaN entry x{list(last)}")
            break
    return probs


def compare_array(U, arr, exp, mode, val=None, what="result", tie_ok=False, tol=1e-9, rel=False):
    """arr: flodym array; exp: {'dims': [...], 'val': [[labtuple, poly json], ...]}."""
    probs = U.check_dims(arr.dims, exp["dims"], what) + U.check_shape(arr, what)
    if probs:
        return probs
    for t, pj in exp["val"]:
        p = Poly.from_json(pj)
        got = U.entry(arr, tuple(t))
        if mode == "sym":
            g = Poly.coerce(got)
            if g is None or g != p:
                if tie_ok and g is not None and Poly.seed is not None and g._cv() == p._cv():
                    continue
                probs.append(f"{what}[{tuple(t)}] = {got!r}, expected {p!r}")
        else:
            want = p.eval(val)
            if rel:     # purely relative comparison (very large / very small magnitudes)
                ok = (want == 0 and float(got) == 0.0) or (want != 0 and abs(float(got) / float(want) - 1.0) <= 1e-9)
                if not ok:
                    probs.append(f"{what}[{tuple(t)}] = {got!r}, expected {float(want)!r} ({p!r})")
                continue
            if not close(got, want, tol):
                probs.append(f"{what}[{tuple(t)}] = {got!r}, expected {float(want)!r} ({p!r})")
        if len(probs) > 4:
            break
    return probs


def snapshot(arr):
    return (tuple(arr.dims.letters), tuple(tuple(d.items) for d in arr.dims),
            np.array(arr.values, copy=True))


def unchanged(arr, snap, what):
    if tuple(arr.dims.letters) != snap[0] or tuple(tuple(d.items) for d in arr.dims) != snap[1]:
        return [f"{what}: dims changed by the call"]
    v = arr.values
    if v.shape != snap[2].shape:
        return [f"{what}: shape changed by the call"]
    same = all(a == b or (a != a and b != b) for a, b in zip(v.ravel().tolist(), snap[2].ravel().tolist()))
    return [] if same else [f"{what}: values changed by the call"]


def name_dims(U, letters, form):
    if form == "letter":
        return tuple(letters)
    if form == "name":
        return tuple(U.name(l) for l in letters)
    if form == "obj":
        return tuple(U.dim(l) for l in letters)
    raise ValueError(form)


def apply_op(U, cfg, x, y, S):
    op = cfg["op"]
    if op == "add":
        return x + y
    if op == "sub":
        return x - y
    if op == "mul":
        return x * y
    if op == "div":
        return x / y
    if op == "min":
        return x.minimum(y)
    if op == "max":
        return x.maximum(y)
    if op == "pow":
        return x ** y
    if op == "add_s":
        return x + S
    if op == "sub_s":
        return x - S
    if op == "mul_s":
        return x * S
    if op == "div_s":
        return x / S
    if op == "radd_s":
        return S + x
    if op == "rsub_s":
        return S - x
    if op == "rmul_s":
        return S * x
    if op == "rdiv_s":
        return S / x
    if op == "pow_s":
        return x ** 2
    if op == "min_s":
        return x.minimum(0)
    if op == "max_s":
        return x.maximum(0)
    if op == "neg":
        return -x
    if op == "abs":
        return x.abs()
    if op == "abs_builtin":
        return abs(x)
    if op == "sign":
        return x.sign()
    if op in ("abs_inplace", "sign_inplace"):
        r = x.abs(inplace=True) if op == "abs_inplace" else x.sign(inplace=True)
        if r is not None:
            raise AssertionError("in-place call returned a value")
        return x
    # reduce family
    if op == "sum_to":
        return x.sum_to(name_dims(U, cfg["yd"], cfg["form"]))
    if op == "sum_over":
        return x.sum_over(name_dims(U, cfg["yd"], cfg["form"]))
    if op == "cast_to":
        return x.cast_to(U.dimset(cfg["yd"]))
    if op == "cumsum":
        return x.cumsum(cfg["yd"][0])
    if op == "cumsum_inplace":
        if x.cumsum(cfg["yd"][0], inplace=True) is not None:
            raise AssertionError("in-place call returned a value")
        return x
    if op == "shares":
        return x.get_shares_over(tuple(cfg["yd"]))
    raise ValueError(op)


ORD_OPS = {"min", "max", "abs", "abs_builtin", "sign", "min_s", "max_s", "abs_inplace", "sign_inplace"}
INPLACE_OPS = {"abs_inplace", "sign_inplace", "cumsum_inplace"}
NUM_ONLY = {"pow": ((1, 3), (0, 3)), "pow_s": ((1, 3), None), "shares": ((-2, 7), None)}


def run_vector(vec):
    """Returns a list of problem strings (empty = conforms)."""
    cfg = vec["cfg"]
    exp = vec["res"]
    # names are not tied to letters: every second vector names its dimensions with the names rotated by one letter
    U = Universe.from_pattern(vec["pattern"], name_shift=(len(cfg["xd"]) + len(cfg["yd"]) + cfg["seed"]) % 2)
    op = cfg["op"]
    problems = []
    runs = []
    if op in NUM_ONLY:
        runs = [("num", "C"), ("num", "F"), ("num", "I")]       # (I: whole-number values stored with an integer dtype)
    else:
        # I: values stored with an INTEGER dtype; S: float32; B: all values scaled by 2^40 (exact); N: one entry is NaN
        # T: all values scaled by 2^-40 (no absolute thresholds)
        runs = [("sym", "C"), ("num", "C"), ("num", "F"), ("num", "I"), ("num", "S"), ("num", "B"), ("num", "T"), ("num", "N")]
        if op in ("cumsum", "cumsum_inplace"):
            # J: int32 values of magnitude 2^27..2^30 (each fits, running totals do not); K: boolean values (counted, not OR-ed)
            runs += [("num", "J"), ("num", "K")]
    for mode, layout in runs:
        Poly.seed = cfg["seed"] if op in ORD_OPS else None
        if op in NUM_ONLY:
            (xlo, xn), yspec = NUM_ONLY[op]
            xval = num_input(cfg["seed"], xlo, xn)
            yval = num_input(cfg["seed"], *yspec) if yspec else None
            val = None
        elif op in ORD_OPS:
            seed = cfg["seed"]
            xval = yval = val = (lambda g, seed=seed: Fraction(nu(seed, g)))
        else:
            xval = yval = val = gen_val
        try:
            if layout in ("B", "T") and (op in ORD_OPS or op in ("pow", "pow_s")):
                continue     # scaling runs only for polynomial / rational operations
            if layout == "N" and (op in ORD_OPS or op in ("div_s", "rdiv_s", "div", "pow", "pow_s")):
                continue     # NaN run only for the NaN-transparent polynomial operations

            def vals(k, ds, v):
                a = U.gen_values(k, ds, mode, v, layout if layout in ("C", "F") else "C")
                if layout == "I":
                    return a.astype(np.int64)
                if layout == "J":
                    return np.asarray(a * 2.0 ** 26).astype(np.int32).reshape(a.shape)
                if layout == "K":
                    return np.asarray(a.astype(np.int64) % 2).astype(bool).reshape(a.shape)
                if layout == "S":
                    return a.astype(np.float32)
                if layout == "B" and mode == "num":
                    return a * 2.0 ** 40
                if layout == "T" and mode == "num":
                    return a * 2.0 ** -40
                if layout == "N" and mode == "num" and k == 1 and a.size:
                    a = a.copy()
                    a[(-1,) * a.ndim] = np.nan          # the LAST entry of x
                return a
            x = U.array(cfg["xd"], vals(1, cfg["xd"], xval), name="x")
            y = None
            if op in ("add", "sub", "mul", "div", "min", "max", "pow"):
                y = U.array(cfg["yd"], vals(2, cfg["yd"], yval), name="y")
            S = Poly.gen(9, U.zero_tuple()) if mode == "sym" else S_NUM
            sx = snapshot(x)
            sy = snapshot(y) if y is not None else None
        except Exception as e:  # building inputs must never fail
            return [f"MACHINERY: cannot build inputs: {e!r}"]
        try:
            r = apply_op(U, cfg, x, y, S)
            raised = None
        except SymbolicBranch as e:
            problems.append(f"[{mode}/{layout}] implementation branched on a value: {e}")
            continue
        except Exception as e:
            raised = e
            r = None
        tag = f"[{mode}/{layout}] "
        if op not in INPLACE_OPS:
            problems += [tag + p for p in unchanged(x, sx, "operand x")]
        if y is not None:
            problems += [tag + p for p in unchanged(y, sy, "operand y")]
        if exp["error"]:
            if raised is None:
                problems.append(tag + f"call must be refused but returned dims {tuple(r.dims.letters)}")
            continue
        if raised is not None:
            tb = traceback.format_exception_only(type(raised), raised)[-1].strip()
            problems.append(tag + f"call raised {tb[:300]}")
            continue
        if not isinstance(r, FlodymArray):
            problems.append(tag + f"result is {type(r).__name__}")
            continue
        if op == "shares":
            problems += [tag + p for p in compare_shares(U, r, exp)]
            # shares do not depend on the magnitude of the array: tiny values give the same shares (no absolute thresholds)
            if layout == "C":
                try:
                    xs = U.array(cfg["xd"], x.values * 2.0 ** -40, name="x")
                    rs = xs.get_shares_over(tuple(cfg["yd"]))
                    problems += [tag + "(array scaled by 2^-40) " + p for p in compare_shares(U, rs, exp)]
                except Exception as e:
                    problems.append(tag + f"(array scaled by 2^-40) raised {type(e).__name__}: {str(e)[:120]}")
        elif op in NUM_ONLY:
            problems += [tag + p for p in compare_array(U, r, exp, "num", lambda g: 0)]
        elif layout in ("B", "T"):
            # every generator was scaled by 2^+-40 (the plain number stays as it is): exact in binary floating point
            fac = Fraction(2) ** (40 if layout == "B" else -40)
            problems += [tag + p for p in compare_array(U, r, exp, mode, lambda g: val(g) * (1 if abs(g[0]) == 9 else fac), rel=True)]
        elif layout == "N":
            problems += [tag + p for p in compare_nan(U, r, exp, cfg)]
        elif layout == "J":
            problems += [tag + p for p in compare_array(U, r, exp, mode, lambda g: val(g) * 2 ** 26, rel=True)]
        elif layout == "K":
            problems += [tag + p for p in compare_array(U, r, exp, mode, lambda g: Fraction(int(val(g)) % 2))]
        elif layout == "S":
            problems += [tag + p for p in compare_array(U, r, exp, mode, val, tie_ok=op in ORD_OPS, tol=2e-5)]
        else:
            problems += [tag + p for p in compare_array(U, r, exp, mode, val, tie_ok=op in ORD_OPS)]
    Poly.seed = None
    return problems


def compare_shares(U, arr, exp):
    probs = U.check_dims(arr.dims, exp["dims"]) + U.check_shape(arr)
    if probs:
        return probs
    for t, (n, d) in exp["val"]:
        got = U.entry(arr, tuple(t))
        if d == 0:
            continue  # total is zero: entry unspecified
        if not close(got, Fraction(n, d)):
            probs.append(f"share[{tuple(t)}] = {got!r}, expected {n}/{d}")
    return probs
