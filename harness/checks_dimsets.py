"""C14: DimensionSet as an ordered set of uniquely lettered dimensions."""

import json

from . import core
from .core import Model, Outcome
from . import replay_dimsets


def sig_ds(vec, probs):
    import re
    m = re.search(r"step \d+ (\w+)", probs[0])
    sym = ("not_refused" if "must be refused" in probs[0] else "raised" if "raised" in probs[0] else
           "aliasing" if ("bystander" in probs[0] or "built earlier" in probs[0]) else "wrong")
    return {"engine": "dimsets", "op": m.group(1) if m else "", "symptom": sym}


def ds_model(scenario, depth, maxlen, alphabet, s0=(), t0=(), simulate=None):
    c = {"Scenario": scenario, "Depth": depth, "MaxLen": maxlen, "Alphabet": set(alphabet), "Emit": True}
    for i in range(3):
        c[f"S{i + 1}"] = s0[i] if i < len(s0) else ""
        c[f"T{i + 1}"] = t0[i] if i < len(t0) else ""
    return Model("MC_DimSets.tla", c, invariants=["Prop_Unique", "Prop_Laws", "EmitInv"],
                 properties=["Prop_Receiver"] if simulate is None else [],
                 workers=4 if simulate is None else 1, simulate=simulate, depth=depth + 1 if simulate else None,
                 label=f"MC_DimSets/{scenario}/depth{depth}/alphabet={''.join(sorted(alphabet))}/s0={'-'.join(s0)}/t0={'-'.join(t0)}"
                       + (f"/simulate:{simulate}" if simulate else ""))


def run_dimset_traces(out, prop, tier):
    """direction B: recorded programs validated by TLC (spec/trace/Trace_DimSets.tla).  For C13 only the clause about arrays
    built from the registers counts."""
    seed = out.seed
    # ---- direction B: recorded programs validated by TLC (spec/trace/Trace_DimSets.tla)
    from . import trace_dimsets as td
    ntraces, nsteps = (60, 30) if tier == "quick" else (2000, 40)
    batch = td.record_batch(ntraces, nsteps, seed)
    acc, rej, res = td.validate_batch(batch, workers=4 if tier == "quick" else 8)
    out.states += res.distinct
    out.transitions += res.generated
    out.models.append({"model": "Trace_DimSets", "states": res.distinct, "generated": res.generated, "traces": ntraces,
                       "accepted": len(acc), "wall_s": round(res.wall, 2)})
    tbad = []
    for tid, (pos, clause) in rej.items():
        if prop != "C14" and ("{" not in clause or prop not in clause[clause.index("{"):]):
            continue
        tr = batch["traces"][tid - 1]
        ev = tr["events"][pos - 1]
        tbad.append(({"alphabet": batch["alphabet"], "trace": {"init": tr["init"], "events": tr["events"][:pos]}},
                     [f"recorded program rejected by the specification at event {pos} ({ev['op']}, logged outcome {ev['outcome']}): {clause}"]))
    out.judge(tbad, "dimsets_trace", lambda v, p: {"engine": "dimsets_trace", "op": v["trace"]["events"][-1]["op"], "clause": p[0].split(": ")[-1][:40]})
    out.traces_validated += ntraces
    out.extra["recorded_programs_validated_by_TLC"] = ntraces
    out.extra["recorded_events"] = sum(len(t["events"]) for t in batch["traces"])


def check_C14(tier, seed):
    out = Outcome("C14", tier, seed)
    A4 = ["A", "B", "C", "A2"]
    A5 = ["A", "B", "C", "A2", "A3"]
    A6 = ["A", "B", "C", "D", "A2", "B2"]
    if tier == "quick":
        models = [ds_model("pairs", 1, 3, A4), ds_model("hist", 2, 3, A4, ["A", "B"], ["B", "C"]),
                  ds_model("hist", 2, 3, ["A", "C", "A2", "A3"], ["C"], ["A3"]),
                  ds_model("hist", 4, 3, A5, ["A", "B", "C"], ["A3"], simulate="num=40"),
                  ds_model("hist", 6, 3, A6, ["B", "A"], ["C", "D", "A2"], simulate="num=40")]
    else:
        models = [ds_model("pairs", 1, 3, A6), ds_model("pairs", 1, 4, A4), ds_model("hist", 2, 3, A5, ["A", "B"], ["B", "C"]),
                  ds_model("hist", 2, 3, ["A", "B", "C", "A2"], ["B", "A"], ["C"]),
                  ds_model("hist", 2, 3, A5, ["A", "B", "C"], ["A3"]),
                  ds_model("hist", 3, 2, ["A", "B", "A2"], ["A"], ["B"], simulate="num=1500"),
                  ds_model("hist", 10, 3, A6, ["B", "A"], ["C", "D", "A2"], simulate="num=400"),
                  ds_model("hist", 10, 3, A6 + ["A3"], [], ["D"], simulate="num=400")]
    # the models are run and replayed in small groups: the vectors of one group are dropped before the next one is generated
    # (all thorough models together once held 16 GB of parsed histories, multiplied by the forked replay workers)
    group = 6 if tier == "quick" else 1
    uniq_all = 0
    ops = out.extra.setdefault("history_steps_by_op", {})
    for g0 in range(0, len(models), group):
        vectors = []
        for m, res in core.run_models(models[g0:g0 + group], seed=seed, parallel=6):
            out.add_tlc(m, res)
            vectors += res.vectors
        seen, uniq = set(), []
        for v in vectors:
            k = json.dumps(v["hist"], sort_keys=True)
            if k not in seen:
                seen.add(k)
                uniq.append(v)
        del vectors, seen
        bad = core.replay_parallel(replay_dimsets.run_history, uniq)
        out.replayed += len(uniq)
        uniq_all += len(uniq)
        if g0 == 0:
            out.samples += [core.sample_of({"steps": [[s["op"], s["recv"], s["dst"], s["inplace"], s["args"], s["outcome"], s["post"]]
                                                      for s in v["hist"]], "start": v["hist"][0]["pre"]}, 900)
                            for v in uniq[:: max(1, len(uniq) // 3)][:3]]
        out.judge(bad, "dimsets", sig_ds)
        for v in uniq:
            for s in v["hist"]:
                k = s["op"] + ("/inplace" if s["inplace"] else "") + ("/error" if s["outcome"] == "error" else "")
                ops[k] = ops.get(k, 0) + 1
        del uniq, bad
    run_dimset_traces(out, "C14", tier)
    if tier == "thorough":
        # histories of ANY length: the state space over a finite alphabet is finite; with the history variables hidden TLC visits
        # every reachable state and checks the invariant and the action property on every transition (about 10 min on 16 cores)
        m = Model("MC_DimSets.tla", {"Scenario": "closure", "Depth": 0, "MaxLen": 3, "Alphabet": set(A4), "Emit": False,
                                     **{f"{x}{i}": "" for x in "ST" for i in (1, 2, 3)}},
                  invariants=["Prop_Unique"], properties=["Prop_Receiver"], workers=14, expect_vectors=False, view="ClosureView",
                  label="MC_DimSets/closure (unbounded histories, alphabet A B C A2)")
        res = core.run_model(m, seed=seed)
        out.add_tlc(m, res)
        out.extra["unbounded_history_closure"] = {"alphabet": A4, "reachable_states": res.distinct, "transitions_checked": res.generated}
        out.assumptions.append(
            "closure scenario (thorough): NO depth bound - every state reachable by histories of any length over the alphabet A, B, C, A2 "
            "(three registers + one array, sets of any length) is visited with the history variables hidden by a VIEW; UniqueInv and the action "
            "property ReceiverUnchanged hold on all of them: for this alphabet the specification satisfies C14 for ALL histories")
    out.exhaustive = True
    out.assumptions += [
        "direction B: seeded random programs of 30 (thorough 40) calls over four registers and an alphabet of ten dimensions on seven letters "
        "(sets of up to seven dimensions), every call logged at its return with what every real object reports about itself; TLC "
        "(Trace_DimSets.tla) accepts a trace iff the ordered-list model explains every event",
        "alphabet of 4 (thorough: 6) dimensions including two that clash by letter with others; sets of up to 3 (4) dimensions",
        "membership is by letter and the left operand's dimension is kept (the statement speaks of uniquely LETTERED dimensions)",
        "not generated (left open by the statement): replace by a dimension with the same letter as the replaced one, "
        "get_subset with a repeated key",
        "after every step every register is compared with the ordered-list model and all lookup forms "
        "(name, letter, position, in, index, size, shape, total_size, len, iteration) are checked against that order",
    ]
    return out.finish(rule="pairs: every ordered pair of dimension sets x 5 binary operators; hist: every history of depth 2-3 from "
                           "given starts, plus simulated histories of depth 6-10")


CHECKS = {"C14": check_C14}
