"""Direction A for spec/mc/MC_Tables.tla (C11, C12): abstract tables are concretised as pandas DataFrames in the
layout fixed by the style, imported with from_df / set_values_from_df / the CSV reader under all four flag
settings, and real to_df output is projected back to abstract rows."""

import io
import os
import shutil
import tempfile

import json

import numpy as np

from . import tlcrun
import pandas as pd

from .universe import flodym, Dimension, DimensionSet, FlodymArray

BLANK = -999999
DIMOBJ = {
    # item order deliberately NOT sorted: pandas sorts labels in pivots / MultiIndex levels
    "a": Dimension(name="dim_a", letter="a", items=["a3", "a1", "a2"], dtype=str),
    # (years at both ends of the range that an unnamed integer index is recognised as years by)
    "b": Dimension(name="dim_b", letter="b", items=[2300, 1700], dtype=int),
    "c": Dimension(name="dim_c", letter="c", items=[2, 1]),
    "d": Dimension(name="dim_d", letter="d", items=["d1"], dtype=str),
}
# the same dimensions (names, letters, item SETS) with their items listed in another order: every third vector is
# replayed a second time in this concretisation, in the same process (anything the library remembers about a
# dimension from an earlier import / export must not leak into a later one)
DIMSETS = [DIMOBJ, {
    # (string items that are all digits - a CSV reader parses them as integers; years at both ends of the range that an
    #  unnamed integer index is recognised as years by)
    "a": Dimension(name="dim_a", letter="a", items=["1", "2", "3"], dtype=str),
    "b": Dimension(name="dim_b", letter="b", items=[1700, 2300], dtype=int),
    "c": Dimension(name="dim_c", letter="c", items=[1, 2]),
    "d": Dimension(name="dim_d", letter="d", items=["d1"], dtype=str),
}]
CANON = ["a", "b", "c", "d"]
UNKNOWN = {"a": "zz", "b": 1999, "c": 99, "d": "zz"}


def item(l, lab):
    return UNKNOWN[l] if lab == 0 else DIMOBJ[l].items[lab - 1]


SPECIAL_VALUES = False      # fourth concretisation (run_vector): some cell values are +-inf or of extreme magnitude


def val(v):
    if v == BLANK:
        return np.nan
    if SPECIAL_VALUES and v != 0:
        # the import / export contract does not look at the values: whatever float a cell holds must arrive under its labels
        k = int(v) % 5
        if k in (1, 2, 3, 4):
            # (the large and small ones have short decimal expansions: pandas' default CSV parser is not exact to the last bit
            #  for long ones - first seen as a 1-ulp "difference" at 1e300 that was the harness's own CSV round trip)
            return {1: float("inf"), 2: float("-inf"), 3: 1e15 * int(v), 4: int(v) / 1024.0}[k]
    return float(v) + 0.25


def header(l, pos, hdr):
    kind = hdr
    if hdr == "mixed":
        kind = ["anon", "name", "letter"][pos % 3]     # positions 1, 2, 3 -> name, letter, anon (spec: j % 3 = 0 anonymous)
    if kind == "name":
        return DIMOBJ[l].name
    if kind == "letter":
        return l
    return f"column_{pos}"


def build_frame(vec):
    ds, wide, st = vec["ds"], vec["wide"], vec["style"]
    rd = [l for l in ds if l != wide]
    dropped = set(vec["dropped"])
    if st["omit"]:
        dropped |= {l for l in rd if len(DIMOBJ[l].items) == 1}
    cols = {}
    dimcols = []
    for pos, l in enumerate(rd, start=1):
        if l in dropped:
            continue
        h = header(l, pos, st["hdr"])
        cols[h] = [item(l, r["lab"][CANON.index(l)]) for r in vec["rows"]]
        dimcols.append(h)
    if wide:
        for j, it in enumerate(DIMOBJ[wide].items):
            cols[it] = [val(r["cells"][j]) for r in vec["rows"]]
        if vec["extraitem"]:
            cols[UNKNOWN[wide]] = [0.75 for _ in vec["rows"]]
    else:
        cols[st["valname"]] = [val(r["cells"][0]) for r in vec["rows"]]
        if vec["extraval"]:
            cols["second value"] = [1.75 for _ in vec["rows"]]
    df = pd.DataFrame(cols, columns=list(cols.keys()))
    n = len(df)
    if n > 1:
        if st["rowperm"] == "rev":
            df = df.iloc[::-1]
        elif st["rowperm"] == "rot":
            df = df.iloc[list(range(1, n)) + [0]]
    df = df.reset_index(drop=True)
    if st["colperm"] == "rev":
        df = df[list(df.columns)[::-1]]
    place = st["place"]
    unnamed_index = False
    if place == "index" and dimcols:
        df = df.set_index(dimcols)
        if st["hdr"] == "anon" and len(dimcols) == 1 and [l for l in rd if l not in dropped][0] in ("a", "b", "d"):
            # a single anonymous index level carries no name at all (strings, or years within the range in which the library
            # takes an unnamed integer index for data; other unnamed integer indexes are row numbers by definition)
            df.index.name = None
            unnamed_index = True
    elif place == "mixed" and len(dimcols) >= 2:
        df = df.set_index(dimcols[: len(dimcols) // 2])
    elif st["repidx"] and n >= 2:
        h = n // 2
        df = pd.concat([df.iloc[:h].reset_index(drop=True), df.iloc[h:].reset_index(drop=True)])   # row labels repeat
    if st["csv"]:
        buf = io.StringIO()
        has_index = any(n is not None for n in df.index.names) or unnamed_index
        df.to_csv(buf, index=has_index)
        buf.seek(0)
        df = pd.read_csv(buf)
    return df


def expected_values(vec):
    ds = vec["ds"]
    shape = tuple(len(DIMOBJ[l].items) for l in ds)
    a = np.zeros(shape)
    for t, v in vec["result"]:
        idx = tuple(t[CANON.index(l)] - 1 for l in ds)
        a[idx] = 0.0 if v == 0 else val(v)
    return a


def run_import(vec):
    ds = vec["ds"]
    dims = DimensionSet(dim_list=[DIMOBJ[l] for l in ds])
    tag0 = "{C11,C04}" if not vec["faults"] else "{C12}"
    desc = f"[dims {ds}, wide {vec['wide'] or '-'}, style {vec['styleid']}, faults {vec['faults']}] "
    try:
        df = build_frame(vec)
    except Exception as e:
        return [f"MACHINERY: cannot build the data frame: {e!r} for {desc}"]
    want = expected_values(vec)
    problems = []
    tmp = None
    for missing, extra, outcome in vec["outcomes"]:
        calls = ["from_df", "set_values_from_df"]
        if vec["style"]["csv"]:
            calls.append("csv_reader")
        # (a row whose cells are all empty does not survive an Excel file: not offered to the Excel path)
        all_blank_row = any(all(c == BLANK for c in r["cells"]) for r in vec["rows"]) and \
            not [l for l in vec["ds"] if l != vec["wide"] and l not in vec["dropped"] and not (vec["style"]["omit"] and len(DIMOBJ[l].items) == 1)]
        if vec["styleid"] in (1, 3) and len(vec["rows"]) <= 8 and not all_blank_row:
            calls.append("excel_reader")
        for call in calls:
            snapshot = df.copy(deep=True)
            tag = desc + f"{call}(allow_missing={missing}, allow_extra={extra}): "
            target = None
            raised = None
            got = None
            try:
                if call == "from_df":
                    got = FlodymArray.from_df(dims=dims, df=df, allow_missing_values=missing, allow_extra_values=extra).values
                elif call == "set_values_from_df":
                    # (the array that receives the table may hold values of any dtype; what is imported does not depend on it)
                    tdt = [np.float64, np.float32, np.int64, np.float64, np.int8][(len(vec.get("rows", [])) + len(vec["ds"])) % 5]
                    target = FlodymArray(dims=dims, values=np.full(tuple(d.len for d in dims), -5.0).astype(tdt))
                    target.set_values_from_df(df, allow_missing_values=missing, allow_extra_values=extra)
                    got = target.values
                elif call == "excel_reader":
                    tmp = tmp or tlcrun.reused_scratch("flodym-verif-tab-")
                    path = os.path.join(tmp, "p.xlsx")
                    df.to_excel(path, index=any(n is not None for n in df.index.names))
                    reader = flodym.ExcelParameterReader(parameter_files={"p": path}, allow_missing_values=missing, allow_extra_values=extra)
                    got = reader.read_parameter_values("p", dims).values
                else:
                    tmp = tmp or tlcrun.reused_scratch("flodym-verif-tab-")
                    path = os.path.join(tmp, "p.csv")
                    has_index = any(n is not None for n in df.index.names)
                    df.to_csv(path, index=has_index)
                    reader = flodym.CSVParameterReader(parameter_files={"p": path}, allow_missing_values=missing, allow_extra_values=extra)
                    got = reader.read_parameter_values("p", dims).values
            except Exception as e:
                raised = e
            try:
                same_input = df.equals(snapshot) and list(df.columns) == list(snapshot.columns) and df.index.equals(snapshot.index)
            except Exception:
                same_input = True
            if not same_input:
                problems.append(tag + "{C15} the input DataFrame was modified")
            if raised is not None:
                if outcome == "array":
                    problems.append(tag + tag0 + f" raised {type(raised).__name__}: {str(raised)[:160]}; the table is complete and consistent "
                                                 f"for these flags")
                if target is not None and not np.all(target.values == -5.0):
                    problems.append(tag + "{C12,C13} the target array was changed although the import was refused")
                continue
            # accepting a faulty table / placing entries that do not come from the unique row with their labels also
            # violates C11 ("whenever from_df returns at all, every entry it sets comes from the unique row ...")
            tag1 = tag0 if not vec["faults"] else "{C12,C11}"
            if outcome == "error":
                problems.append(tag + tag1 + " accepted a table that must be refused")
                continue
            if got.shape != want.shape or not (np.array_equal(got, want) if SPECIAL_VALUES else np.allclose(got, want, rtol=0, atol=1e-12, equal_nan=False)):
                bad = [(idx, got[idx], want[idx]) for idx in np.ndindex(*want.shape) if not (got.shape == want.shape and abs(got[idx] - want[idx]) <= 1e-12)][:3] \
                    if got.shape == want.shape else got.shape
                problems.append(tag + tag1 + f" entries differ from the rows carrying their labels: (index, got, want) {bad}")
    if tmp:
        shutil.rmtree(tmp, ignore_errors=True)
    return problems[:6]


def project_df(df, ds, wide):
    """to_df output -> {label tuple: value} (cells that are NaN in a pivoted frame are absent entries)"""
    names = {DIMOBJ[l].name: l for l in ds}
    flat = df.reset_index() if any(n is not None for n in df.index.names) else df
    out = {}
    rd = [l for l in ds if l != wide]
    for _, row in flat.iterrows():
        lab = {}
        for n, l in names.items():
            if l != wide:
                if n not in flat.columns:
                    raise KeyError(f"column {n} missing from to_df output")
                lab[l] = DIMOBJ[l].items.index(row[n]) + 1
        if wide:
            for it in DIMOBJ[wide].items:
                if it not in flat.columns:
                    continue        # a sparse frame has no column for an item without non-zero entries
                v = row[it]
                if v != v:
                    continue
                key = tuple(lab.get(l, DIMOBJ[wide].items.index(it) + 1 if l == wide else 0) for l in CANON)
                if key in out:
                    raise ValueError(f"labels {key} listed twice")
                out[key] = float(v)
        else:
            key = tuple(lab.get(l, 0) for l in CANON)
            if key in out:
                raise ValueError(f"labels {key} listed twice")
            out[key] = float(row["value"])
    return out


def run_export(vec):
    ds, wide, st = vec["ds"], vec["wide"], vec["style"]
    dims = DimensionSet(dim_list=[DIMOBJ[l] for l in ds])
    base = expected_values(vec)
    desc = f"[dims {ds}, dim_to_columns {wide or '-'}, style {vec['styleid']}] "
    problems = []
    for sparse in (False, True):
        vals = base.copy()
        if sparse:
            with np.errstate(all="ignore"):
                fin = np.where(np.isfinite(vals) & (np.abs(vals) < 1e9), vals, 1.0)
            vals[(fin * 4).astype(int) % 3 == 0] = 0.0      # a deterministic pattern of zeros
            if vec["styleid"] % 2 == 1 and vals.ndim >= 1 and vals.shape[0] > 1:
                vals[0, ...] = 0.0                            # an item whose whole slice is zero does not occur in the sparse frame at all
            nz = np.argwhere(vals != 0)
            if len(nz) >= 2:                                  # non-zero entries of very small magnitude stay entries
                vals[tuple(nz[0])] = 1e-12
                vals[tuple(nz[-1])] = -3e-300
        # every second style stores the values in a non-C-contiguous buffer: export must go by label, not memory order
        store = np.asfortranarray(vals.copy()) if (vec["styleid"] % 2 == 0 and vals.ndim >= 2) else vals.copy()
        arr = FlodymArray(dims=dims, values=store, name="x")
        index = st["place"] != "columns"
        dcol = None if not wide else (DIMOBJ[wide].name if st["hdr"] in ("name", "anon") else wide)
        tag = desc + f"to_df(index={index}, dim_to_columns={dcol!r}, sparse={sparse}): {{C11,C04}} "
        try:
            df = arr.to_df(index=index, dim_to_columns=dcol, sparse=sparse)
        except Exception as e:
            problems.append(tag + f"raised {type(e).__name__}: {str(e)[:160]}")
            continue
        if not np.array_equal(arr.values, vals):
            problems.append(tag.replace("{C11,C04}", "{C15}") + "to_df modified the array")
        try:
            got = project_df(df, ds, wide)
        except Exception as e:
            problems.append(tag + f"output cannot be read back as labelled rows: {e}")
            continue
        want = {}
        for idx in np.ndindex(*vals.shape):
            if sparse and vals[idx] == 0:
                continue
            want[tuple((idx[ds.index(l)] + 1) if l in ds else 0 for l in CANON)] = float(vals[idx])
        if got != want:
            diff = [(k, got.get(k), want.get(k)) for k in sorted(set(got) | set(want)) if got.get(k) != want.get(k)][:3]
            problems.append(tag + f"rows differ from the array's entries under their labels: (labels, listed, true) {diff}")
            continue
        # round trip: permute rows / columns, optionally through CSV text, and import again
        # (a sparse frame spread over columns may have lost a whole item column: only the long sparse form is re-imported)
        if sparse and wide:
            continue
        if wide == "c" and st["csv"]:
            continue   # untyped integer items as CSV headers come back as strings (see MC_Tables!LayoutOK)
        try:
            df2 = df
            n = len(df2)
            if n > 1 and st["rowperm"] != "id":
                order = list(range(n))[::-1] if st["rowperm"] == "rev" else list(range(1, n)) + [0]
                df2 = df2.iloc[order]
            if st["colperm"] == "rev":
                df2 = df2[list(df2.columns)[::-1]]
            if st["hdr"] == "letter":
                # the exported frame with its dimensions identified by LETTER instead of by name
                ren = {DIMOBJ[l].name: l for l in ds}
                df2 = df2.rename(columns=ren)
                if any(n is not None for n in df2.index.names):
                    df2.index = df2.index.set_names([ren.get(n, n) for n in df2.index.names])
            if st["csv"]:
                buf = io.StringIO()
                df2.to_csv(buf, index=any(n is not None for n in df2.index.names))
                buf.seek(0)
                df2 = pd.read_csv(buf)
            back = FlodymArray.from_df(dims=dims, df=df2, allow_missing_values=sparse)
            if not np.allclose(back.values, vals, rtol=0, atol=1e-12):
                problems.append(tag + "from_df(to_df(x)) after permuting rows/columns" + (" and a CSV round trip" if st["csv"] else "")
                                + " is not x")
        except Exception as e:
            problems.append(tag + f"round trip raised {type(e).__name__}: {str(e)[:160]}")
    return problems[:6]


def run_vector(vec):
    global DIMOBJ
    fn = run_import if vec["op"] == "import" else run_export
    problems = fn(vec)
    sel = (len(vec.get("rows", [])) + len(vec["ds"]) + vec.get("styleid", 0) + len(json.dumps(vec.get("result", [])))) % 6
    if not problems and sel == 0:
        DIMOBJ = DIMSETS[1]
        try:
            problems = ["[items of every dimension listed in another order] " + p for p in fn(vec)]
        finally:
            DIMOBJ = DIMSETS[0]
    elif not problems and sel == 1:
        # third concretisation: the SAME Dimension objects (just used above), their items replaced by the other item lists - by
        # assignment or in place; whatever an object remembers about its items from the earlier import / export must not be used
        saved = {l: list(d.items) for l, d in DIMOBJ.items()}
        try:
            for k, (l, d) in enumerate(DIMOBJ.items()):
                if (k + len(vec["ds"])) % 2:
                    d.items = list(DIMSETS[1][l].items)
                else:
                    d.items[:] = list(DIMSETS[1][l].items)
            problems = ["[items of the same Dimension objects replaced after an earlier call] " + p for p in fn(vec)]
        finally:
            for l, d in DIMOBJ.items():
                d.items = saved[l]
    if not problems and sel == 2:
        global SPECIAL_VALUES
        SPECIAL_VALUES = True
        try:
            problems = ["[cell values +inf / -inf / 1e15 x / 2^-10 x] " + p for p in fn(vec)]
        finally:
            SPECIAL_VALUES = False
    return problems


def run_large_roundtrip(case):
    """The round-trip clause of C11 on LARGE instances (dimensions with hundreds of items), where no bounded model reaches:
    from_df(to_df(x)) == x in every to_df layout, after reversing the rows, and to_df lists every entry under its labels."""
    n_time, n_reg, layout = case
    t = Dimension(name="Time", letter="t", items=list(range(1800, 1800 + n_time)), dtype=int)
    r = Dimension(name="Region", letter="r", items=[f"reg{i:03d}" for i in range(n_reg)][::-1], dtype=str)
    e = Dimension(name="Element", letter="e", items=["Fe", "Cu"], dtype=str)
    dims = DimensionSet(dim_list=[r, t, e] if layout % 2 else [t, e, r])
    rng = np.random.default_rng(n_time * 1000 + n_reg)
    vals = rng.integers(1, 10 ** 6, size=tuple(d.len for d in dims)).astype(float) + 0.5
    x = FlodymArray(dims=dims, values=vals.copy())
    problems = []
    tag = f"[large instance: {n_time} years x {n_reg} regions x 2 elements, dims {dims.letters}] {{C11,C04}} "
    for index, dcol in ((True, None), (False, None), (True, "Time"), (False, "r")):
        if dcol is not None and max(n_time, n_reg) > 5000 and (dcol == "Time") == (n_time > n_reg):
            continue        # (tens of thousands of columns: not a table anybody writes, and slow)
        try:
            df = x.to_df(index=index, dim_to_columns=dcol)
            back = FlodymArray.from_df(dims=dims, df=df.iloc[::-1])
            if not np.array_equal(back.values, vals):
                bad = int(np.sum(back.values != vals))
                problems.append(tag + f"from_df(to_df(x, index={index}, dim_to_columns={dcol!r})) differs from x in {bad} entries")
            if dcol is None:
                flat = df.reset_index() if index else df
                i = len(flat) // 3
                row = flat.iloc[i]
                idx = tuple(d.items.index(row[d.name]) for d in dims)
                if float(row["value"]) != vals[idx]:
                    problems.append(tag + f"to_df row {i} lists {row['value']} under labels whose entry is {vals[idx]}")
        except Exception as ex:
            problems.append(tag + f"round trip raised {type(ex).__name__}: {str(ex)[:150]}")
    return problems[:3]


def run_large_faulty(case):
    """The fault clauses of C12 on LARGE instances: rows dropped (allow_missing_values: zero there, every present entry under its
    labels; default: refused, array untouched) and rows with an unknown item added (allow_extra_values: ignored)."""
    n_time, n_reg, layout = case
    t = Dimension(name="Time", letter="t", items=list(range(1800, 1800 + n_time)), dtype=int)
    r = Dimension(name="Region", letter="r", items=[f"reg{i:03d}" for i in range(n_reg)][::-1], dtype=str)
    dims = DimensionSet(dim_list=[r, t] if layout % 2 else [t, r])
    rng = np.random.default_rng(n_time * 31 + n_reg)
    vals = rng.integers(1, 10 ** 6, size=tuple(d.len for d in dims)).astype(float) + 0.5
    df = FlodymArray(dims=dims, values=vals.copy()).to_df(index=False)
    drop = sorted(set(int(i) for i in rng.integers(0, len(df), size=7)) | {0, len(df) - 1})
    kept = df.drop(index=drop).iloc[::-1].reset_index(drop=True)
    expected = vals.copy()
    for i in drop:
        row = df.iloc[i]
        expected[tuple(d.items.index(row[d.name]) for d in dims)] = 0.0
    tag = f"[large instance: {n_time} years x {n_reg} regions, dims {dims.letters}, {len(drop)} rows dropped] {{C12}} "
    problems = []
    try:
        x = FlodymArray(dims=dims, values=np.full(vals.shape, 7.0))
        try:
            x.set_values_from_df(kept.copy())
            problems.append(tag + "default settings accepted data with missing label combinations")
        except Exception:
            if not np.array_equal(x.values, np.full(vals.shape, 7.0)):
                problems.append(tag + "a refused import left a partially filled array behind")
        x = FlodymArray(dims=dims, values=np.full(vals.shape, 7.0))
        x.set_values_from_df(kept.copy(), allow_missing_values=True)
        if not np.array_equal(x.values, expected):
            problems.append(tag + f"allow_missing_values: {int(np.sum(x.values != expected))} of {expected.size} entries are not (present entry under "
                                  f"its labels / zero where missing)")
        extra = df.iloc[[1, len(df) // 2]].copy()
        extra["Region"] = "no_such_region"
        more = pd.concat([df, extra]).iloc[::-1].reset_index(drop=True)
        x = FlodymArray(dims=dims, values=np.full(vals.shape, 7.0))
        x.set_values_from_df(more, allow_extra_values=True)
        if not np.array_equal(x.values, vals):
            problems.append(tag.replace("rows dropped", "rows dropped; here: 2 rows with an unknown item added") +
                            f"allow_extra_values: {int(np.sum(x.values != vals))} entries differ from the data")
    except Exception as ex:
        problems.append(tag + f"raised {type(ex).__name__}: {str(ex)[:150]}")
    return problems[:3]


def run_special_layouts(case):
    """Two layouts outside the ten styles of the bounded model.
    (1) HEADER-LESS text files (no header line at all: a plain pd.read_csv takes the first data line for the column names):
        a valid file is imported as the array (C11); the same file with one line repeated - in particular the FIRST line,
        which sits in the column names - has a duplicated label combination and is refused under every flag setting (C12).
    (2) a table WITHOUT ANY ROW under the default flags: every label combination is missing, so it is refused and the target
        array is left untouched (C12)."""
    letters, dup_line = case
    dims = DimensionSet(dim_list=[DIMOBJ[l] for l in letters])
    shape = tuple(d.len for d in dims)
    vals = (np.arange(1, int(np.prod(shape)) + 1, dtype=float) * 3 + 0.25).reshape(shape)
    rows = []
    for idx in np.ndindex(*shape):
        rows.append([dims[k].items[i] for k, i in enumerate(idx)] + [vals[idx]])
    problems = []
    tag = f"[header-less file, dims {letters}, repeated line {dup_line}] "
    lines = rows if dup_line is None else rows + [rows[dup_line][:-1] + [99.25]]
    text = "\n".join(",".join(str(c) for c in r) for r in lines) + "\n"
    for missing, extra in ((False, False), (True, False), (False, True), (True, True)):
        for call in ("from_df", "set_values_from_df"):
            df = pd.read_csv(io.StringIO(text))
            target = FlodymArray(dims=dims, values=np.full(shape, -5.0))
            try:
                if call == "from_df":
                    got = FlodymArray.from_df(dims=dims, df=df, allow_missing_values=missing, allow_extra_values=extra).values
                else:
                    target.set_values_from_df(df, allow_missing_values=missing, allow_extra_values=extra)
                    got = target.values
                raised = None
            except Exception as e:
                raised, got = e, None
            t = tag + f"{call}(allow_missing={missing}, allow_extra={extra}): "
            if dup_line is None:
                if raised is not None:
                    problems.append(t + f"{{C11}} a valid header-less table was refused: {str(raised)[:120]}")
                elif not np.array_equal(got, vals):
                    problems.append(t + "{C11,C04} the imported array is not the file's content under its labels")
            else:
                if raised is None:
                    problems.append(t + "{C12} a duplicated label combination was accepted")
                elif call == "set_values_from_df" and not np.array_equal(target.values, np.full(shape, -5.0)):
                    problems.append(t + "{C12,C13} a refused import left the array changed")
    if dup_line is None:
        # (2) no rows at all, default flags
        header = [d.name for d in dims] + ["value"]
        for call in ("from_df", "set_values_from_df", "csv_reader"):
            target = FlodymArray(dims=dims, values=np.full(shape, -5.0))
            tmp = None
            try:
                empty = pd.DataFrame({h: [] for h in header})
                if call == "from_df":
                    FlodymArray.from_df(dims=dims, df=empty)
                elif call == "set_values_from_df":
                    target.set_values_from_df(empty)
                else:
                    tmp = tempfile.mkdtemp(prefix="flodym-verif-empty-")
                    path = os.path.join(tmp, "p.csv")
                    with open(path, "w") as fh:
                        fh.write(",".join(header) + "\n")
                    flodym.CSVParameterReader(parameter_files={"p": path}).read_parameter_values("p", dims)
                problems.append(f"[table without any row, dims {letters}] {call} with default flags: {{C12}} every label combination is missing but the "
                                f"import was accepted")
            except Exception:
                if not np.array_equal(target.values, np.full(shape, -5.0)):
                    problems.append(f"[table without any row, dims {letters}] {call}: {{C12,C13}} a refused import left the array changed")
            finally:
                if tmp:
                    shutil.rmtree(tmp, ignore_errors=True)
    return problems[:4]
