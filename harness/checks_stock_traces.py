"""Direction B for the stock properties: recorded histories on one stock object validated by TLC
(spec/trace/Trace_Stocks.tla).  A rejection names the table that differs and, in braces, the properties it breaks."""

import re

from . import core, trace_stocks


def run_stock_traces(out, prop, tier):
    ntraces, nsteps = (60, 14) if tier == "quick" else (1500, 24)
    batch = trace_stocks.record_batch(ntraces, nsteps, out.seed)
    acc, rej, res = trace_stocks.validate_batch(batch, workers=4 if tier == "quick" else 8)
    out.states += res.distinct
    out.transitions += res.generated
    out.models.append({"model": "Trace_Stocks", "states": res.distinct, "generated": res.generated, "traces": ntraces,
                       "accepted": len(acc), "wall_s": round(res.wall, 2)})
    bad = []
    for tid, (pos, clause) in rej.items():
        tr = batch["traces"][tid - 1]
        m = re.search(r"\{([^}]*)\}", clause)
        props = set(m.group(1).split(",")) if m else {"C17", "C03", "C09", "C10"}      # "compute raised": every stock property
        if prop not in props:
            continue
        vec = {"trace": {k: tr[k] for k in ("grid", "nl", "family", "setting", "cls", "solver", "init")} | {"events": tr["events"][:pos]}}
        bad.append((vec, [f"{{{prop}}} recorded history on one {tr['cls']}-driven stock object ({tr['family']}/{tr['setting']}, grid {tr['grid']}, "
                          f"{tr['nl']} label(s)) rejected by the specification at event {pos}: {clause}"]))
    out.judge(bad, "stock_trace", lambda v, p: {"engine": "stock_trace", "cls": v["trace"]["cls"], "clause": p[0].split(": ")[-1][:40]})
    out.traces_validated += ntraces
    out.extra["recorded_stock_histories_validated_by_TLC"] = ntraces
    out.extra["recorded_events"] = out.extra.get("recorded_events", 0) + sum(len(t["events"]) for t in batch["traces"])
    kinds = out.extra.setdefault("recorded_histories_by_class", {})
    for t in batch["traces"]:
        kinds[t["cls"]] = kinds.get(t["cls"], 0) + 1
    t0 = batch["traces"][0]
    out.samples.append(core.sample_of({"recorded_stock_history": {"cls": t0["cls"], "grid": t0["grid"], "family": t0["family"], "setting": t0["setting"],
                                                                  "events": [[e["op"], e["t"], e["lab"], e["val"], e["outcome"]] for e in t0["events"][:10]]}}, 700))
    out.assumptions.append(
        "direction B (Trace_Stocks.tla): one real stock object per trace (inflow-driven, stock-driven with either solver, flow-driven) on random - "
        "mostly uneven - grids whose interval lengths are powers of two, integer drivers, fixed / step lifetimes with start / middle / end / 2-point "
        "rules: all results are dyadic rationals, logged as exact fractions; histories of single-entry driver writes, set_prms (scalar / per cohort / "
        "per label / full, any storage order) and repeated compute(); TLC keeps the current inputs and accepts iff every logged table is exactly the "
        "contract's")
    return ntraces
