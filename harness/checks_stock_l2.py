"""L2 refinement for the dynamic stock models: spec/StocksImpl.tla writes the pipeline of flodym/stocks.py as a state
machine (whole-period inflows, forward substitution row by row, cohort tables, outflow) and TLC proves that what it ends
with is the contract's (Refines), that it conserves mass and that the substitution reads only rows already written.
Non-vacuity: the two algorithms the repository had before the fixes F6 / F7 must be REFUTED on every uneven grid (and are
shown to coincide with the contract on unit grids - which is why the repository's tests did not see them)."""

from . import core, tlcrun
from .core import Machinery
from .checks_stocks import GRIDS

L2_CONFIGS = [
    # grid, nl, family, setting, kind, p0, pc, pl
    ("uneven4", 2, "step", "end", "lab", 16, 0, 8),
    ("uneven4", 2, "fixed", "middle", "both", 12, 8, 4),
    ("uneven5", 1, "step", "middle", "cohort", 24, 4, 0),
    ("n3", 2, "fixed", "gl2", "lab", 10, 0, 6),
    ("const5", 2, "fixed", "end", "both", 60, 8, 16),
    ("uneven6", 1, "step", "start", "scalar", 40, 0, 0),
    ("uneven5", 2, "fixed", "start", "lab", 90, 0, 16),
    ("unit4", 2, "step", "end", "lab", 16, 0, 8),
    ("unit5", 1, "fixed", "middle", "cohort", 20, 4, 0),
]
INVS = ["Prop_Refines", "Prop_ImplConserves", "Prop_RowsInOrder"]


def consts(cfg, variant, cls):
    grid, nl, fam, setting, kind, p0, pc, pl = cfg
    g = GRIDS[grid]
    c = {f"G{i + 1}": (g[i] if i < len(g) else 0) for i in range(6)}
    c.update({"MCNL": nl, "MCFamily": fam, "MCSetting": setting, "PrmKind": kind, "P0": p0, "PC": pc, "PL": pl,
              "MCVariant": variant, "MCClass": cls, "NCombos": 2})
    return c


def dt2(grid):
    """doubled interval lengths (boundaries at the midpoints, outer intervals mirrored): g3 - g1, g[i+1] - g[i-1], gN - g[N-2]"""
    g = GRIDS[grid]
    n = len(g)
    return [g[2] - g[0]] + [g[i + 1] - g[i - 1] for i in range(1, n - 1)] + [g[n - 1] - g[n - 3]]


def must_differ(variant, grid):
    """pre_F6 (annual inflow of the cohort in the outflow) differs from the contract iff the interval lengths are not all
    equal; pre_F7 (annual inflow in the cohort table) iff some interval is not one year long"""
    d = dt2(grid)
    return len(set(d)) > 1 if variant == "pre_F6" else any(x != 2 for x in d)


def run_l2(out, prop, tier):
    cfgs = L2_CONFIGS[:5] + L2_CONFIGS[7:8] if tier == "quick" else L2_CONFIGS
    variants = {"C03": ["pre_F6"], "C09": ["pre_F6", "pre_F7"], "C10": ["pre_F7"]}.get(prop, [])
    jobs = []
    for cfg in cfgs:
        for cls in ("inflow", "stock"):
            jobs.append((cfg, "current", cls))
            for v in variants:
                if v == "pre_F7" and cls == "inflow":
                    continue
                jobs.append((cfg, v, cls))
    from concurrent.futures import ThreadPoolExecutor

    def one(job):
        cfg, variant, cls = job
        return tlcrun.run_tlc("MC_StocksImpl.tla", tlcrun.cfg_text(constants=consts(cfg, variant, cls), invariants=INVS), workers=1)
    with ThreadPoolExecutor(max_workers=8) as ex:
        results = list(ex.map(one, jobs))
    summary = out.extra.setdefault("l2_refinement", {"current_holds": 0, "pre_fix_refuted_on_non_unit_grids": 0, "pre_fix_coincides_on_unit_grids": 0})
    for (cfg, variant, cls), res in zip(jobs, results):
        out.states += res.distinct
        out.transitions += res.generated
        out.models.append({"model": f"MC_StocksImpl/{variant}/{cls}/{cfg[0]}/{cfg[2]}/{cfg[3]}", "states": res.distinct, "generated": res.generated,
                           "verdict": res.violation or "holds", "wall_s": round(res.wall, 2)})
        if variant == "current":
            if res.violation:
                raise Machinery(f"L2 refinement fails for the CURRENT algorithm ({cfg}, {cls}): {res.violation} - the specification of the "
                                f"pipeline (StocksImpl.tla) and the contract (Stocks.tla) disagree")
            summary["current_holds"] += 1
        elif must_differ(variant, cfg[0]):
            if not res.violation:
                raise Machinery(f"the pre-fix algorithm {variant} is NOT refuted on grid {cfg[0]} ({cls}): Refines is vacuous")
            summary["pre_fix_refuted_on_non_unit_grids"] += 1
        else:
            if res.violation:
                raise Machinery(f"the pre-fix algorithm {variant} is refuted on grid {cfg[0]} where it should coincide with the contract")
            summary["pre_fix_coincides_on_unit_grids"] += 1
    out.assumptions.append(
        "L2 (spec/StocksImpl.tla): the pipeline of flodym/stocks.py as a state machine - TLC proves Refines (final tables = contract), mass "
        "conservation and in-order forward substitution for the current algorithm on every configuration x class x driver, and refutes the "
        "algorithms the repository had before the fixes F6 / F7 on every non-unit grid (they coincide with the contract on unit grids)")
