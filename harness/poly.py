"""Formal polynomials used to run the REAL flodym code on opaque ring elements.

A numpy object array whose entries are `Poly` passes through einsum / tile / cumsum /
indexing / assignment.  Two polynomials are equal iff they denote the same real function,
so one execution per configuration decides a linear/polynomial identity for ALL values.

Representation mirrors spec/Values.tla exactly:
    generator g = (k, t)     k: array id (9 = the plain number), t: canonical label tuple,
                             k < 0: the formal inverse of (-k, t)
    monomial    = sorted tuple of (g, e), e >= 1
    polynomial  = dict monomial -> non-zero Fraction

Order-dependent operations (minimum / maximum / abs / sign) are run *concolically*: when
`Poly.seed` is not None, comparisons consult the valuation nu(seed, g) (the same function as
Values!Nu); otherwise any comparison, truth test or float conversion raises, so that a
data-dependent branch in the implementation is detected instead of silently taken.
"""

from fractions import Fraction
from numbers import Number


class SymbolicBranch(Exception):
    """The implementation branched on (or converted) a symbolic value."""


def seq_code(t):
    return sum(v * (2 * i + 1) for i, v in enumerate(t, start=1))


def nu(seed, g):
    """Values!Nu: valuation of generator g = (k, t) under `seed` (an int in -5..5)."""
    k, t = g
    return (((abs(k) * 7 + seq_code(t) + 1) * (2 * seed + 3)) % 11) - 5


def _as_fraction(x):
    if isinstance(x, Fraction):
        return x
    if isinstance(x, bool):
        return Fraction(int(x))
    if isinstance(x, int):
        return Fraction(x)
    if isinstance(x, float):
        if x != x or x in (float("inf"), float("-inf")):
            raise SymbolicBranch(f"non-finite float {x} combined with a symbolic value")
        return Fraction(x)  # exact
    try:
        import numpy as np

        if isinstance(x, np.integer):
            return Fraction(int(x))
        if isinstance(x, np.floating):
            return _as_fraction(float(x))
        if isinstance(x, np.bool_):
            return Fraction(int(x))
    except ImportError:  # pragma: no cover
        pass
    return None


class Poly:
    __slots__ = ("t",)
    seed = None  # class-level concolic valuation seed
    __array_priority__ = 1000

    def __init__(self, terms=None):
        self.t = terms if terms is not None else {}

    # ---- constructors
    @staticmethod
    def const(c):
        c = Fraction(c)
        return Poly({(): c} if c != 0 else {})

    @staticmethod
    def gen(k, t):
        return Poly({(((k, tuple(t)), 1),): Fraction(1)})

    @staticmethod
    def coerce(x):
        if isinstance(x, Poly):
            return x
        f = _as_fraction(x)
        if f is None:
            return None
        return Poly.const(f)

    # ---- structure
    def is_const(self):
        return all(m == () for m in self.t)

    def const_value(self):
        return self.t.get((), Fraction(0))

    def single_gen(self):
        if len(self.t) != 1:
            return None
        (m, c), = self.t.items()
        if c != 1 or len(m) != 1 or m[0][1] != 1:
            return None
        return m[0][0]

    # ---- ring operations
    def __add__(self, o):
        o = Poly.coerce(o)
        if o is None:
            return NotImplemented
        r = dict(self.t)
        for m, c in o.t.items():
            v = r.get(m, 0) + c
            if v == 0:
                r.pop(m, None)
            else:
                r[m] = v
        return Poly(r)

    __radd__ = __add__

    def __neg__(self):
        return Poly({m: -c for m, c in self.t.items()})

    def __pos__(self):
        return self

    def __sub__(self, o):
        o = Poly.coerce(o)
        if o is None:
            return NotImplemented
        return self + (-o)

    def __rsub__(self, o):
        o = Poly.coerce(o)
        if o is None:
            return NotImplemented
        return o + (-self)

    @staticmethod
    def _mmul(m, n):
        d = dict(m)
        for g, e in n:
            d[g] = d.get(g, 0) + e
        return tuple(sorted(d.items()))

    def __mul__(self, o):
        o = Poly.coerce(o)
        if o is None:
            return NotImplemented
        r = {}
        for m, c in self.t.items():
            for n, d in o.t.items():
                mn = Poly._mmul(m, n)
                v = r.get(mn, 0) + c * d
                if v == 0:
                    r.pop(mn, None)
                else:
                    r[mn] = v
        return Poly(r)

    __rmul__ = __mul__

    def _inverse(self):
        g = self.single_gen()
        if g is not None:
            return Poly.gen(-g[0], g[1])
        if self.is_const() and self.const_value() != 0:
            return Poly.const(1 / self.const_value())
        raise SymbolicBranch(f"division by a non-generator polynomial {self!r}")

    def __truediv__(self, o):
        o = Poly.coerce(o)
        if o is None:
            return NotImplemented
        return self * o._inverse()

    def __rtruediv__(self, o):
        o = Poly.coerce(o)
        if o is None:
            return NotImplemented
        return o * self._inverse()

    def __pow__(self, o):
        o = Poly.coerce(o)
        if o is None:
            return NotImplemented
        if o.is_const() and o.const_value().denominator == 1 and o.const_value() >= 0:
            r = Poly.const(1)
            for _ in range(int(o.const_value())):
                r = r * self
            return r
        raise SymbolicBranch("symbolic exponent")

    def __rpow__(self, o):
        raise SymbolicBranch("symbolic exponent")

    # ---- evaluation
    def eval(self, val):
        """Exact value under `val`: generator -> Fraction (inverse generators via 1/val)."""
        tot = Fraction(0)
        for m, c in self.t.items():
            p = c
            for g, e in m:
                if g[0] < 0:
                    p *= Fraction(1) / (Fraction(val((-g[0], g[1]))) ** e)
                else:
                    p *= Fraction(val(g)) ** e
            tot += p
        return tot

    def _cv(self):
        if Poly.seed is None:
            raise SymbolicBranch("comparison / branch on a symbolic value")
        s = Poly.seed
        return self.eval(lambda g: nu(s, g))

    def _cmp(self, o):
        o = Poly.coerce(o)
        if o is None:
            raise SymbolicBranch("comparison of a symbolic value with a foreign object")
        return self._cv(), o._cv()

    def __lt__(self, o):
        a, b = self._cmp(o)
        return a < b

    def __le__(self, o):
        a, b = self._cmp(o)
        return a <= b

    def __gt__(self, o):
        a, b = self._cmp(o)
        return a > b

    def __ge__(self, o):
        a, b = self._cmp(o)
        return a >= b

    def __abs__(self):
        return self if self._cv() >= 0 else -self

    def __eq__(self, o):
        if isinstance(o, Poly):
            return self.t == o.t  # structural: same real function
        o2 = Poly.coerce(o)
        if o2 is None:
            return False
        if Poly.seed is not None:  # concolic comparison with a plain number (np.sign needs it)
            return self._cv() == o2._cv()
        return self.t == o2.t

    def __ne__(self, o):
        return not self.__eq__(o)

    def __hash__(self):
        return hash(tuple(sorted(self.t.items())))

    def __bool__(self):
        raise SymbolicBranch("truth value of a symbolic value")

    def __float__(self):
        raise SymbolicBranch("float() of a symbolic value")

    def __int__(self):
        raise SymbolicBranch("int() of a symbolic value")

    __index__ = None

    def __getitem__(self, index):
        # numpy scalars (np.float64) can be indexed with np.newaxis / Ellipsis / (); einsum on a
        # 0-d object array returns the bare element, so the element has to behave the same way
        import numpy as np

        idx = index if isinstance(index, tuple) else (index,)
        if all(i is None or i is Ellipsis for i in idx):
            a = np.empty((), dtype=object)
            a[()] = self
            return a[index]
        raise IndexError("invalid index to scalar variable.")

    def __repr__(self):
        if not self.t:
            return "0"
        parts = []
        for m, c in sorted(self.t.items()):
            ms = "*".join(
                ("x%d%s" % (g[0], list(g[1])) if g[0] >= 0 else "1/x%d%s" % (-g[0], list(g[1])))
                + ("" if e == 1 else "^%d" % e)
                for g, e in m
            )
            parts.append(f"{c}" + ("*" + ms if ms else ""))
        return " + ".join(parts)

    # ---- JSON (the format emitted by TLC: set of [monomial, coef], monomial = set of [g, e])
    @staticmethod
    def from_json(j):
        t = {}
        for m, c in j:
            mono = tuple(sorted(((int(g[0]), tuple(int(v) for v in g[1])), int(e)) for g, e in m))
            t[mono] = Fraction(int(c))
        return Poly(t)

    def to_json(self):
        out = []
        for m, c in sorted(self.t.items()):
            out.append([[[[g[0], list(g[1])], e] for g, e in m], str(c)])
        return out


Number.register(Poly)
