"""Direction B for whole model runs: recorded histories on one real MFASystem object (build from definition, parameter edits,
compute() = a program of array expressions and stock computations, checks, exports, recompute) validated by TLC against
spec/Lifecycle.tla (spec/trace/Trace_Lifecycle.tla).  A rejection names the clause and, in braces, the properties it breaks."""

import concurrent.futures as cf
import re

from . import core, trace_lifecycle

# (universe id, traces, steps) per tier; the 4-dimension universe is expensive for TLC and mostly left to the thorough tier
PLAN = {"quick": [(0, 16, 24), (1, 16, 24), (2, 3, 20)],
        "thorough": [(0, 300, 34), (1, 300, 34), (2, 60, 30), (-1, 2, 12)]}


def _one(args):
    uid, ntraces, nsteps, seed, workers = args
    # uid -1: the library's own example system (flodym.example_objects) as a fixed instance; its compute() is the library's
    batch = trace_lifecycle.record_example_batch(ntraces, nsteps, seed) if uid < 0 else trace_lifecycle.record_batch(uid, ntraces, nsteps, seed)
    acc, rej, res = trace_lifecycle.validate_batch(batch, workers=workers)
    bad = []
    for tid, (pos, clause) in rej.items():
        tr = batch["traces"][tid - 1]
        bad.append((tid, pos, clause, {"universe": batch["universe"], "trace": {"grid": tr["grid"], "model": tr["model"], "init": tr["init"],
                                                                                 "events": tr["events"][:pos]}}))
    ops = {}
    for t in batch["traces"]:
        for e in t["events"]:
            k = e["op"] + (":" + e["kind"] if e["op"] == "export" else "") + (":" + e["outcome"][:4] if e["op"] in ("check_mb", "check_flows") else "")
            ops[k] = ops.get(k, 0) + 1
    sample = batch["traces"][0]
    return {"uid": uid, "n": ntraces, "accepted": len(acc), "bad": bad, "distinct": res.distinct, "generated": res.generated, "wall": res.wall,
            "events": sum(len(t["events"]) for t in batch["traces"]), "ops": ops,
            "sample": {"grid": sample["grid"], "model": sample["model"], "events": [[e["op"], e.get("id", 0), e["outcome"]] for e in sample["events"][:12]]}}


def sig_life(vec, probs):
    m = re.search(r"step \d+ \((\w+)\)", probs[0])
    return {"engine": "lifecycle", "model": vec.get("modelid"), "op": m.group(1) if m else "build"}


def run_lifecycle_models(out, prop, tier):
    """direction A: every maximal history of the bounded model, replayed on a real system (harness/replay_lifecycle.py)"""
    from . import replay_lifecycle
    from .core import Model
    depth, rich = (2, False) if tier == "quick" else (3, True)
    models = [Model("MC_Lifecycle.tla", {"ModelId": mid, "Depth": depth, "Emit": True, "Rich": rich}, invariants=["Prop_Lifecycle", "EmitInv"],
                    workers=3 if tier == "quick" else 5, label=f"MC_Lifecycle/model{mid}/depth{depth}{'/rich' if rich else ''}") for mid in (1, 2, 3, 4)]
    vectors = []
    for m, res in core.run_models(models, seed=out.seed, parallel=4):
        out.add_tlc(m, res)
        vectors += res.vectors
    bad = core.replay_parallel(replay_lifecycle.run_vector, vectors)
    out.replayed += len(vectors)
    out.extra["model_run_histories_replayed"] = len(vectors)
    out.judge(core.for_property(bad, prop), "lifecycle", sig_life)
    out.assumptions.append(
        "direction A (MC_Lifecycle.tla): four model definitions (a conserving split + dynamic stock chain, a non-conserving program with a "
        "flow-driven stock, two dynamic stocks in a row with one outside every process, a stock-driven stock prescribed by a cumulated demand "
        "with an outflow written item by item); ALL histories to the stated depth of compute / one "
        "parameter entry overwritten / lifetime replaced / one flow entry overwritten (negative, NaN); TLC checks in every state: the program is "
        "well-formed, the mirror law, compute() forgets everything but parameters and lifetimes, right after compute() a conserving program is "
        "balanced at every process and every computed stock conserves mass, and the failing set does not depend on the storage order of the "
        "flows; every history is run on a real system in two build / spelling variants, with both checks in every tolerance form and all export "
        "forms after every step")


def run_lifecycle_traces(out, prop, tier, direction_a=True):
    if direction_a:
        run_lifecycle_models(out, prop, tier)
    plan = PLAN[tier]
    jobs = [(uid, n, steps, out.seed, 3 if tier == "quick" else 5) for uid, n, steps in plan]
    with cf.ProcessPoolExecutor(max_workers=len(jobs), mp_context=core.mp.get_context("spawn")) as ex:
        results = list(ex.map(_one, jobs))
    bad = []
    total = 0
    for r in results:
        total += r["n"]
        out.states += r["distinct"]
        out.transitions += r["generated"]
        out.models.append({"model": f"Trace_Lifecycle(universe {r['uid']})", "states": r["distinct"], "generated": r["generated"], "traces": r["n"],
                           "accepted": r["accepted"], "wall_s": round(r["wall"], 2)})
        for tid, pos, clause, vec in r["bad"]:
            m = re.search(r"\{([^}]*)\}", clause)
            props = set(m.group(1).split(",")) if m else set()
            if prop not in props:
                continue
            bad.append((vec, [f"{{{prop}}} recorded model run (universe {r['uid']}, {len(vec['trace']['model']['flows'])} flows, "
                              f"{len(vec['trace']['model']['stocks'])} stocks) rejected by the specification at event {pos} "
                              f"({vec['trace']['events'][-1]['op']}): {clause}"]))
        ops = out.extra.setdefault("recorded_model_run_events_by_kind", {})
        for k, v in r["ops"].items():
            ops[k] = ops.get(k, 0) + v
    out.judge(bad, "lifecycle_trace", lambda v, p: {"engine": "lifecycle_trace", "clause": p[0].split(": ")[-1][:40]})
    out.traces_validated += total
    out.extra["recorded_model_runs_validated_by_TLC"] = total
    out.extra["recorded_events"] = out.extra.get("recorded_events", 0) + sum(r["events"] for r in results)
    out.samples.append(core.sample_of({"recorded_model_run": results[0]["sample"]}, 900))
    out.assumptions.append(
        "direction B (Lifecycle.tla / Trace_Lifecycle.tla): one real MFASystem per trace, built from its MFADefinition through from_data_reader / "
        "from_csv / from_excel; compute() interprets a random program of flodym expressions (products, sums, differences, sum_to, scalar factors), "
        "whole-array assignments into flows and stock inflows and stock computations (inflow-driven DSM with a fixed lifetime under the start / "
        "middle / end / 2-point rules, flow-driven stocks); history: parameter entries edited, lifetimes replaced (set_prms in three forms), "
        "compute(), flow entries overwritten (also negative / NaN), check_mass_balance with default / zero / explicit tolerance, check_flows with "
        "exception lists, numpy / pandas / pickle / CSV exports (CSV repeatedly into one directory; pandas / CSV tables also read back with "
        "from_df), Sankey diagrams with random slices, exclusions and split flows; all values are dyadic rationals on grids whose "
        "interval lengths are powers of two and are logged as exact fractions; thorough tier: also the library's own example system "
        "(flodym.example_objects.ExampleMFA, 31 years x 3 materials, its own compute()) as a fixed instance with dyadic parameter values; TLC keeps the specification's state and accepts an event iff every "
        "array of the real system equals the contract's and the report / export is what the contract says for the current values")
    return total
