"""Shared machinery of the checks: running models, replaying vectors in parallel,
known findings, replay files, evidence, verdicts."""

import concurrent.futures as cf
import hashlib
import json
import multiprocessing as mp
import os
import sys
import time
import traceback

from . import tlcrun

VERIF = tlcrun.VERIF
# tools/try_mutants.py redirects both (VERIF_OUT_DIR) so that trying a seeded change never rewrites the evidence of the real tree
_OUT = os.environ.get("VERIF_OUT_DIR") or VERIF
EVIDENCE_DIR = os.path.join(_OUT, "evidence")
REPLAY_DIR = os.path.join(_OUT, "replays")
FINDINGS_FILE = os.path.join(VERIF, "known_findings.json")


def names_in(text, names):
    """The known names occurring in a report text, as whole words, longest match first ('A => B (2)' is not also 'A => B').
    Reports are read this way - not by the library's present wording - so that a reworded message is not mistaken for a wrong report."""
    text = text or ""
    found, covered = [], []
    for n in sorted({str(x) for x in names}, key=len, reverse=True):
        start, hit = 0, False
        while n:
            i = text.find(n, start)
            if i < 0:
                break
            j = i + len(n)
            left_ok = i == 0 or not (text[i - 1].isalnum() or text[i - 1] == "_")
            right_ok = j == len(text) or not (text[j].isalnum() or text[j] == "_")
            if left_ok and right_ok and not any(a <= i and j <= b for a, b in covered):
                covered.append((i, j))
                hit = True
            start = i + 1
        if hit:
            found.append(n)
    return found


class Machinery(Exception):
    """The verification machinery itself failed (exit 2) - not a property violation."""


# --------------------------------------------------------------------------- models
class Model:
    def __init__(self, module, constants, invariants=(), properties=(), constraints=(),
                 action_constraints=(), workers=2, simulate=None, depth=None, label=None,
                 expect_vectors=True, coverage=False, spec="Spec", view=None):
        self.module = module
        self.constants = constants
        self.invariants = list(invariants)
        self.properties = list(properties)
        self.constraints = list(constraints)
        self.action_constraints = list(action_constraints)
        self.workers = workers
        self.simulate = simulate
        self.depth = depth
        self.label = label or f"{module}:{constants}"
        self.expect_vectors = expect_vectors
        self.coverage = coverage
        self.spec = spec
        self.view = view


def run_model(model, seed=0):
    cfg = tlcrun.cfg_text(spec=model.spec, constants=model.constants, invariants=model.invariants,
                          properties=model.properties, constraints=model.constraints,
                          action_constraints=model.action_constraints, extra=(f"VIEW {model.view}" if model.view else ""))
    res = tlcrun.run_tlc(model.module, cfg, workers=model.workers, simulate=model.simulate,
                         depth=model.depth, seed=seed if model.simulate else None,
                         coverage=model.coverage)
    if res.violation is not None:
        # the specification itself violates a property it is supposed to satisfy:
        # a specification error, never a VIOLATION of the implementation
        raise Machinery(f"TLC reports '{res.violation}' on {model.label}:\n{res.tail[-3000:]}")
    if model.expect_vectors and not res.vectors:
        raise Machinery(f"model {model.label} emitted no vectors")
    return res


def run_models(models, seed=0, parallel=4):
    out = []
    with cf.ThreadPoolExecutor(max_workers=parallel) as ex:
        futs = [ex.submit(run_model, m, seed) for m in models]
        for m, f in zip(models, futs):
            out.append((m, f.result()))
    return out


# --------------------------------------------------------------------------- replay
def _init_worker():
    import warnings
    warnings.filterwarnings("ignore")
    import logging
    logging.disable(logging.CRITICAL)


def _call(args):
    fn, vec = args
    import contextlib
    import io
    try:
        with contextlib.redirect_stdout(io.StringIO()):   # the library print()s remarks
            return fn(vec)
    except Exception:
        return ["MACHINERY: " + traceback.format_exc()[-1500:]]


def replay_parallel(fn, vectors, procs=None):
    """fn(vec) -> list of problems.  Returns list of (vec, problems) for the non-conforming ones."""
    procs = procs or min(16, os.cpu_count() or 4)
    bad = []
    if not vectors:
        return bad
    if len(vectors) < 64 or procs == 1:
        _init_worker()
        for v in vectors:
            p = _call((fn, v))
            if p:
                bad.append((v, p))
        return bad
    ctx = mp.get_context("fork")
    with ctx.Pool(procs, initializer=_init_worker) as pool:
        chunk = max(1, len(vectors) // (procs * 8))
        for v, p in zip(vectors, pool.imap(_call, [(fn, v) for v in vectors], chunksize=chunk)):
            if p:
                bad.append((v, p))
    return bad


# --------------------------------------------------------------------------- findings
def load_findings():
    if not os.path.exists(FINDINGS_FILE):
        return []
    with open(FINDINGS_FILE) as f:
        return json.load(f)["findings"]


def match_finding(findings, prop, sig):
    """sig: dict describing the failing case (engine-specific keys).  A finding matches when it is
    OPEN, lists this property, and every key of its `signature` equals the case's value (a list in the
    signature means "one of")."""
    for fd in findings:
        if fd.get("status") != "open" or prop not in fd.get("properties", [fd.get("property")]):
            continue
        ok = True
        for k, v in fd["signature"].items():
            got = sig.get(k)
            if isinstance(v, list):
                if got not in v:
                    ok = False
            elif got != v:
                ok = False
            if not ok:
                break
        if ok:
            return fd
    return None


# --------------------------------------------------------------------------- verdicts
def write_replay(prop, payload):
    d = os.path.join(REPLAY_DIR, prop)
    os.makedirs(d, exist_ok=True)
    text = json.dumps(payload, sort_keys=True, default=str)
    sha = hashlib.sha1(text.encode()).hexdigest()[:12]
    path = os.path.join(d, sha + ".json")
    with open(path, "w") as f:
        f.write(text)
    return path


class Outcome:
    def __init__(self, prop, tier, seed):
        self.prop = prop
        self.tier = tier
        self.seed = seed
        self.t0 = time.time()
        self.states = 0
        self.transitions = 0
        self.replayed = 0
        self.traces_validated = 0
        self.samples = []
        self.violations = []      # (signature, vec, problems)
        self.known_hits = {}      # finding id -> count
        self.assumptions = []
        self.extra = {}
        self.exhaustive = False
        self.models = []

    def add_tlc(self, model, res):
        self.states += res.distinct
        self.transitions += max(res.generated - 0, 0)
        self.models.append({"model": model.label, "states": res.distinct, "generated": res.generated,
                            "depth": res.depth, "vectors": len(res.vectors), "wall_s": round(res.wall, 2),
                            "invariants": model.invariants, "properties": model.properties})

    def judge(self, bad, engine, sigfn):
        """bad: list of (vec, problems).  sigfn(vec, problems) -> signature dict."""
        findings = load_findings()
        for vec, probs in bad:
            if any(p.startswith("MACHINERY") for p in probs):
                raise Machinery(f"replayer failed on {json.dumps(vec)[:400]}:\n" + "\n".join(probs))
            sig = sigfn(vec, probs)
            fd = match_finding(findings, self.prop, sig)
            if fd is not None:
                self.known_hits[fd["id"]] = self.known_hits.get(fd["id"], 0) + 1
            else:
                self.violations.append((sig, vec, probs, engine))

    def finish(self, level="model_checking", rule=""):
        findings = {f["id"]: f for f in load_findings()}
        for fid, n in sorted(self.known_hits.items()):
            print(f"KNOWN-FINDING: property={self.prop} {fid}: {findings[fid]['what']} ({n} vectors)")
        status = 0
        for sig, vec, probs, engine in self.violations[:5]:
            path = write_replay(self.prop, {"property": self.prop, "engine": engine, "signature": sig,
                                            "vector": vec, "problems": probs})
            print(f"VIOLATION property={self.prop} replay={path}")
            for p in probs[:4]:
                print("    " + p[:400])
            status = 1
        if len(self.violations) > 5:
            print(f"    ... and {len(self.violations) - 5} more violating vectors")
        cov = {
            "states": int(self.states),
            "transitions": int(self.transitions),
            "traces_validated_against_impl": int(self.replayed + self.traces_validated),
            "samples": self.samples[:6] or [{"note": "no vector recorded"}],
            "exhaustive": bool(self.exhaustive),
            "evaluations": int(self.replayed + self.traces_validated),
            "distinct_nontrivial": int(self.extra.get("distinct_nontrivial", self.replayed)),
            "rule": rule,
            "models": self.models,
            "known_findings_hit": self.known_hits,
        }
        cov.update({k: v for k, v in self.extra.items() if k != "distinct_nontrivial"})
        ev = {
            "property_id": self.prop, "tier": self.tier, "seed": int(self.seed), "level": level,
            "coverage": cov, "assumptions": self.assumptions,
            "wall_s": round(time.time() - self.t0, 2), "violations": len(self.violations),
        }
        os.makedirs(EVIDENCE_DIR, exist_ok=True)
        with open(os.path.join(EVIDENCE_DIR, f"{self.prop}.json"), "w") as f:
            json.dump(ev, f, indent=1, default=str)
        print(f"{self.prop} {self.tier}: states={self.states} replayed={self.replayed} "
              f"validated_traces={self.traces_validated} violations={len(self.violations)} "
              f"known={sum(self.known_hits.values())} wall={ev['wall_s']}s")
        return status


_TAG = __import__("re").compile(r"\{(C\d+(?:,C\d+)*)\}")


def for_property(bad, prop):
    """Keep, per vector, the problems that are violations of `prop`: a problem may carry a tag
    {C05,C13} naming the properties it violates; untagged problems count for every property."""
    out = []
    for vec, probs in bad:
        keep = []
        for p in probs:
            m = _TAG.search(p)
            if p.startswith("MACHINERY") or m is None or prop in m.group(1).split(","):
                keep.append(p)
        if keep:
            out.append((vec, keep))
    return out


def sample_of(vec, maxlen=600):
    s = json.dumps(vec, sort_keys=True)
    return json.loads(s) if len(s) <= maxlen else {"truncated": s[:maxlen]}
