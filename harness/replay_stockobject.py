"""Direction A for spec/mc/MC_StockObject.tla (C17): histories of {set driver, set_prms, read sf, compute,
system run} on one stock object; after every compute all results are compared with a FRESHLY BUILT stock that
holds the same inputs - the relational statement of the property."""

import numpy as np

from .universe import flodym, FlodymArray, Dimension, DimensionSet
from .replay_stocks import StepLifetime

GRID = [2000, 2001, 2003, 2008]
TDIM = Dimension(name="Time", letter="t", items=GRID, dtype=int)


class Ctx:
    """dims variant: 'r2' (time x 2 regions), 't' (time only), 'r1' (time x 1 region)"""

    def __init__(self, variant):
        self.variant = variant
        if variant == "t":
            self.dims = DimensionSet(dim_list=[TDIM])
            cut = lambda a: a[:, 0]
            lab = lambda v: float(v[0])
        elif variant == "r1":
            self.dims = DimensionSet(dim_list=[TDIM, Dimension(name="Region", letter="r", items=["r1"])])
            cut = lambda a: a[:, :1]
            lab = lambda v: FlodymArray(dims=self.dims.get_subset(("r",)), values=np.array(v[:1]).astype(int) if all(float(x).is_integer() for x in v) else np.array(v[:1]))
        else:
            self.dims = DimensionSet(dim_list=[TDIM, Dimension(name="Region", letter="r", items=["r1", "r2"])])
            cut = lambda a: a
            # (integer-valued parameter arrays keep an integer dtype, as a user would write np.array([4, 6]))
            lab = lambda v: FlodymArray(dims=self.dims.get_subset(("r",)), values=np.array(v).astype(int) if all(float(x).is_integer() for x in v) else np.array(v))
        # driver 2 is all zero (a phase-out / counterfactual run), drivers 1 and 3 differ
        self.drivers = {1: cut(np.array([[1.0, 4.0], [2.0, 0.0], [0.0, 3.0], [5.0, 1.0]])),
                        2: cut(np.zeros((4, 2))),
                        3: cut(np.array([[3.0, 0.0], [0.0, 2.0], [6.0, 1.0], [1.0, 1.0]]))}
        self.lifetimes = {
            "FixedLifetime": (flodym.FixedLifetime, {1: dict(mean=2.5), 2: dict(mean=lab([4.0, 6.0])), 3: dict(mean=5.5)}),
            # one label whose cohorts vanish within their first interval (zero diagonal of the survival table: its stock-driven
            # result is undefined) next to an ordinary one
            "FixedLifetime0": (flodym.FixedLifetime, {1: dict(mean=2.5), 2: dict(mean=lab([0.3, 6.0])), 3: dict(mean=lab([6.0, 0.3]))}),
            "StepLifetime": (StepLifetime, {1: dict(period=2.0), 2: dict(period=lab([2.5, 4.0])), 3: dict(period=3.0)}),
            # parameter set 2 differs from set 1 in the FIRST parameter only, set 3 in both
            "NormalLifetime": (flodym.NormalLifetime, {1: dict(mean=4.0, std=1.5), 2: dict(mean=lab([7.0, 5.0]), std=1.5),
                                                       3: dict(mean=6.0, std=2.5)}),
            "FoldedNormalLifetime": (flodym.FoldedNormalLifetime, {1: dict(mean=4.0, std=2.5), 2: dict(mean=2.0, std=2.5),
                                                                   3: dict(mean=3.0, std=lab([1.0, 2.0]))}),
            "LogNormalLifetime": (flodym.LogNormalLifetime, {1: dict(mean=5.0, std=2.0), 2: dict(mean=3.0, std=2.0),
                                                             3: dict(mean=4.0, std=lab([3.0, 1.0]))}),
            "WeibullLifetime": (flodym.WeibullLifetime, {1: dict(weibull_shape=2.0, weibull_scale=5.0),
                                                         2: dict(weibull_shape=1.2, weibull_scale=5.0),
                                                         3: dict(weibull_shape=1.5, weibull_scale=lab([3.0, 8.0]))}),
        }

    def driver_values(self, cls_name, d):
        """inflow-driven: the inflow; stock-driven: a stock level table (cumulated inflow + offset; zero for driver 2)"""
        if cls_name == "InflowDrivenDSM" or d == 2:
            return self.drivers[d]
        return np.cumsum(self.drivers[d], axis=0) + 2.0


LIFETIME_NAMES = ["FixedLifetime", "StepLifetime", "NormalLifetime", "FoldedNormalLifetime", "LogNormalLifetime", "WeibullLifetime"]
CLASSES = [("InflowDrivenDSM", None), ("StockDrivenDSM", "manual"), ("StockDrivenDSM", "lapack")]
COMBOS = [(lt, c, dv) for lt in LIFETIME_NAMES for c in CLASSES for dv in ("r2", "t", "r1")] + \
         [("FixedLifetime0", c, dv) for c in CLASSES[:2] for dv in ("r2", "r1")]       # (lapack may refuse a singular label)


def lm_options(C):
    """quadrature options of the lifetime model for this context: every second dims variant uses a 4-point rule"""
    return {"n_pts_per_interval": 4, "inflow_at": "end"} if C.variant in ("t",) or getattr(C, "quad", False) else {}


def fresh(C, lt, cls_name, solver, d, p):
    DIMS = C.dims
    lcls, prms = C.lifetimes[lt]
    lm = lcls(dims=DIMS, time_letter="t", **lm_options(C), **prms[p])
    kw = dict(dims=DIMS, time_letter="t", lifetime_model=lm)
    if solver:
        kw["solver"] = solver
    st = getattr(flodym, cls_name)(**kw)
    (st.inflow if cls_name == "InflowDrivenDSM" else st.stock).values[...] = C.driver_values(cls_name, d)
    st.compute()
    return st


def results_of(st):
    return {"stock": np.array(st.stock.values), "inflow": np.array(st.inflow.values), "outflow": np.array(st.outflow.values),
            "stock_by_cohort": np.array(st.get_stock_by_cohort()), "outflow_by_cohort": np.array(st.get_outflow_by_cohort())}


def same(a, b):
    a, b = np.asarray(a, dtype=float), np.asarray(b, dtype=float)
    # (where the freshly built reference itself is undefined - a label whose survival diagonal is zero under a stock-driven
    # model gives x/0 - nothing is demanded)
    with np.errstate(all="ignore"):
        return a.shape == b.shape and bool(np.all((np.abs(a - b) <= 1e-9 * np.maximum(1.0, np.abs(b))) | ~np.isfinite(b)))


def build_system(C, lt, cls_name, solver):
    """a stock built from definitions inside a system whose compute() writes the scenario inputs and computes"""
    DIMS = C.dims
    lcls, prms = C.lifetimes[lt]
    letters = tuple(DIMS.letters)

    class Sys(flodym.MFASystem):
        def compute(self):
            st = self.stocks["use"]
            drv = st.inflow if cls_name == "InflowDrivenDSM" else st.stock
            drv[...] = self.parameters["driver"]
            st.lifetime_model.set_prms(**self.scenario_prms)
            st.compute()

    definition = flodym.MFADefinition(
        dimensions=[flodym.DimensionDefinition(name="Time", letter="t", dtype=int),
                    flodym.DimensionDefinition(name="Region", letter="r", dtype=str)],
        processes=["sysenv", "use"], flows=[],
        stocks=[flodym.StockDefinition(name="use", process="use", dim_letters=letters, subclass=getattr(flodym, cls_name),
                                       lifetime_model_class=lcls, time_letter="t", **({"solver": solver} if solver else {}))],
        parameters=[flodym.ParameterDefinition(name="driver", dim_letters=letters)])
    processes = flodym.make_processes(definition.processes)
    stocks = flodym.make_empty_stocks(definition.stocks, processes, DIMS)
    if solver:
        stocks["use"].solver = solver   # (the definition's solver is checked under C18)
    opts = lm_options(C)
    if opts:        # a lifetime model with a multi-point quadrature rule, handed to the stock
        stocks["use"].lifetime_model = lcls(dims=DIMS, time_letter="t", **opts)
    sysm = Sys(dims=DIMS, processes=processes, flows={}, stocks=stocks,
               parameters={"driver": flodym.Parameter(dims=DIMS, name="driver")})
    return sysm


def run_history(vec):
    problems = []
    idx = vec.get("index", 0)
    combos = vec.get("combos") or [COMBOS[(idx * 5 + k * 11) % len(COMBOS)] for k in range(3)]
    for lt, (cls_name, solver), dv in combos:
        C = Ctx(dv)
        DIMS = C.dims
        driver_values = C.driver_values
        tag = f"[{lt}/{cls_name}{'/' + solver if solver else ''}/dims:{dv}] "
        try:
            sysm = build_system(C, lt, cls_name, solver)
            st = sysm.stocks["use"]
            lcls, prms = C.lifetimes[lt]
            (st.inflow if cls_name == "InflowDrivenDSM" else st.stock).values[...] = driver_values(cls_name, 1)
        except Exception as e:
            return [tag + f"MACHINERY: cannot build the system: {e!r}"]
        for n, stp in enumerate(vec["hist"]):
            op, arg, outcome = stp["op"], stp["arg"], stp["outcome"]
            where = tag + f"step {n + 1} {op}({arg}): "
            raised = None
            try:
                if op == "set_driver":
                    (st.inflow if cls_name == "InflowDrivenDSM" else st.stock).values[...] = driver_values(cls_name, arg)
                elif op == "set_prms":
                    if (n + idx) % 2:
                        # handed over as full-shape float64 buffers which the caller re-uses for something else afterwards:
                        # the stock's inputs are what was PASSED, not what the buffers hold later
                        def as_full(v):
                            if isinstance(v, FlodymArray):
                                return np.array(v.cast_to(DIMS).values, dtype=np.float64, copy=True)
                            return np.full(DIMS.shape, float(v), dtype=np.float64)
                        bufs = {k: as_full(v) for k, v in prms[arg].items()}
                        st.lifetime_model.set_prms(**bufs)
                        for b in bufs.values():
                            b[...] = b * 3.0 + 11.0
                    else:
                        st.lifetime_model.set_prms(**prms[arg])
                elif op == "read_sf":
                    sf = np.array(st.lifetime_model.sf)
                    pdf = np.array(st.lifetime_model.pdf)       # reading the outflow table too (both are cached lazily)
                    ref = lcls(dims=DIMS, time_letter="t", **lm_options(C), **prms[stp["prm"]])
                    if not same(sf, ref.sf) or not same(pdf, ref.pdf):
                        problems.append(where + "{C17} the survival / outflow table read does not belong to the current parameters")
                elif op == "compute":
                    st.compute()
                elif op == "system_run":
                    d, p = arg
                    sysm.parameters["driver"].values[...] = driver_values(cls_name, d)
                    sysm.scenario_prms = prms[p]
                    sysm.compute()
                else:
                    return [f"MACHINERY: unknown op {op}"]
            except Exception as e:
                raised = e
            if outcome == "error":
                if raised is None:
                    problems.append(where + "{C17} compute without lifetime parameters must be refused")
                continue
            if raised is not None:
                problems.append(where + f"{{C17}} raised {type(raised).__name__}: {str(raised)[:160]}")
                break
            if op in ("compute", "system_run"):
                d, p = stp["results"]
                ref = results_of(fresh(C, lt, cls_name, solver, stp["driver"], stp["prm"]))
                got = results_of(st)
                for k in ref:
                    if not same(got[k], ref[k]):
                        problems.append(where + f"{{C17}} {k} differs from a freshly built stock with the same inputs "
                                                f"(driver {stp['driver']}, parameters {stp['prm']})")
                if problems:
                    break
        if problems:
            break
    return problems
