------------------------------ MODULE Universe ------------------------------
(***************************************************************************)
(* The universe of dimensions every other module works in.                 *)
(*                                                                         *)
(* A dimension is identified by its LETTER (a string of length one, unique *)
(* in the universe - exactly flodym's rule for a DimensionSet).  Its items *)
(* are LABELS; labels are modelled as positive integers.  A base dimension *)
(* has the items <<1, ..., n>>.  A SUBSET dimension has its own letter, a  *)
(* root (the base dimension it was cut from) and as items any duplicate-   *)
(* free sequence of labels of its root, in any order - this is flodym's    *)
(* "Dimension holding a subset of the items", used as an index key.        *)
(*                                                                         *)
(* Nothing in this module (or in Arrays.tla) knows about axis positions:   *)
(* an array entry is addressed by a LABELING, a function from letters to   *)
(* labels.  The implementation's einsum subscripts, index tuples, tiles    *)
(* and pivots are compared against that.                                   *)
(***************************************************************************)
EXTENDS Integers, Sequences, FiniteSets, SequencesExt, FiniteSetsExt, Functions

CONSTANTS
    Canon,      \* sequence of the base letters, the canonical order used
                \* ONLY to print labelings as tuples (generator ids)
    ItemsOf,    \* function: letter -> duplicate-free sequence of labels
    RootOf      \* function: letter -> base letter (identity on base letters)

AllLetters  == DOMAIN ItemsOf
BaseLetters == {Canon[i] : i \in DOMAIN Canon}
SubLetters  == AllLetters \ BaseLetters

ItemSet(l) == Range(ItemsOf[l])
DLen(l) == Len(ItemsOf[l])

ASSUME UniverseOK ==
    /\ BaseLetters \subseteq AllLetters
    /\ \A i, j \in DOMAIN Canon : Canon[i] = Canon[j] => i = j
    /\ \A l \in AllLetters :
         /\ RootOf[l] \in BaseLetters
         /\ ItemSet(l) \subseteq ItemSet(RootOf[l])
         /\ Cardinality(ItemSet(l)) = DLen(l)
         /\ DLen(l) >= 1
    /\ \A l \in BaseLetters : RootOf[l] = l /\ ItemsOf[l] = [i \in 1..DLen(l) |-> i]

CanonPos(l) == CHOOSE i \in DOMAIN Canon : Canon[i] = l

(***************************************************************************)
(* Dimension sets: duplicate-free sequences of letters.  Two letters with  *)
(* the same root may NOT occur together (flodym allows it, but the key     *)
(* forms of the properties never create it); models only use DimSeqs.      *)
(***************************************************************************)
IsDimSeq(s) == /\ \A i \in DOMAIN s : s[i] \in AllLetters
               /\ \A i, j \in DOMAIN s : s[i] = s[j] => i = j

\* no two letters cut from the same base dimension (label tuples would be ambiguous)
RootsDistinct(S) == \A l1, l2 \in S : RootOf[l1] = RootOf[l2] => l1 = l2

InjSeqs(S, n) == {s \in [1..n -> S] : \A i, j \in 1..n : s[i] = s[j] => i = j}

\* every ordered subset (every subset in every storage order) of a letter set
OrderedSubsets(S) == UNION {InjSeqs(S, n) : n \in 0..Cardinality(S)}
OrderedSubsetsUpTo(S, k) == UNION {InjSeqs(S, n) : n \in 0..k}

Perms(s) == {p \in InjSeqs(Range(s), Len(s)) : TRUE}

SubSeqBy(s, keep) == SelectSeq(s, LAMBDA l : l \in keep)    \* keeps s's order
SeqMinus(s, drop) == SelectSeq(s, LAMBDA l : l \notin drop)
IndexOf(s, l) == CHOOSE i \in DOMAIN s : s[i] = l

(***************************************************************************)
(* Labelings: one label per letter of a dimension sequence.                *)
(***************************************************************************)
MaxLabel == Max({DLen(l) : l \in BaseLetters})

LabelingsOver(S) == {f \in [S -> 1..MaxLabel] : \A l \in S : f[l] \in ItemSet(l)}
Labelings(ds) == LabelingsOver(Range(ds))

RestrictTo(lab, S) == [l \in S |-> lab[l]]

\* all labelings over S2 (a superset of DOMAIN lab) that agree with lab
Extensions(lab, S2) == {f \in LabelingsOver(S2) : \A l \in DOMAIN lab : f[l] = lab[l]}

\* a labeling printed over the canonical base letters; letters are mapped
\* to their roots, 0 = "dimension absent"
LabTuple(lab) ==
    [i \in DOMAIN Canon |->
        IF \E l \in DOMAIN lab : RootOf[l] = Canon[i]
        THEN lab[CHOOSE l \in DOMAIN lab : RootOf[l] = Canon[i]]
        ELSE 0]

Shape(ds) == [i \in DOMAIN ds |-> DLen(ds[i])]
TotalSize(ds) == Cardinality(Labelings(ds))

\* the labelings of ds in row-major (C) order of ds: the last letter varies
\* fastest.  Used only by implementation-shaped (L2) modules and projections.
RECURSIVE RowMajor(_)
RowMajor(ds) ==
    IF ds = <<>> THEN << [l \in {} |-> 0] >>
    ELSE LET rest == RowMajor(Tail(ds))
             l    == Head(ds)
             ext(k, r) == [m \in {l} \cup DOMAIN r |-> IF m = l THEN ItemsOf[l][k] ELSE r[m]]
         IN  [n \in 1..(DLen(l) * Len(rest)) |->
                ext(((n - 1) \div Len(rest)) + 1, rest[((n - 1) % Len(rest)) + 1])]
=============================================================================
