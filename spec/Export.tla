------------------------------- MODULE Export -------------------------------
(***************************************************************************)
(* L1 - exports (C19) and plots (C20) of a system.                         *)
(*                                                                         *)
(* A system S is the record of MassBalance.tla (procs, flows, ffrom, fto,  *)
(* fdims, fcoef, fname, stocks, sproc, sdims, sin, sout, slevel, g) plus   *)
(* sname (stock names).  The value of flow f at a labeling is              *)
(* fcoef[f] * (marginal sum of the generic array g) - plain integers.      *)
(***************************************************************************)
EXTENDS Universe, FiniteSetsExt, Folds, TLC

GS(S, lab) == MapThenSumSet(LAMBDA full : S.g[full], Extensions(lab, BaseLetters))
FlowAt(S, f, lab)   == S.fcoef[f] * GS(S, lab)
LevelAt(S, s, lab)  == S.slevel[s] * GS(S, lab)
InflowAt(S, s, lab) == S.sin[s] * GS(S, lab)
OutflowAt(S, s, lab) == S.sout[s] * GS(S, lab)

(***************************************************************************)
(* C19: what an export contains                                            *)
(***************************************************************************)
\* convert_to_dict: every flow and stock with exactly its values under its labels, plus structure
ExportDict(S) ==
    [processes |-> S.procs,
     flows |-> {<<S.fname[f], S.fdims[f], S.procs[S.ffrom[f]], S.procs[S.fto[f]],
                  {<<LabTuple(lab), FlowAt(S, f, lab)>> : lab \in Labelings(S.fdims[f])}>> : f \in S.flows},
     stocks |-> {<<S.sname[s], S.sdims[s], IF S.sproc[s] = 0 THEN "" ELSE S.procs[S.sproc[s]],
                   {<<LabTuple(lab), LevelAt(S, s, lab)>> : lab \in Labelings(S.sdims[s])}>> : s \in S.stocks}]

\* the CSV export writes one file per flow and per exported stock quantity
CsvQuantities(S, withInOut) ==
    {<<"flow", S.fname[f], "">> : f \in S.flows}
    \cup {<<"stock", S.sname[s], q>> : s \in S.stocks, q \in (IF withInOut THEN {"stock", "inflow", "outflow"} ELSE {"stock"})}

(***************************************************************************)
(* C20: Sankey links                                                        *)
(*   slice  : function from some letters to item labels                    *)
(*   exclP  : set of excluded process indices; exclF: set of excluded flows *)
(*   split  : function from some flows to the letter the flow is split by  *)
(***************************************************************************)
Shown(S, exclP, exclF) == {f \in S.flows : f \notin exclF /\ S.ffrom[f] \notin exclP /\ S.fto[f] \notin exclP}
ShownProcs(S, exclP) == SelectSeq([i \in DOMAIN S.procs |-> i], LAMBDA p : p \notin exclP)

Matches(lab, slice) == \A l \in DOMAIN slice : l \in DOMAIN lab => lab[l] = slice[l]
SlicedTotal(S, f, slice) ==
    MapThenSumSet(LAMBDA lab : FlowAt(S, f, lab), {lab \in Labelings(S.fdims[f]) : Matches(lab, slice)})
SlicedItemTotal(S, f, slice, l, it) ==
    MapThenSumSet(LAMBDA lab : FlowAt(S, f, lab), {lab \in Labelings(S.fdims[f]) : Matches(lab, slice) /\ lab[l] = it})

\* one link per shown flow, or one per item of the split dimension: <<source process, target process, label, value>>
SankeyLinks(S, slice, exclP, exclF, split) ==
    UNION {IF f \in DOMAIN split
           THEN {<<S.procs[S.ffrom[f]], S.procs[S.fto[f]], <<"item", split[f], it>>, SlicedItemTotal(S, f, slice, split[f], it)>> :
                    it \in ItemSet(split[f])}
           ELSE {<<S.procs[S.ffrom[f]], S.procs[S.fto[f]], <<"flow", S.fname[f], 0>>, SlicedTotal(S, f, slice)>>}
           : f \in Shown(S, exclP, exclF)}
SankeyNodes(S, exclP) == [i \in DOMAIN ShownProcs(S, exclP) |-> S.procs[ShownProcs(S, exclP)[i]]]

(***************************************************************************)
(* C20: line plots of an array over ds with values valOf(labeling)         *)
(*   roles: intra (the dimension along a line), subplot, linecolor ("" = none)*)
(* one line per (subplot item, line item): y = the entries along intra in  *)
(* item order, x = intra's items (or the matching entries of an x array)   *)
(***************************************************************************)
Lines(ds, valOf(_), intra, subplot, linecolor) ==
    LET subs  == IF subplot = "" THEN {0} ELSE ItemSet(subplot)
        lines == IF linecolor = "" THEN {0} ELSE ItemSet(linecolor)
        labOf(s, c, i) == [l \in Range(ds) |-> IF l = intra THEN i ELSE IF l = subplot THEN s ELSE c]
    IN  {<<s, c, [k \in 1..DLen(intra) |-> valOf(labOf(s, c, ItemsOf[intra][k]))]>> : s \in subs, c \in lines}
=============================================================================
