------------------------------- MODULE System -------------------------------
(***************************************************************************)
(* L1 - assembling an MFA system from definitions and files (C18).         *)
(*                                                                         *)
(* A definition d is a record                                              *)
(*   letters : set of defined dimension letters                            *)
(*   procs   : sequence of process names                                   *)
(*   flows   : sequence of [from, to, dims, override]   (override "" = none)*)
(*   stocks  : sequence of [name, cls, lm, solver, tl, proc, dims]         *)
(*                           (lm "" = no lifetime model, proc "" = none)   *)
(*   params  : sequence of [name, dims]                                    *)
(*   naming  : "arrow" | "no_spaces" | "ids"                               *)
(* Build(d) is the system that must result, or Error when the definition   *)
(* or the system must be refused.                                          *)
(***************************************************************************)
EXTENDS Integers, Sequences, FiniteSets, SequencesExt, Functions

Error == [error |-> TRUE]
\* "UserStockDrivenDSM": a user-defined subclass of StockDrivenDSM that does not redeclare any field
DSMClasses == {"InflowDrivenDSM", "StockDrivenDSM", "UserStockDrivenDSM"}
AllClasses == DSMClasses \cup {"SimpleFlowDrivenStock"}

RangeS(s) == {s[i] : i \in DOMAIN s}
IndexIn(s, x) == CHOOSE i \in DOMAIN s : s[i] = x

\* refused when the DEFINITION is built
DefinitionOK(d) ==
    /\ \A i \in DOMAIN d.flows  : RangeS(d.flows[i].dims)  \subseteq d.letters
    /\ \A i \in DOMAIN d.stocks : RangeS(d.stocks[i].dims) \subseteq d.letters
    /\ \A i \in DOMAIN d.params : RangeS(d.params[i].dims) \subseteq d.letters
    /\ \A i \in DOMAIN d.stocks :
          LET s == d.stocks[i] IN
          /\ (s.cls \in DSMClasses) <=> (s.lm # "")     \* required lifetime model present, unused one absent
          /\ s.solver \in {"manual", "lapack"}

\* refused when the SYSTEM is built
SystemOK(d) ==
    /\ Len(d.procs) >= 1 /\ d.procs[1] = "sysenv"              \* system environment first
    /\ \A i \in DOMAIN d.flows : d.flows[i].from \in RangeS(d.procs) /\ d.flows[i].to \in RangeS(d.procs)
    /\ \A i \in DOMAIN d.stocks :
          LET s == d.stocks[i] IN
          /\ s.proc = "" \/ s.proc \in RangeS(d.procs)
          /\ Len(s.dims) >= 1 /\ s.dims[1] = s.tl               \* time first

ProcId(d, name) == IndexIn(d.procs, name) - 1                   \* listed order, sysenv = 0

\* the three documented naming functions, as a function of names and ids.  Names are opaque strings,
\* so a generated name is represented structurally; the harness renders it.
FlowName(d, f) ==
    IF f.override # "" THEN <<"given", f.override>>
    ELSE CASE d.naming = "arrow"     -> <<"arrow", f.from, f.to>>
           [] d.naming = "no_spaces" -> <<"no_spaces", f.from, f.to>>
           [] d.naming = "ids"       -> <<"ids", ProcId(d, f.from), ProcId(d, f.to)>>

Build(d) ==
    IF ~DefinitionOK(d) \/ ~SystemOK(d) THEN Error
    ELSE [error |-> FALSE,
          procs  |-> [i \in DOMAIN d.procs |-> <<d.procs[i], i - 1>>],
          flows  |-> [i \in DOMAIN d.flows |->
                        [name |-> FlowName(d, d.flows[i]), from |-> d.flows[i].from, to |-> d.flows[i].to,
                         fromid |-> ProcId(d, d.flows[i].from), toid |-> ProcId(d, d.flows[i].to),
                         dims |-> d.flows[i].dims]],            \* zero-valued, over exactly these dims in this order
          stocks |-> [i \in DOMAIN d.stocks |->
                        LET s == d.stocks[i] IN
                        [name |-> s.name, cls |-> s.cls, lm |-> s.lm,
                         solver |-> IF s.cls \in {"StockDrivenDSM", "UserStockDrivenDSM"} THEN s.solver ELSE "",
                         tl |-> s.tl, proc |-> s.proc, dims |-> s.dims]],
          params |-> [i \in DOMAIN d.params |-> [name |-> d.params[i].name, dims |-> d.params[i].dims]]]

(***************************************************************************)
(* Dimension files: one row or one column of cells, optionally headed by   *)
(* the dimension's name; items in file order, converted to the declared    *)
(* type.  `cells` is the sequence of item cells (already without header).  *)
(***************************************************************************)
ParseDimFile(name, cells, headed, twoD) ==
    IF twoD THEN Error ELSE [error |-> FALSE, items |-> cells]
=============================================================================
