----------------------------- MODULE MassBalance -----------------------------
(***************************************************************************)
(* L1 - mass-balance and flow checks of an MFA system (C02).               *)
(*                                                                         *)
(* A system is given by                                                    *)
(*   procs            : sequence of process names, procs[1] = "sysenv"     *)
(*   flows            : set of flow ids;  ffrom, fto (process indices),    *)
(*                      fdims (ordered letters), fcoef (integer)           *)
(*   stocks           : set of stock ids; sproc (process index, 0 = none), *)
(*                      sdims, sin, sout (coefficients), slevel            *)
(* over the universe of Arrays.tla.  Values are TWO-COMPONENT numbers      *)
(*      [i |-> integer part, e |-> multiples of tol/2, nan |-> 0/1]        *)
(* so that "within the tolerance" is decidable exactly:                    *)
(*      |x| > tol   <=>  i # 0  \/  |e| > 2        (tol << 1)              *)
(* A NaN is never within the tolerance.  The base value of flow f at a     *)
(* labeling is FCoef[f] times the marginal sum of a fixed generic array G; *)
(* a system is balanced iff the coefficients balance at every process.     *)
(* One PERTURBATION adds to / replaces one entry of one object.            *)
(***************************************************************************)
EXTENDS Universe, FiniteSetsExt, Folds, TLC

\* A system S is a record with the fields
\*   procs, flows, ffrom, fto, fdims, fcoef, fname, stocks, sproc, sdims, sin, sout, slevel, g
\* (g: generic integer array over all base letters, [LabelingsOver(BaseLetters) -> Int]);
\* a perturbation P is [obj, id, lab, op, val] with obj \in {"none", "flow", "sin", "sout", "level"}.

V(i, e, n) == [i |-> i, e |-> e, nan |-> n]
VZero == V(0, 0, 0)
VAdd(a, b) == V(a.i + b.i, a.e + b.e, IF a.nan + b.nan > 0 THEN 1 ELSE 0)
VNeg(a) == V(-a.i, -a.e, a.nan)
VSumOver(f(_), S) == FoldSet(LAMBDA x, acc : VAdd(f(x), acc), VZero, S)
IAbsV(n) == IF n < 0 THEN -n ELSE n
Exceeds(v) == v.nan = 1 \/ v.i # 0 \/ IAbsV(v.e) > 2          \* |v| > tol, or NaN
BelowMinusTol(v) == v.nan = 0 /\ (v.i < 0 \/ (v.i = 0 /\ v.e < -2))   \* v < -tol

GSum(S, lab) == MapThenSumSet(LAMBDA full : S.g[full], Extensions(lab, BaseLetters))

Perturbed(P, obj, id, lab, base) ==
    IF P.obj = obj /\ P.id = id /\ P.lab = lab
    THEN IF P.op = "add" THEN VAdd(base, P.val) ELSE P.val
    ELSE base

\* Base values: either generated (coefficient times the marginal of the generic array - the bounded models), or given
\* EXPLICITLY per entry (field `fval` etc. - systems recorded from the real code, spec/trace/Trace_MassBalance.tla).
Explicit(S) == "fval" \in DOMAIN S
FlowBase(S, f, lab)   == IF Explicit(S) THEN S.fval[f][lab]   ELSE V(S.fcoef[f] * GSum(S, lab), 0, 0)
StockInBase(S, s, lab)  == IF Explicit(S) THEN S.sinval[s][lab]  ELSE V(S.sin[s] * GSum(S, lab), 0, 0)
StockOutBase(S, s, lab) == IF Explicit(S) THEN S.soutval[s][lab] ELSE V(S.sout[s] * GSum(S, lab), 0, 0)
StockLevelBase(S, s, lab) == IF Explicit(S) THEN S.slevelval[s][lab] ELSE V(S.slevel[s] * GSum(S, lab), 0, 0)
FlowVal(S, P, f, lab)  == Perturbed(P, "flow", f, lab, FlowBase(S, f, lab))
StockIn(S, P, s, lab)  == Perturbed(P, "sin", s, lab, StockInBase(S, s, lab))
StockOut(S, P, s, lab) == Perturbed(P, "sout", s, lab, StockOutBase(S, s, lab))
StockLevel(S, P, s, lab) == Perturbed(P, "level", s, lab, StockLevelBase(S, s, lab))

\* contributions to the balance of process p: <<sign, kind, id>>
\*   +flow at its target, -flow at its source, -stock change at the stock's process,
\*   +stock change (of every stock that has a process) at the system environment
Contrib(S, p) ==
         {<<1, "flow", f>> : f \in {q \in S.flows : S.fto[q] = p}}
    \cup {<<-1, "flow", f>> : f \in {q \in S.flows : S.ffrom[q] = p}}
    \cup {<<-1, "stock", s>> : s \in {u \in S.stocks : S.sproc[u] = p}}
    \cup (IF p = 1 THEN {<<2, "stock", s>> : s \in {u \in S.stocks : S.sproc[u] # 0}} ELSE {})
\* (a stock attached to sysenv itself contributes -change and +change there: sign 2 marks the mirror entry)

CDims(S, c) == IF c[2] = "flow" THEN Range(S.fdims[c[3]]) ELSE Range(S.sdims[c[3]])
CVal(S, P, c, lab) ==
    LET sgn == IF c[1] < 0 THEN -1 ELSE 1
        raw == IF c[2] = "flow" THEN FlowVal(S, P, c[3], lab)
               ELSE VAdd(StockIn(S, P, c[3], lab), VNeg(StockOut(S, P, c[3], lab)))
    IN  IF sgn = 1 THEN raw ELSE VNeg(raw)

\* the dimensions common to all contributions of p
Common(S, p) == IF Contrib(S, p) = {} THEN {} ELSE {l \in BaseLetters : \A c \in Contrib(S, p) : l \in CDims(S, c)}

Balance(S, P, p, lab) ==      \* lab: labeling over Common(S, p)
    VSumOver(LAMBDA c : VSumOver(LAMBDA full : CVal(S, P, c, full), Extensions(lab, CDims(S, c))), Contrib(S, p))

Failing(S, P) == {p \in DOMAIN S.procs : \E lab \in LabelingsOver(Common(S, p)) : Exceeds(Balance(S, P, p, lab))}
HasNaNBalance(S, P) == \E p \in DOMAIN S.procs : \E lab \in LabelingsOver(Common(S, p)) : Balance(S, P, p, lab).nan = 1

\* check_mass_balance: "ok" iff nothing fails
MassBalanceVerdict(S, P) == IF Failing(S, P) = {} THEN "ok" ELSE "fail"

\* check_flows: the non-excepted flows containing NaN or an entry below minus the tolerance
FlowHasNaN(S, P, f) == \E lab \in Labelings(S.fdims[f]) : FlowVal(S, P, f, lab).nan = 1
FlowNegative(S, P, f) == \E lab \in Labelings(S.fdims[f]) : BelowMinusTol(FlowVal(S, P, f, lab))
Flagged(S, P, exc) == {f \in S.flows : S.fname[f] \notin exc /\ (FlowHasNaN(S, P, f) \/ FlowNegative(S, P, f))}

\* with a tolerance far below the unit of the e-component (the DEFAULT tolerance on values that are exact multiples of the
\* unit): every non-zero residual counts
NonZero(v) == v.nan = 1 \/ v.i # 0 \/ v.e # 0
FailingStrict(S, P) == {p \in DOMAIN S.procs : \E lab \in LabelingsOver(Common(S, p)) : NonZero(Balance(S, P, p, lab))}
Negative(v) == v.nan = 0 /\ (v.i < 0 \/ (v.i = 0 /\ v.e < 0))        \* (|e| x unit < 1 is assumed)
FlaggedStrict(S, P, exc) == {f \in S.flows : S.fname[f] \notin exc /\
                               (FlowHasNaN(S, P, f) \/ \E lab \in Labelings(S.fdims[f]) : Negative(FlowVal(S, P, f, lab)))}


AnyNaN(S, P) == \/ \E f \in S.flows : FlowHasNaN(S, P, f)
                \/ \E s \in S.stocks : \E lab \in Labelings(S.sdims[s]) :
                      StockIn(S, P, s, lab).nan = 1 \/ StockOut(S, P, s, lab).nan = 1 \/ StockLevel(S, P, s, lab).nan = 1

\* the magnitude the default tolerance is scaled to: largest |flow| or |stock level| (integer parts)
MaxMag(S, P) == Max({0} \cup UNION {{IAbsV(FlowVal(S, P, f, lab).i) : lab \in Labelings(S.fdims[f])} : f \in S.flows}
                        \cup UNION {{IAbsV(StockLevel(S, P, s, lab).i) : lab \in Labelings(S.sdims[s])} : s \in S.stocks})

(***************************************************************************)
(* Theorems of the contract (checked by TLC on every configuration)        *)
(***************************************************************************)
TotalOf(S, P, p) == VSumOver(LAMBDA lab : Balance(S, P, p, lab), LabelingsOver(Common(S, p)))
\* every flow is booked once with + and once with -, every stock change once with - and once with + on sysenv:
\* the totals of all balances cancel
MirrorLaw(S, P) == AnyNaN(S, P) \/ LET t == VSumOver(LAMBDA p : TotalOf(S, P, p), DOMAIN S.procs) IN t.i = 0 /\ t.e = 0
=============================================================================
