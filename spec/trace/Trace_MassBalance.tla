-------------------------- MODULE Trace_MassBalance --------------------------
(***************************************************************************)
(* Direction B for C02: histories RECORDED from real MFASystem objects are *)
(* validated against the contract (spec/MassBalance.tla).                  *)
(*                                                                         *)
(* A driver (harness/trace_massbalance.py) builds random systems - random  *)
(* process graphs (self-made, not the five templates of the bounded        *)
(* model), flows and stocks over random ordered subsets of the dimensions, *)
(* values that are exact two-component numbers  i + e * 2^-8  (tolerance   *)
(* 2^-7 = two units, all sums exact in float64) - and then runs a history  *)
(* on the SAME object: entries are overwritten (within / beyond the        *)
(* tolerance, negative, NaN), check_mass_balance is called with the        *)
(* explicit and the default tolerance, check_flows with exception lists.   *)
(* Every call is logged at its return with its arguments and what it       *)
(* reported (ok / failed, the failing processes it names, the flows it     *)
(* flags).  Here TLC replays the writes into the specification's state and *)
(* evaluates the contract on it: a trace is accepted iff every logged      *)
(* report is exactly what the contract says for the CURRENT values.        *)
(* Python never computes a balance.                                        *)
(***************************************************************************)
EXTENDS Integers, Sequences, FiniteSets, TLC, Json, IOUtils

Data == JsonDeserialize(IOEnv.TRACE_FILE)
TCanon == Data.universe.canon
TItemsOf == [l \in DOMAIN Data.universe.items |-> Data.universe.items[l]]
TRootOf == [l \in DOMAIN Data.universe.items |-> l]
INSTANCE MassBalance WITH Canon <- TCanon, ItemsOf <- TItemsOf, RootOf <- TRootOf

VARIABLES tid, l, sys
tvars == <<tid, l, sys>>

\* a logged array: flat list of <<i, e, nan>> in row-major order of its dims
FromFlat(ds, flat) == LET rm == RowMajor(ds) IN [lab \in Labelings(ds) |-> V(flat[IndexOf(rm, lab)][1], flat[IndexOf(rm, lab)][2], flat[IndexOf(rm, lab)][3])]

T == Data.traces[tid]
NF == Len(T.sys.flows)
NS == Len(T.sys.stocks)
InitSys ==
    [procs |-> T.sys.procs,
     flows |-> 1..NF,
     ffrom |-> [f \in 1..NF |-> T.sys.flows[f].from], fto |-> [f \in 1..NF |-> T.sys.flows[f].to],
     fdims |-> [f \in 1..NF |-> T.sys.flows[f].dims], fname |-> [f \in 1..NF |-> T.sys.flows[f].name],
     fval  |-> [f \in 1..NF |-> FromFlat(T.sys.flows[f].dims, T.sys.flows[f].flat)],
     stocks |-> 1..NS,
     sproc |-> [s \in 1..NS |-> T.sys.stocks[s].proc], sdims |-> [s \in 1..NS |-> T.sys.stocks[s].dims],
     sinval |-> [s \in 1..NS |-> FromFlat(T.sys.stocks[s].dims, T.sys.stocks[s].inflow)],
     soutval |-> [s \in 1..NS |-> FromFlat(T.sys.stocks[s].dims, T.sys.stocks[s].outflow)],
     slevelval |-> [s \in 1..NS |-> FromFlat(T.sys.stocks[s].dims, T.sys.stocks[s].level)]]

NoP == [obj |-> "none", id |-> 0, lab |-> <<>>, op |-> "add", val |-> VZero]
Events == T.events

\* ---- the effect of a write event on the specification's state
LabOf(ds, pos) == RowMajor(ds)[pos]
Written(S, e) ==
    LET v == V(e.val[1], e.val[2], e.val[3]) IN
    CASE e.obj = "flow"  -> [S EXCEPT !.fval[e.id][LabOf(S.fdims[e.id], e.pos)] = v]
      [] e.obj = "sin"   -> [S EXCEPT !.sinval[e.id][LabOf(S.sdims[e.id], e.pos)] = v]
      [] e.obj = "sout"  -> [S EXCEPT !.soutval[e.id][LabOf(S.sdims[e.id], e.pos)] = v]
      [] e.obj = "level" -> [S EXCEPT !.slevelval[e.id][LabOf(S.sdims[e.id], e.pos)] = v]

SeqSet(seq) == {seq[i] : i \in DOMAIN seq}
NameSet(ps) == {sys.procs[p] : p \in ps}
FlowNameSet(fs) == {sys.fname[f] : f \in fs}


\* ---- which conjunct of the event fails ("" = none)
Clause(e) ==
    CASE e.op = "set" -> ""
      [] e.op = "check_mb" ->
           LET failing == IF e.tol = "explicit" THEN Failing(sys, NoP) ELSE FailingStrict(sys, NoP)
               want == IF failing = {} THEN "ok" ELSE "fail"
           IN  IF e.outcome # want
               THEN "check_mass_balance(" \o e.tol \o "): reported " \o e.outcome \o ", the contract says " \o want
               ELSE IF want = "fail" /\ e.failing # <<"?">> /\ SeqSet(e.failing) # NameSet(failing)
                    THEN "check_mass_balance(" \o e.tol \o "): the processes named as failing are not exactly those out of balance"
                    ELSE ""
      [] e.op = "check_flows" ->
           LET flagged == FlaggedStrict(sys, NoP, SeqSet(e.exc))
               want == IF flagged = {} THEN "ok" ELSE "fail"
           IN  IF e.outcome # want
               THEN "check_flows: reported " \o e.outcome \o ", the contract says " \o want
               ELSE IF ~e.raise /\ e.flagged # <<"?">> /\ SeqSet(e.flagged) # FlowNameSet(flagged)
                    THEN "check_flows: the flagged flows are not exactly the non-excepted flows with NaN or a negative entry"
                    ELSE ""

TraceInit == /\ tid \in DOMAIN Data.traces
             /\ l = 1
             /\ sys = InitSys
TraceNext == /\ l <= Len(Events)
             /\ Clause(Events[l]) = ""
             /\ sys' = IF Events[l].op = "set" THEN Written(sys, Events[l]) ELSE sys
             /\ l' = l + 1
             /\ UNCHANGED tid
TraceSpec == TraceInit /\ [][TraceNext]_tvars

Verdict == IF l = Len(Events) + 1 THEN PrintT(<<"ACCEPTED", tid>>)
           ELSE (Clause(Events[l]) # "" => PrintT(<<"REJECTED", tid, l, Clause(Events[l])>>))
\* the mirror law of the contract holds in every state of every trace (unless a NaN is present)
MirrorInv == MirrorLaw(sys, NoP)
=============================================================================
