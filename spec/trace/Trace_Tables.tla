----------------------------- MODULE Trace_Tables -----------------------------
(***************************************************************************)
(* Direction B for C11 / C12: histories of imports into ONE array object,  *)
(* recorded from the real library and validated against the table contract *)
(* (spec/Tables.tla).                                                      *)
(*                                                                         *)
(* harness/trace_tables.py keeps one FlodymArray per trace and repeatedly  *)
(* calls set_values_from_df on it with data frames it renders from random  *)
(* abstract tables: random ordered dims (1-3 of a, b, c, d), long form or  *)
(* one dimension spread over the columns, random cell values, a random     *)
(* style (dimensions in columns / index, named / lettered / anonymous       *)
(* headers, permuted rows and columns, CSV text, omitted single-item       *)
(* dimensions), zero to three random faults (rows dropped, duplicated,     *)
(* relabelled to an unknown item, cells blanked, columns dropped or added)  *)
(* and random flags.  Every call is logged at its return with the abstract *)
(* table, the flags, whether it raised and the array's values afterwards.  *)
(* TLC evaluates Outcome / Result on the logged table: a refused import    *)
(* must leave the array EXACTLY as the previous call left it, an accepted  *)
(* one must make it the table's result - whatever was in it before.        *)
(***************************************************************************)
EXTENDS Integers, Sequences, FiniteSets, TLC, Json, IOUtils

Data == JsonDeserialize(IOEnv.TRACE_FILE)
TCanon == Data.universe.canon
TItemsOf == [l \in DOMAIN Data.universe.items |-> Data.universe.items[l]]
TRootOf == [l \in DOMAIN Data.universe.items |-> l]
INSTANCE Tables WITH Canon <- TCanon, ItemsOf <- TItemsOf, RootOf <- TRootOf

VARIABLES tid, l, x
tvars == <<tid, l, x>>
T == Data.traces[tid]
Events == T.events
DS == T.ds

SeqSet(q) == {q[i] : i \in DOMAIN q}
FromFlat(flat) == LET rm == RowMajor(DS) IN [lab \in Labelings(DS) |-> flat[IndexOf(rm, lab)]]
TabOf(e) == [rows |-> e.rows, dropped |-> SeqSet(e.dropped), extraval |-> e.extraval, extraitem |-> e.extraitem]
Flags(e) == [missing |-> e.missing, extra |-> e.extra]
OutcomeOf(e) == Outcome(DS, e.wide, TabOf(e), Flags(e), SeqSet(e.anon) \ SeqSet(e.dropped))

Clause(e) ==
    LET o == OutcomeOf(e)
        post == FromFlat(e.post)
    IN  IF o = "error"
        THEN (IF e.outcome # "error" THEN "an import that must be refused was accepted {C12}"
              ELSE IF post # x THEN "a refused import left the array changed {C12,C13}" ELSE "")
        ELSE IF o = "array"
        THEN (IF e.outcome # "ok" THEN "a valid import was refused {C11,C12}"
              ELSE IF post # Result(DS, e.wide, TabOf(e)) THEN "the imported array is not the table's content under its labels {C11,C12,C04}" ELSE "")
        ELSE (IF e.outcome = "error" /\ post # x THEN "a refused import left the array changed {C12,C13}" ELSE "")

TraceInit == /\ tid \in DOMAIN Data.traces
             /\ l = 1
             /\ x = FromFlat(T.init)
TraceNext == /\ l <= Len(Events)
             /\ Clause(Events[l]) = ""
             /\ x' = FromFlat(Events[l].post)
             /\ l' = l + 1
             /\ UNCHANGED tid
TraceSpec == TraceInit /\ [][TraceNext]_tvars

Verdict == IF l = Len(Events) + 1 THEN PrintT(<<"ACCEPTED", tid>>)
           ELSE (Clause(Events[l]) # "" => PrintT(<<"REJECTED", tid, l, Clause(Events[l])>>))
=============================================================================
