---------------------------- MODULE Trace_DimSets ----------------------------
(***************************************************************************)
(* Direction B for C14: programs RECORDED from real DimensionSet objects   *)
(* are validated against the ordered-list model (spec/DimSets.tla).        *)
(*                                                                         *)
(* harness/trace_dimsets.py runs seeded random programs over four          *)
(* registers and an alphabet of ten dimensions on seven letters (longer    *)
(* sets and longer histories than the bounded model enumerates): set       *)
(* operators, mutators in place and out of place, subsets by letters and   *)
(* names, copies, arrays built from a register.  One event is logged per   *)
(* public call at its return - also when it raised - with the arguments    *)
(* and, for EVERY register, what the real object reports: its dimensions   *)
(* (identified by name, letter and items), letters, shape and total size,  *)
(* and the dims of the array built earlier.  TLC evaluates the model's     *)
(* operators on the logged arguments; a trace is accepted iff every event  *)
(* is explained.  Python never computes an expected set.                   *)
(***************************************************************************)
EXTENDS Integers, Sequences, FiniteSets, TLC, Json, IOUtils

Data == JsonDeserialize(IOEnv.TRACE_FILE)
TDim == {Data.alphabet[i].id : i \in DOMAIN Data.alphabet}
Entry(d) == Data.alphabet[CHOOSE i \in DOMAIN Data.alphabet : Data.alphabet[i].id = d]
TLetterOf == [d \in TDim |-> Entry(d).letter]
TNameOf == [d \in TDim |-> Entry(d).name]
TSizeOf == [d \in TDim |-> Entry(d).size]
TRegs == {"r1", "r2", "r3", "r4"}

VARIABLES tid, l, ds, arrdims, last
INSTANCE DimSets WITH Dim <- TDim, LetterOf <- TLetterOf, NameOf <- TNameOf, SizeOf <- TSizeOf, Regs <- TRegs
tvars == <<tid, l, ds, arrdims, last>>

T == Data.traces[tid]
Events == T.events
FromLog(a) == IF a.none THEN None ELSE a.ids

\* the value the model gives to the written register (or Error)
Result(e) ==
    LET s == ds[e.recv] IN
    CASE e.op = "union"   -> Union(s, ds[e.other])
      [] e.op = "inter"   -> Inter(s, ds[e.other])
      [] e.op = "diff"    -> Diff(s, ds[e.other])
      [] e.op = "xor"     -> Xor(s, ds[e.other])
      [] e.op = "plus"    -> Plus(s, ds[e.other])
      [] e.op = "append"  -> AppendDim(s, e.d[1])
      [] e.op = "prepend" -> PrependDim(s, e.d[1])
      [] e.op = "insert"  -> InsertDim(s, e.i, e.d[1])
      [] e.op = "expand"  -> Expand(s, e.d)
      [] e.op = "drop"    -> DropDim(s, e.k)
      [] e.op = "replace" -> ReplaceDim(s, e.k, e.d[1])
      [] e.op = "subset"  -> Subset(s, e.keys)
      [] e.op = "copy"    -> s
      [] e.op = "build_array" -> s

Target(e) == IF e.inplace THEN e.recv ELSE e.dst
ExpectedRegs(e) ==
    LET v == Result(e) IN
    IF v = Error \/ e.op = "build_array" THEN ds ELSE [ds EXCEPT ![Target(e)] = v]
ExpectedArr(e) == IF e.op = "build_array" THEN ds[e.recv] ELSE arrdims

\* what the real object reports about itself agrees with the model's order
Reports(v, a) ==
    IF a.none THEN v = None
    ELSE /\ v # None /\ v = a.ids
         /\ Letters(v) = a.letters
         /\ ShapeOf(v) = a.shape
         /\ TotalSizeOf(v) = a.total

\* an array built from the register right after the call has the shape of the dimensions the register really lists
\* (arrshape <<-1>>: not built - too large, or the register lists a dimension unknown to the alphabet)
KnownIds(a) == \A i \in DOMAIN a.ids : a.ids[i] \in TDim
ArrayOK(a) == a.none \/ a.arrshape = <<-1>> \/ ~KnownIds(a) \/ a.arrshape = ShapeOf(a.ids)

Clause(e) ==
    LET v == Result(e)
        want == IF v = Error THEN "error" ELSE "ok"
    IN  IF e.outcome # want THEN "outcome: logged " \o e.outcome \o ", the model says " \o want
        ELSE IF \E r \in TRegs : ~ArrayOK(e.post[r])
             THEN "an array built from register " \o (CHOOSE q \in TRegs : ~ArrayOK(e.post[q])) \o " does not have the shape of the dimensions it lists {C13,C14}"
        ELSE IF \E r \in TRegs : ~Reports(ExpectedRegs(e)[r], e.post[r])
             THEN LET r == CHOOSE q \in TRegs : ~Reports(ExpectedRegs(e)[q], e.post[q]) IN
                  "register " \o r \o (IF r = Target(e) /\ v # Error THEN " (result)" ELSE IF r = e.recv THEN " (receiver)" ELSE " (bystander)")
             ELSE IF FromLog(e.arr) # ExpectedArr(e) THEN "dims of the array built earlier"
             ELSE ""

TraceInit == /\ tid \in DOMAIN Data.traces
             /\ l = 1
             /\ ds = [r \in TRegs |-> FromLog(T.init[r])]
             /\ arrdims = None
             /\ last = [op |-> "init"]
TraceNext == /\ l <= Len(Events)
             /\ Clause(Events[l]) = ""
             /\ ds' = ExpectedRegs(Events[l])
             /\ arrdims' = ExpectedArr(Events[l])
             /\ l' = l + 1
             /\ UNCHANGED <<tid, last>>
TraceSpec == TraceInit /\ [][TraceNext]_tvars

Verdict == IF l = Len(Events) + 1 THEN PrintT(<<"ACCEPTED", tid>>)
           ELSE (Clause(Events[l]) # "" => PrintT(<<"REJECTED", tid, l, Clause(Events[l])>>))
\* the model's own invariant on every state of every trace
UniqueTraceInv == \A r \in TRegs : ds[r] # None => IsDimSet(ds[r])
=============================================================================
