--------------------------- MODULE Trace_Workspace ---------------------------
(***************************************************************************)
(* Direction B: traces RECORDED from the real flodym code are validated    *)
(* against the contract (spec/Arrays.tla).                                 *)
(*                                                                         *)
(* A driver runs random programs over array registers on the real library  *)
(* (larger universes and longer programs than TLC enumerates) and logs one *)
(* event per public call, at its return - also when it raised - with the   *)
(* arguments and the projected post-state of EVERY register (dims + values *)
(* in row-major order of the register's own dims).  Here TLC evaluates the *)
(* L1 operators on the logged inputs; a trace is accepted iff every event  *)
(* is explained: the logged outcome (ok / error) and every logged register *)
(* equal what the contract computes.  Python never computes an expected    *)
(* value.                                                                  *)
(*                                                                         *)
(* One TLC run validates a whole batch of traces over one universe         *)
(* (variable tid).  Verdicts are printed: <<"ACCEPTED", tid>> or           *)
(* <<"REJECTED", tid, position, clause>>.                                  *)
(***************************************************************************)
EXTENDS Integers, Sequences, FiniteSets, TLC, Json, IOUtils

Data == JsonDeserialize(IOEnv.TRACE_FILE)
TCanon == Data.universe.canon
TItemsOf == [l \in DOMAIN Data.universe.items |-> Data.universe.items[l]]
TRootOf == [l \in DOMAIN Data.universe.items |-> Data.universe.roots[l]]
INSTANCE Arrays WITH Canon <- TCanon, ItemsOf <- TItemsOf, RootOf <- TRootOf

Regs == {"x", "y", "z", "w"}
VARIABLES tid, l, ar
tvars == <<tid, l, ar>>
None == [none |-> TRUE]

\* a logged array: [none, dims, flat]  ->  value of the specification
FromLog(a) ==
    IF a.none THEN None
    ELSE LET rm == RowMajor(a.dims) IN
         [dims |-> a.dims, val |-> [lab \in Labelings(a.dims) |-> PConst(a.flat[IndexOf(rm, lab)])]]
Same(v, a) ==       \* specification value v equals logged array a
    IF a.none THEN v = None
    ELSE v # None /\ v # Error /\ v.dims = a.dims /\ v = FromLog(a)

Events == Data.traces[tid].events
KeyOf(k) == [m \in {k[i].letter : i \in DOMAIN k} |->
                LET s == k[CHOOSE i \in DOMAIN k : k[i].letter = m] IN
                CASE s.kind = "one" -> One(s.item) [] s.kind = "sub" -> SubSel(s.dim) [] s.kind = "list" -> ListSel(s.items)]

\* the value the contract gives to the written register (or Error) for event e in state A
Result(e, A) ==
    CASE e.op = "add"      -> Add(A[e.a], A[e.b])
      [] e.op = "sub"      -> Sub(A[e.a], A[e.b])
      [] e.op = "mul"      -> Mul(A[e.a], A[e.b])
      [] e.op = "neg"      -> Neg(A[e.a])
      [] e.op = "copy"     -> A[e.a]
      [] e.op = "sum_to"   -> SumTo(A[e.a], e.dims)
      [] e.op = "sum_over" -> SumOver(A[e.a], Range(e.dims))
      [] e.op = "cast_to"  -> CastTo(A[e.a], e.dims)
      [] e.op = "cumsum"   -> CumSum(A[e.a], e.dims[1])
      [] e.op = "read"     -> GetItem(A[e.a], KeyOf(e.key))
      [] e.op = "assign_num" -> SetItemNum(A[e.dst], KeyOf(e.key), PConst(e.num))
      [] e.op = "assign_arr" -> SetItemArr(A[e.dst], KeyOf(e.key), A[e.a])
      [] e.op = "poke"     -> FromLog(e.post[e.dst])           \* the user wrote these values directly

Defined(e) == \A r \in {e.a, e.b} \cap Regs : ar[r] # None

Expected(e) ==      \* the register state after e
    LET v == Result(e, ar) IN
    IF v = Error THEN ar ELSE [ar EXCEPT ![e.dst] = v]

Clause(e) ==        \* which conjunct of the event fails ("" = none)
    LET v == Result(e, ar) IN
    IF (e.outcome = "error") # (v = Error) THEN "outcome: logged " \o e.outcome \o ", contract says " \o (IF v = Error THEN "error" ELSE "ok")
    ELSE IF \E r \in Regs : ~Same(Expected(e)[r], e.post[r])
         THEN "register " \o (CHOOSE r \in Regs : ~Same(Expected(e)[r], e.post[r])) \o
              (IF (CHOOSE r \in Regs : ~Same(Expected(e)[r], e.post[r])) = e.dst THEN " (written)" ELSE " (not written by this call)")
         ELSE ""

TraceInit == /\ tid \in DOMAIN Data.traces
             /\ l = 1
             /\ ar = [r \in Regs |-> FromLog(Data.traces[tid].init[r])]
TraceNext == /\ l <= Len(Events)
             /\ Clause(Events[l]) = ""
             /\ ar' = Expected(Events[l])
             /\ l' = l + 1
             /\ UNCHANGED tid
TraceSpec == TraceInit /\ [][TraceNext]_tvars

\* verdicts (one line per trace)
Verdict == IF l = Len(Events) + 1 THEN PrintT(<<"ACCEPTED", tid>>)
           ELSE (Clause(Events[l]) # "" => PrintT(<<"REJECTED", tid, l, Clause(Events[l])>>))
\* the contract's own invariant on every state of every trace
ShapeInv == \A r \in Regs : ar[r] # None => IsArray(ar[r])
=============================================================================
