----------------------------- MODULE Trace_Stocks -----------------------------
(***************************************************************************)
(* Direction B for the stock properties (C03, C08, C09, C10, C16, C17):    *)
(* histories RECORDED from real stock objects are validated against the    *)
(* exact-rational contract (spec/TimeGrid, Lifetime, Stocks.tla).          *)
(*                                                                         *)
(* harness/trace_stocks.py builds, per trace, ONE stock object             *)
(* (InflowDrivenDSM, StockDrivenDSM with either solver, or                 *)
(* SimpleFlowDrivenStock) on a random - mostly uneven - time grid whose    *)
(* interval lengths are powers of two, with integer drivers and a lifetime *)
(* family whose survival shares are 0, 1/4, 1/2, 1: every quantity the     *)
(* library computes is then a dyadic rational, exactly representable in    *)
(* float64, and is logged as an exact fraction <<numerator, denominator>>. *)
(* The history on that one object: single driver entries are overwritten,  *)
(* the lifetime parameters are replaced (set_prms with scalars, per-cohort *)
(* / per-label / full arrays in any storage order), compute() is called -  *)
(* repeatedly, in any order.  Every compute() logs ALL result tables and   *)
(* the lifetime model's survival table.  TLC keeps the CURRENT driver and  *)
(* parameter table as its state and accepts a compute event iff every      *)
(* logged table is exactly what the contract gives for them: results       *)
(* reflect the current inputs only (C17), conserve mass (C03), add up by   *)
(* cohort (C09), invert each other (C10).                                  *)
(*                                                                         *)
(* The constants of the (constant) modules TimeGrid / Lifetime / Stocks    *)
(* are instantiated by STATE-level expressions: the grid of the current    *)
(* trace and the current parameter table.                                  *)
(***************************************************************************)
EXTENDS Integers, Sequences, FiniteSets, TLC, Json, IOUtils

Data == JsonDeserialize(IOEnv.TRACE_FILE)
VARIABLES tid, l, drv, drv2, prm
tvars == <<tid, l, drv, drv2, prm>>
T == Data.traces[tid]

S == INSTANCE Stocks WITH Grid <- T.grid, NL <- T.nl, Family <- T.family, Setting <- T.setting, Prm8 <- prm

TN == Len(T.grid)
Tab(j) == [t \in 1..TN |-> [lab \in 1..T.nl |-> j[t][lab]]]
Events == T.events

\* ---- expected tables for the current inputs
R(x) == S!RNorm(x[1], x[2])        \* a logged fraction
SameTab1(f(_, _), logged) == \A t \in 1..TN, lab \in 1..T.nl : f(t, lab) = R(logged[t][lab])
SameTab2(f(_, _, _), logged) == \A t \in 1..TN, c \in 1..TN, lab \in 1..T.nl : f(t, c, lab) = R(logged[t][c][lab])
RD(d) == [t \in 1..TN |-> [lab \in 1..T.nl |-> S!RInt(d[t][lab])]]

StockIn == [t \in 1..TN |-> [lab \in 1..T.nl |-> S!SInflow(RD(drv), t, lab)]]       \* stock-driven: the inflow found

ClauseCompute(e) ==
    IF e.outcome # "ok" THEN "compute raised"
    ELSE IF T.cls # "flow" /\ ~SameTab2(LAMBDA t, c, lab : S!SF(t, c, lab), e.sf) THEN "survival table {C08,C17}"
    ELSE CASE T.cls = "flow" ->
               IF ~SameTab1(LAMBDA t, lab : S!FlowStock(drv, drv2, t, lab), e.stock) THEN "stock {C03}" ELSE ""
           [] T.cls = "inflow" ->
               IF ~SameTab1(LAMBDA t, lab : S!RInt(drv[t][lab]), e.inflow) THEN "inflow driver changed {C15,C17}"
               ELSE IF ~SameTab1(LAMBDA t, lab : S!IStock(drv, t, lab), e.stock) THEN "stock {C09,C16,C17}"
               ELSE IF ~SameTab1(LAMBDA t, lab : S!IOutflow(drv, t, lab), e.outflow) THEN "outflow {C03,C09,C17}"
               ELSE IF ~SameTab2(LAMBDA t, c, lab : S!ISbc(drv, t, c, lab), e.sbc) THEN "stock by cohort {C09,C17}"
               ELSE IF ~SameTab2(LAMBDA t, c, lab : S!IObc(drv, t, c, lab), e.obc) THEN "outflow by cohort {C09,C17}"
               ELSE ""
           [] T.cls = "stock" ->
               IF ~SameTab1(LAMBDA t, lab : S!RInt(drv[t][lab]), e.stock) THEN "prescribed stock changed {C15,C17}"
               ELSE IF ~SameTab1(LAMBDA t, lab : StockIn[t][lab], e.inflow) THEN "inflow {C10,C16,C17}"
               ELSE IF ~SameTab1(LAMBDA t, lab : S!ROutflow(StockIn, t, lab), e.outflow) THEN "outflow {C10,C03,C17}"
               ELSE IF ~SameTab2(LAMBDA t, c, lab : S!RSbc(StockIn, t, c, lab), e.sbc) THEN "stock by cohort {C09,C10,C17}"
               ELSE IF ~SameTab2(LAMBDA t, c, lab : S!RObc(StockIn, t, c, lab), e.obc) THEN "outflow by cohort {C09,C10,C17}"
               ELSE ""

Clause(e) == IF e.op = "compute" THEN ClauseCompute(e)
             ELSE IF e.op = "set_prm_raised" THEN "set_prms refused well-formed lifetime parameters (" \o e.outcome \o ") {C08,C17}"
             ELSE IF e.op = "build_raised" THEN "building the stock from well-formed inputs raised (" \o e.outcome \o ") {C08,C13,C17}"
             ELSE ""

\* the contract's own theorems on the expected tables of every compute state (inflow class)
Theorems ==
    (l <= Len(Events) /\ Events[l].op = "compute" /\ T.cls = "inflow") =>
        S!Conserves([t \in 1..TN |-> [lab \in 1..T.nl |-> S!IStock(drv, t, lab)]], RD(drv),
                    [t \in 1..TN |-> [lab \in 1..T.nl |-> S!IOutflow(drv, t, lab)]])

TraceInit == /\ tid \in DOMAIN Data.traces
             /\ l = 1
             /\ drv = Tab(T.init.driver) /\ drv2 = Tab(T.init.driver2) /\ prm = Tab(T.init.prm8)
TraceNext == /\ l <= Len(Events)
             /\ Clause(Events[l]) = ""
             /\ LET e == Events[l] IN
                /\ drv' = IF e.op = "set_driver" THEN [drv EXCEPT ![e.t][e.lab] = e.val] ELSE drv
                /\ drv2' = IF e.op = "set_driver2" THEN [drv2 EXCEPT ![e.t][e.lab] = e.val] ELSE drv2
                /\ prm' = IF e.op = "set_prm" THEN Tab(e.prm8) ELSE prm
             /\ l' = l + 1
             /\ UNCHANGED tid
TraceSpec == TraceInit /\ [][TraceNext]_tvars

Verdict == IF l = Len(Events) + 1 THEN PrintT(<<"ACCEPTED", tid>>)
           ELSE (Clause(Events[l]) # "" => PrintT(<<"REJECTED", tid, l, Clause(Events[l])>>))
=============================================================================
