--------------------------- MODULE Trace_Lifecycle ---------------------------
(***************************************************************************)
(* Direction B for whole model runs: histories RECORDED from real          *)
(* MFASystem objects are validated against spec/Lifecycle.tla.             *)
(*                                                                         *)
(* harness/trace_lifecycle.py draws a random model - processes, flows and  *)
(* stocks over random ordered subsets of the dimensions, parameters, and a *)
(* compute() PROGRAM of flodym array expressions, assignments and stock    *)
(* computations - builds the real system from its definition (through      *)
(* from_data_reader / from_csv / from_excel), and then runs a history on   *)
(* that ONE object: parameter entries edited, lifetimes replaced,          *)
(* compute(), flow entries overwritten (also with NaN), both checks with   *)
(* every tolerance form, exports in every form, compute() again ...        *)
(* Every call is logged at its return with what it reported / exported and *)
(* with the projection of EVERY array of the system.  TLC keeps the        *)
(* specification's state, applies the contract's effect of the event and   *)
(* accepts the event iff the logged arrays EQUAL the contract's (exact     *)
(* fractions - all values are dyadic rationals) and the logged report /    *)
(* export is what the contract says for the current values.  Python never  *)
(* computes an expected value.                                             *)
(***************************************************************************)
EXTENDS Integers, Sequences, FiniteSets, TLC, Json, IOUtils

Data == JsonDeserialize(IOEnv.TRACE_FILE)
TCanon == Data.universe.canon
TItemsOf == [l \in DOMAIN Data.universe.items |-> Data.universe.items[l]]
TRootOf == [l \in DOMAIN Data.universe.items |-> l]

VARIABLES tid, l, st
tvars == <<tid, l, st>>
T == Data.traces[tid]
M == T.model

INSTANCE Lifecycle WITH Canon <- TCanon, ItemsOf <- TItemsOf, RootOf <- TRootOf, TGrid <- T.grid

Events == T.events
R(x) == IF x[2] = 0 THEN RNaN ELSE RNorm(x[1], x[2])        \* a logged fraction
FromFlat(ds, flat) == LET rm == RowMajor(ds) IN [dims |-> ds, val |-> [lab \in Labelings(ds) |-> R(flat[IndexOf(rm, lab)])]]
LabAt(ds, pos) == RowMajor(ds)[pos]
SeqSet(s) == {s[i] : i \in DOMAIN s}

InitState ==
    Built(M, [p \in DOMAIN M.params |-> FromFlat(M.params[p].dims, T.init.prm[p])], T.init.life8)

\* ---- the contract's effect of an event on the state
Effect(s, e) ==
    CASE e.op = "set_param" -> [s EXCEPT !.prm[e.id].val[LabAt(M.params[e.id].dims, e.pos)] = R(e.val)]
      [] e.op = "edit_flow" -> [s EXCEPT !.flw[e.id].val[LabAt(M.flows[e.id].dims, e.pos)] = R(e.val)]
      [] e.op = "set_life"  -> [s EXCEPT !.life8[e.id] = e.val[1]]
      [] e.op = "compute"   -> Compute(M, s)
      \* a table imported into a parameter: a valid one replaces every entry by the entry of the row carrying its labels,
      \* a faulty one (duplicate / missing / unknown labels) is refused and changes nothing (C11, C12)
      [] e.op = "import_param" -> IF e.kind = "valid" THEN [s EXCEPT !.prm[e.id] = FromFlat(M.params[e.id].dims, e.newflat)] ELSE s
      [] OTHER -> s                         \* build, checks and exports change nothing

\* ---- comparison of the logged projection of the real system with a state
SameArr(logged, x) ==
    /\ logged.dims = x.dims
    /\ Len(logged.flat) = Len(RowMajor(x.dims))
    /\ \A k \in DOMAIN logged.flat : R(logged.flat[k]) = x.val[RowMajor(x.dims)[k]]
SameArrs(loggedSeq, xs) == Len(loggedSeq) = Len(xs) /\ \A i \in DOMAIN xs : SameArr(loggedSeq[i], xs[i])

ClauseState(e, s2, what) ==
    IF ~SameArrs(e.state.prm, s2.prm) THEN what \o ": a parameter differs from the contract's {C15,C13,C11,C12}"
    ELSE IF ~SameArrs(e.state.flw, s2.flw) THEN what \o ": a flow differs from the contract's {C05,C01,C07,C15,C17}"
    ELSE IF ~SameArrs(e.state.sin, s2.sin) THEN what \o ": a stock inflow differs from the contract's {C05,C15,C17}"
    ELSE IF ~SameArrs(e.state.slev, s2.slev) THEN what \o ": a stock level differs from the contract's {C03,C09,C16,C17}"
    ELSE IF ~SameArrs(e.state.sout, s2.sout) THEN what \o ": a stock outflow differs from the contract's {C03,C09,C16,C17}"
    ELSE ""

\* ---- build (C18): what the library built, against the definition
ClauseBuild(e) ==
    LET b == e.sys IN
    IF b.procs # [i \in DOMAIN M.procs |-> <<M.procs[i], i - 1>>] THEN "build: processes are not numbered in the listed order {C18}"
    ELSE IF Len(b.flows) # Len(M.flows) \/ \E f \in DOMAIN M.flows :
               ~(b.flows[f].name = M.flows[f].name /\ b.flows[f].from = M.procs[M.flows[f].from]
                 /\ b.flows[f].to = M.procs[M.flows[f].to] /\ b.flows[f].dims = M.flows[f].dims)
         THEN "build: a flow does not match its definition {C18}"
    ELSE IF Len(b.stocks) # Len(M.stocks) \/ \E s \in DOMAIN M.stocks :
               ~(b.stocks[s].name = M.stocks[s].name /\ b.stocks[s].dims = M.stocks[s].dims
                 /\ b.stocks[s].proc = (IF M.stocks[s].proc = 0 THEN "" ELSE M.procs[M.stocks[s].proc])
                 /\ b.stocks[s].kind = M.stocks[s].kind)
         THEN "build: a stock does not match its definition {C18}"
    ELSE IF Len(b.params) # Len(M.params) \/ \E p \in DOMAIN M.params :
               ~(b.params[p].name = M.params[p].name /\ b.params[p].dims = M.params[p].dims)
         THEN "build: a parameter does not match its definition {C18}"
    ELSE ""

\* ---- checks (C02)
ClauseCheckMB(e) ==
    LET failing == Failing(M, st, e.tol)
        want == IF failing = {} THEN "ok" ELSE "fail"
    IN  IF e.outcome # want
        THEN "check_mass_balance(" \o e.tol \o "): reported " \o e.outcome \o ", the contract says " \o want \o " {C02}"
        ELSE IF want = "fail" /\ e.failing # <<"?">> /\ SeqSet(e.failing) # {M.procs[p] : p \in failing}
             THEN "check_mass_balance(" \o e.tol \o "): the processes named as failing are not exactly those out of balance {C02}"
             ELSE ""
ClauseCheckFlows(e) ==
    LET flagged == Flagged(M, st, SeqSet(e.exc))
        want == IF flagged = {} THEN "ok" ELSE "fail"
    IN  IF e.outcome # want THEN "check_flows: reported " \o e.outcome \o ", the contract says " \o want \o " {C02}"
        ELSE IF ~e.raise /\ e.flagged # <<"?">> /\ SeqSet(e.flagged) # {M.flows[f].name : f \in flagged}
             THEN "check_flows: the flagged flows are not exactly the non-excepted flows with NaN or a negative entry {C02}"
             ELSE ""

\* ---- exports (C19): every flow and stock, exactly its values under its labels, at the moment of the export
RowsAre(rows, x) ==       \* rows: sequence of [lab, v]; lab in the order of x.dims
    /\ Len(rows) = Cardinality(Labelings(x.dims))
    /\ \A lab \in Labelings(x.dims) :
          \E i \in DOMAIN rows : /\ rows[i].lab = [k \in DOMAIN x.dims |-> lab[x.dims[k]]]
                                 /\ R(rows[i].v) = x.val[lab]
ClauseExport(e) ==
    IF e.procs # M.procs THEN "export(" \o e.kind \o "): process list {C19}"
    ELSE IF Len(e.flows) # Len(M.flows) THEN "export(" \o e.kind \o "): not one entry per flow {C19}"
    ELSE IF \E f \in DOMAIN M.flows : ~\E i \in DOMAIN e.flows :
                /\ e.flows[i].name = M.flows[f].name /\ e.flows[i].dims = M.flows[f].dims
                /\ e.flows[i].from = M.procs[M.flows[f].from] /\ e.flows[i].to = M.procs[M.flows[f].to]
                /\ RowsAre(e.flows[i].rows, st.flw[f])
         THEN "export(" \o e.kind \o "): a flow is not exported with exactly its values under its labels {C19}"
    ELSE IF e.kind \in {"pandas", "csv"} /\ \E f \in DOMAIN M.flows : \E i \in DOMAIN e.flows :
                \* (a flow holding a NaN cannot be read back: from_df refuses blank values - C12)
                e.flows[i].name = M.flows[f].name /\ ~HasNaN(st.flw[f]) /\ ~SameArr(e.flows[i].back, st.flw[f])
         THEN "export(" \o e.kind \o "): a flow's exported table read back with from_df is not the flow {C19,C11}"
    ELSE IF Len(e.stocks) # Len(M.stocks) THEN "export(" \o e.kind \o "): not one entry per stock {C19}"
    ELSE IF \E s \in DOMAIN M.stocks : ~\E i \in DOMAIN e.stocks :
                /\ e.stocks[i].name = M.stocks[s].name /\ e.stocks[i].dims = M.stocks[s].dims
                /\ e.stocks[i].proc = (IF M.stocks[s].proc = 0 THEN "" ELSE M.procs[M.stocks[s].proc])
                /\ RowsAre(e.stocks[i].rows, st.slev[s])
                /\ e.inout => (RowsAre(e.stocks[i].inrows, st.sin[s]) /\ RowsAre(e.stocks[i].outrows, st.sout[s]))
         THEN "export(" \o e.kind \o "): a stock is not exported with exactly its values under its labels {C19}"
    ELSE ""

\* ---- Sankey diagram (C20): nodes and links of the figure against the state at that moment
ClauseSankey(e) ==
    LET want == SankeyLinks(M, st, e.slice, SeqSet(e.exclp), SeqSet(e.exclf), e.split)
        got  == {<<e.links[i].src, e.links[i].tgt, e.links[i].kind, e.links[i].name, e.links[i].item, R(e.links[i].v)>> : i \in DOMAIN e.links}
    IN  IF e.outcome # "ok" THEN "sankey: plotting " \o e.outcome \o " {C20}"
        ELSE IF e.nodes # SankeyNodes(M, SeqSet(e.exclp)) THEN "sankey: the nodes are not the shown processes in their order {C20}"
        ELSE IF got # want \/ Len(e.links) # Cardinality(want)
             THEN "sankey: the links are not one per shown flow (or per item of a split flow) with the sliced totals between the right nodes {C20}"
             ELSE ""

\* ---- line plot of a flow (C20)
ClauseLines(e) ==
    LET want == PlotLines(st.flw[e.id], e.intra, e.sub, e.col)
        got  == {<<e.lines[i].s, e.lines[i].c, e.lines[i].x, [k \in DOMAIN e.lines[i].y |-> R(e.lines[i].y[k])]>> : i \in DOMAIN e.lines}
    IN  IF e.outcome # "ok" THEN "line plot: plotting " \o e.outcome \o " {C20}"
        ELSE IF got # want \/ Len(e.lines) # Cardinality(want)
             THEN "line plot: the lines are not one per (subplot item, line item) with the flow's entries along the chosen dimension {C20}"
             ELSE ""

\* ---- which conjunct of the event fails ("" = none)
Clause(e) ==
    LET own == CASE e.op = "build" -> ClauseBuild(e)
                 [] e.op = "check_mb" -> ClauseCheckMB(e)
                 [] e.op = "check_flows" -> ClauseCheckFlows(e)
                 [] e.op = "export" -> ClauseExport(e)
                 [] e.op = "sankey" -> ClauseSankey(e)
                 [] e.op = "lines" -> ClauseLines(e)
                 [] e.op = "compute" -> IF e.outcome # "ok" THEN "compute raised {C05}" ELSE ""
                 [] e.op = "raised" -> e.outcome
                 [] e.op = "import_param" ->
                      IF e.kind = "valid" /\ e.outcome # "ok" THEN "a valid table was refused by set_values_from_df (" \o e.outcome \o ") {C11}"
                      ELSE IF e.kind = "faulty" /\ e.outcome = "ok" THEN "a faulty table (duplicate / missing / unknown labels) was accepted {C12}"
                      ELSE ""
                 [] OTHER -> ""
    IN  IF own # "" \/ e.op = "raised" THEN own ELSE ClauseState(e, Effect(st, e), e.op)

TraceInit == /\ tid \in DOMAIN Data.traces
             /\ l = 1
             /\ st = InitState
TraceNext == /\ l <= Len(Events)
             /\ Clause(Events[l]) = ""
             /\ st' = Effect(st, Events[l])
             /\ l' = l + 1
             /\ UNCHANGED tid
TraceSpec == TraceInit /\ [][TraceNext]_tvars

Verdict == IF l = Len(Events) + 1 THEN PrintT(<<"ACCEPTED", tid>>)
           ELSE (Clause(Events[l]) # "" => PrintT(<<"REJECTED", tid, l, Clause(Events[l])>>))

\* theorems of the composed contract in every state of every trace
MirrorInv == MirrorLaw(M, st)
ProgramOK == WellFormedFrom(M, st, 1)
\* right after a compute(): computing again changes nothing, and every computed dynamic stock conserves mass
AfterCompute ==
    (l > 1 /\ Events[l - 1].op = "compute") =>
        /\ Compute(M, st) = st
        /\ \A s \in DOMAIN M.stocks : (\E k \in DOMAIN M.prog : M.prog[k].op = "scompute" /\ M.prog[k].id = s) => StockConserves(M, st, s)
=============================================================================
