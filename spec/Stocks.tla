------------------------------- MODULE Stocks -------------------------------
(***************************************************************************)
(* L1 - stock models (C03, C09, C10, C16).  Flows are per-year RATES;      *)
(* dt(t) = DT2(t)/2 is the length of interval t.  All values rational.     *)
(*                                                                         *)
(* A driver is a function [1..N -> [Labs -> Int]].                         *)
(***************************************************************************)
EXTENDS Lifetime

Dt(t) == <<DT2(t), 2>>            \* (RNorm applied where it is used)
DtR(t) == RNorm(DT2(t), 2)

\* ---- flow-driven: stock = cumulative net inflow over whole periods
FlowStock(inflow, outflow, t, lab) ==
    RSumOver(LAMBDA u : RMul(DtR(u), RInt(inflow[u][lab] - outflow[u][lab])), 1..t)

\* ---- inflow-driven dynamic stock model
\* stock by cohort: what entered cohort c over its whole interval times its survival share
ISbc(inflow, t, c, lab) == RMul(RMul(RInt(inflow[c][lab]), DtR(c)), SF(t, c, lab))
IStock(inflow, t, lab) == RSumOver(LAMBDA c : ISbc(inflow, t, c, lab), 1..N)
\* outflow by cohort as a RATE in interval t: the amount leaving cohort c during t, per year of t
IObc(inflow, t, c, lab) == RDiv(RMul(RMul(RInt(inflow[c][lab]), DtR(c)), PDF(t, c, lab)), DtR(t))
IOutflow(inflow, t, lab) == RSumOver(LAMBDA c : IObc(inflow, t, c, lab), 1..N)

\* ---- the same with a rational inflow (needed for the stock-driven model)
RSbc(rin, t, c, lab) == RMul(RMul(rin[c][lab], DtR(c)), SF(t, c, lab))
RStockOf(rin, t, lab) == RSumOver(LAMBDA c : RSbc(rin, t, c, lab), 1..N)
RObc(rin, t, c, lab) == RDiv(RMul(RMul(rin[c][lab], DtR(c)), PDF(t, c, lab)), DtR(t))
ROutflow(rin, t, lab) == RSumOver(LAMBDA c : RObc(rin, t, c, lab), 1..N)

\* ---- stock-driven: the unique inflow whose inflow-driven stock is the prescribed one.
\* Defined by forward substitution over whole-period inflows W; needs SF(c,c) # 0.
SolvableLab(lab) == \A c \in 1..N : ~RIsZero(SF(c, c, lab))
Solvable == \A lab \in Labs : SolvableLab(lab)
RECURSIVE Whole(_, _, _)
Whole(stock, c, lab) ==     \* whole-period inflow of cohort c
    RDiv(RSub(stock[c][lab],
              RSumOver(LAMBDA j : RMul(SF(c, j, lab), Whole(stock, j, lab)), 1..(c - 1))),
         SF(c, c, lab))
SInflow(stock, c, lab) == RDiv(Whole(stock, c, lab), DtR(c))

(***************************************************************************)
(* C03: mass conservation of a triple (stock, inflow, outflow) of rational *)
(* tables [1..N -> [Labs -> Rat]]                                          *)
(***************************************************************************)
Conserves(stock, rin, rout) ==
    \A t \in 1..N, lab \in Labs :
        RSub(stock[t][lab], IF t = 1 THEN RInt(0) ELSE stock[t - 1][lab])
          = RMul(DtR(t), RSub(rin[t][lab], rout[t][lab]))

\* the self-check: largest (over labels) sum over time of |dt*(in - out) - stock change|
RAbs(a) == IF a[1] < 0 THEN RNeg(a) ELSE a
BalanceDefect(stock, rin, rout, lab) ==
    RSumOver(LAMBDA t : RAbs(RSub(RMul(DtR(t), RSub(rin[t][lab], rout[t][lab])),
                                  RSub(stock[t][lab], IF t = 1 THEN RInt(0) ELSE stock[t - 1][lab]))), 1..N)
=============================================================================
