------------------------------ MODULE MC_System ------------------------------
(***************************************************************************)
(* Bounded model for C18: definitions drawn from pools (process lists with *)
(* missing / misplaced sysenv, flows with undefined processes / letters,   *)
(* overrides, the three naming functions, stocks of every class with       *)
(* missing / superfluous lifetime models, both solvers, time letters,      *)
(* processes, dims with time first or not, parameters), and dimension      *)
(* files in every orientation / header / file type / sheet variant.        *)
(***************************************************************************)
EXTENDS Integers, Sequences, FiniteSets, TLC, Json
CONSTANTS Emit, Part          \* Part: "defs" | "files" | "deep" (thorough tier: full cross products of valid pools)
INSTANCE System

VARIABLES cfg, res, phase
vars == <<cfg, res, phase>>

Letters == {"t", "r", "e"}
\* (first names that are NOT the system environment include look-alikes: a fragment, another case, a longer name)
ProcLists == {<<"sysenv", "A", "B">>, <<"sysenv", "B", "A">>, <<"sysenv">>, <<"A", "sysenv">>, <<"A", "B">>, <<"sysenv", "use phase", "A">>,
              <<"env", "A", "B">>, <<"Sysenv", "A">>, <<"sysenv2", "A">>, <<"s", "A", "B">>}
FlowPool == {[from |-> "sysenv", to |-> "A", dims |-> <<"t", "r">>, override |-> ""],
             [from |-> "A", to |-> "B", dims |-> <<"r", "t", "e">>, override |-> ""],
             [from |-> "A", to |-> "B", dims |-> <<"e">>, override |-> "second A to B"],
             [from |-> "B", to |-> "sysenv", dims |-> <<>>, override |-> ""],
             \* an override that is the EMPTY string (written "<empty>" here; "" means "no override" in this model): a name like any other
             [from |-> "sysenv", to |-> "A", dims |-> <<"t">>, override |-> "<empty>"],
             [from |-> "use phase", to |-> "A", dims |-> <<"t">>, override |-> ""],
             [from |-> "A", to |-> "X", dims |-> <<"t">>, override |-> ""],          \* undefined process
             [from |-> "B", to |-> "A", dims |-> <<"t", "z">>, override |-> ""]}     \* undefined letter
\* (a list may name the same template twice only with different generated names; equal pairs are dropped)
FlowLists0 == {<<>>} \cup {<<f>> : f \in FlowPool} \cup {<<f, g>> : f \in FlowPool, g \in FlowPool}

FlowLists == {fl \in FlowLists0 : Len(fl) < 2 \/ fl[1] # fl[2]}

StockPool ==
    {[name |-> "in use", cls |-> c, lm |-> l, solver |-> s, tl |-> tl, proc |-> p, dims |-> ds] :
        c \in AllClasses \cup {"UserStockDrivenDSM"}, l \in {"", "FixedLifetime", "WeibullLifetime"}, s \in {"manual", "lapack"},
        tl \in {"t", "r"}, p \in {"", "A", "X"}, ds \in {<<"t", "r">>, <<"r", "t">>, <<"t">>, <<"t", "z">>}}
\* two stocks in one definition: every combination of (no process / process A / process B) for the first and the second one -
\* each stock gets ITS OWN process (or none), whatever the stock listed before it had
TwoStocks == {<< [name |-> "in use", cls |-> "SimpleFlowDrivenStock", lm |-> "", solver |-> "manual", tl |-> "t", proc |-> p1, dims |-> <<"t", "r">>],
                 [name |-> "landfill", cls |-> "SimpleFlowDrivenStock", lm |-> "", solver |-> "manual", tl |-> "t", proc |-> p2, dims |-> <<"t">>] >> :
                 p1 \in {"", "A", "B"}, p2 \in {"", "A", "B"}}
StockLists == {<<>>} \cup {<<s>> : s \in StockPool} \cup TwoStocks
ParamListsSeq == << <<>>, << [name |-> "alpha", dims |-> <<"r", "t">>] >>,
                   << [name |-> "alpha", dims |-> <<"t">>], [name |-> "beta", dims |-> <<"e", "r">>] >> >>
ParamLists == {<<>>, << [name |-> "alpha", dims |-> <<"r", "t">>] >>,
               << [name |-> "alpha", dims |-> <<"t">>], [name |-> "beta", dims |-> <<"e", "r">>] >>,
               << [name |-> "gamma", dims |-> <<"z">>] >>}

DefConfigs ==
    \* vary one aspect at a time around a base definition, plus some combinations
    LET base == [letters |-> Letters, procs |-> <<"sysenv", "A", "B">>, flows |-> <<>>, stocks |-> <<>>, params |-> <<>>, naming |-> "arrow"]
    IN       {[base EXCEPT !.procs = p, !.flows = fl, !.naming = n] : p \in ProcLists, fl \in FlowLists, n \in {"arrow", "no_spaces", "ids"}}
        \cup {[base EXCEPT !.procs = p, !.stocks = st] : p \in {<<"sysenv", "A", "B">>, <<"sysenv", "B", "A">>, <<"A", "B">>}, st \in StockLists}
        \cup {[base EXCEPT !.params = pa, !.flows = fl] : pa \in ParamLists, fl \in {<<>>} \cup {<<f>> : f \in FlowPool}}

\* thorough tier: instead of varying one aspect at a time, the full cross product of process lists x flow lists of up to THREE
\* flows (valid templates, overrides incl. the empty one) x naming functions x two-stock lists x parameter lists
ValidFlows == {f \in FlowPool : f.to # "X" /\ "z" \notin {f.dims[i] : i \in DOMAIN f.dims}}
DeepFlowLists == {fl \in {<<f, g>> : f \in ValidFlows, g \in ValidFlows} \cup {<<f, g, h>> : f \in ValidFlows, g \in ValidFlows, h \in ValidFlows} :
                     \A i, j \in DOMAIN fl : i # j => fl[i] # fl[j]}
DeepConfigs ==
    {[letters |-> Letters, procs |-> p, flows |-> fl, stocks |-> st, params |-> pa, naming |-> n] :
        p \in {<<"sysenv", "A", "B">>, <<"sysenv", "use phase", "A">>, <<"A", "sysenv", "B">>}, fl \in DeepFlowLists,
        st \in {<<>>} \cup TwoStocks, pa \in {ParamListsSeq[1], ParamListsSeq[3]}, n \in {"arrow", "no_spaces", "ids"}}

\* dimension files
ItemLists == {<<2000, 2010, 2020>>, <<7>>, <<3, 1, 2>>}
\* (the last list: items that a reader would parse as numbers although the dimension is declared as strings)
StrLists == {<<"x", "y">>, <<"product", "scrap", "waste">>, <<"b", "a", "c">>, <<"only">>, <<"2000", "2010", "1990">>}
FileConfigs ==
    {[op |-> "dimfile", name |-> nm, dtype |-> "int", ints |-> it, strs |-> <<>>, orient |-> o, headed |-> h, ftype |-> ft, sheet |-> sh, twod |-> td] :
        nm \in {"Time"}, it \in ItemLists, o \in {"row", "col"}, h \in BOOLEAN, ft \in {"csv", "xlsx"},
        sh \in {"default", "named", "second"}, td \in BOOLEAN}
    \cup
    {[op |-> "dimfile", name |-> nm, dtype |-> "str", ints |-> <<>>, strs |-> it, orient |-> o, headed |-> h, ftype |-> ft, sheet |-> sh, twod |-> td] :
        nm \in {"waste", "Region"}, it \in StrLists, o \in {"row", "col"}, h \in BOOLEAN, ft \in {"csv", "xlsx"},
        sh \in {"default", "named", "second"}, td \in BOOLEAN}

Init == /\ phase = "cfg" /\ res = [pending |-> TRUE]
        /\ cfg \in (IF Part = "deep" THEN {[op |-> "build", def |-> d] : d \in DeepConfigs}
                    ELSE IF Part = "defs" THEN {[op |-> "build", def |-> d] : d \in DefConfigs}
                                     ELSE {[op |-> "dimfile", file |-> f] : f \in {g \in FileConfigs : ~(g.ftype = "csv" /\ g.sheet # "default")}})
Step == /\ phase = "cfg" /\ phase' = "done" /\ UNCHANGED cfg
        /\ res' = IF cfg.op = "build" THEN Build(cfg.def)
                  ELSE LET f == cfg.file IN
                       ParseDimFile(f.name, IF f.dtype = "int" THEN f.ints ELSE f.strs, f.headed, f.twod)
Spec == Init /\ [][Step]_vars

DefJson(d) == [letters |-> d.letters, procs |-> d.procs, flows |-> d.flows, stocks |-> d.stocks, params |-> d.params, naming |-> d.naming]
EmitInv == (Emit /\ phase = "done") =>
    PrintT(<<"VEC", ToJson([op |-> cfg.op, def |-> IF cfg.op = "build" THEN DefJson(cfg.def) ELSE <<>>,
                            file |-> IF cfg.op = "dimfile" THEN cfg.file ELSE <<>>, res |-> res])>>)

Prop_C18 ==
    (phase = "done" /\ cfg.op = "build") =>
      LET d == cfg.def IN
      /\ (res = Error) <=> ~(DefinitionOK(d) /\ SystemOK(d))
      /\ res # Error =>
            /\ res.procs[1] = <<"sysenv", 0>>
            /\ \A i \in DOMAIN res.procs : res.procs[i][2] = i - 1
            /\ Len(res.flows) = Len(d.flows) /\ Len(res.stocks) = Len(d.stocks) /\ Len(res.params) = Len(d.params)
            /\ \A i \in DOMAIN res.stocks : res.stocks[i].dims[1] = res.stocks[i].tl
=============================================================================
