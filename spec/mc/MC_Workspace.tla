---------------------------- MODULE MC_Workspace ----------------------------
(***************************************************************************)
(* Bounded histories over the workspace (spec/Workspace.tla).              *)
(*                                                                         *)
(* Scenario "assign": target x, source y, raw ndarray; assignments of all  *)
(*     kinds incl. refused ones, whole-array ndarray assignment through    *)
(*     [...] and set_values with right / permuted / broadcastable / other  *)
(*     rank shapes, later mutation of the ndarray, direct writes.  (C05,C13)*)
(* Scenario "alias": every operation that returns an array, followed by    *)
(*     writes into the result's values, into the source's values, and      *)
(*     in-place edits of the result's dimension set.  (C15, C13)           *)
(* Scenario "mixed": all actions; used with -simulate for long histories.  *)
(*                                                                         *)
(* The behaviour so far is carried in `hist`, so exhaustive search visits  *)
(* every history up to Depth once; each complete history is emitted and    *)
(* replayed from scratch into flodym, comparing all registers by label     *)
(* after every step.                                                       *)
(***************************************************************************)
EXTENDS Integers, Sequences, FiniteSets, TLC, Json

CONSTANTS Pattern, Scenario, Depth, Emit,
          XD1, XD2, XD3, YD1, YD2, YD3     \* dims of x and y, letter by letter ("" = none); cfg files cannot hold tuples
XD == SelectSeq(<<XD1, XD2, XD3>>, LAMBDA l : l # "")
YD == SelectSeq(<<YD1, YD2, YD3>>, LAMBDA l : l # "")

INSTANCE IndexUniverse
MCARegs == {"x", "y", "z", "w"}
VARIABLES ar, nd, last, fresh, hist
INSTANCE Workspace WITH Canon <- MCCanon, ItemsOf <- MCItemsOf, RootOf <- MCRootOf, ARegs <- MCARegs
vars == <<ar, nd, last, fresh, hist>>

Dst == {"z", "w"}
Srcs == {r \in MCARegs : Defined(r)}

\* ---- key menu for histories: at most two selected letters
SelMenu(l) == {One(1), One(2)} \cup (IF l \in BaseSet THEN {SubSel(SubMulti[l]), SubSel(SubSingle[l])} ELSE {})
WSelMenu(l) == SelMenu(l) \cup {ListSel(<<2, 1>>)}
KeyMenu(ds, writes) ==
    LET sel(l) == IF writes THEN WSelMenu(l) ELSE SelMenu(l)
        one == UNION {{[m \in {l} |-> s] : s \in sel(l)} : l \in Range(ds)}
        two == UNION {UNION {{[m \in {l1, l2} |-> IF m = l1 THEN s1 ELSE s2] : s1 \in sel(l1), s2 \in sel(l2)} :
                                 l2 \in {q \in Range(ds) : q # l1}} : l1 \in Range(ds)}
    IN  {[m \in {} |-> 0]} \cup one \cup two
\* some deliberately ill-formed keys: an unknown item, a subset dimension of another base
BadKeys(ds) == UNION {{[m \in {l} |-> One(0)]} : l \in Range(ds)}

NdShapes(ds) ==        \* raw ndarrays offered for whole-array assignment into an array over ds
    {ds} \cup Perms(ds) \cup (IF Len(ds) >= 1 THEN {SubSeq(ds, 1, Len(ds) - 1)} ELSE {})
         \cup {ds \o <<l>> : l \in {m \in BaseSet : m \notin Range(ds)}}

TargetDims(ds) == {t \in OrderedSubsets(BaseSet) : Range(ds) \subseteq Range(t) /\ Len(t) <= Len(ds) + 1}
               \cup (IF Len(ds) >= 1 THEN {SubSeq(ds, 1, Len(ds) - 1)} ELSE {})   \* refused: lacks a dim

AssignActions ==
    \/ \E t \in {"x"} : \E k \in KeyMenu(ar[t].dims, TRUE) \cup BadKeys(ar[t].dims) :
          \/ AssignNum(t, k)
          \/ (~HasList(k) /\ \E s \in Srcs \ {t} : AssignArr(t, k, s))
          \/ (nd # None /\ ~HasList(k) /\ KeyOK(ar[t], k) /\ Shape(DimsOut(ar[t], k)) = Shape(nd.dims) /\ AssignNd(t, k))
    \/ \E t \in {"x"}, via \in {"ellipsis", "set_values"} : AssignWholeNd(t, via)
    \/ \E t \in {"x"} : \E ds \in NdShapes(ar[t].dims) \cup UNION {{DimsOut(ar[t], k)} : k \in KeyMenu(ar[t].dims, FALSE)} : NewNd(ds)
    \/ MutateNd
    \/ Poke("x")
    \/ Poke("y")          \* writing into the SOURCE after an assignment must not reach the target

AliasActions ==
    \/ \E d \in {"z"}, op \in {"add", "sub", "mul"}, s1 \in {"x"}, s2 \in {"x", "y"} : Arith(d, op, s1, s2)
    \/ \E d \in {"z"}, s \in {"x"} :
          \/ \E op \in {"copy", "neg", "full_like", "apply_neg"} \cup NeutralOps : Unary(d, op, s, <<>>)
          \/ \E t \in TargetDims(ar[s].dims) : (RootsDistinct(Range(t) \cup Range(ar[s].dims)) /\ Unary(d, "cast_to", s, t))
          \/ \E k \in OrderedSubsets(Range(ar[s].dims)) : Unary(d, "sum_to", s, k)
          \/ \E l \in Range(ar[s].dims) : Unary(d, "cumsum", s, <<l>>)
          \/ \E k \in KeyMenu(ar[s].dims, FALSE) : Read(d, s, k)
    \/ \E r \in {"x", "z"} : Poke(r)
    \/ \E r \in {"x", "y"} : InPlaceNeg(r)
    \/ PokeDims("z")
    \/ \E l \in {m \in BaseSet : DLen(m) = 2 /\ Defined("x") /\ m \notin Range(ar["x"].dims)} : StackTwo("z", "x", "x", l)

MixedActions ==
    \/ AssignActions
    \/ AliasActions
    \/ \E d \in Dst, op \in {"add", "sub", "mul"}, s1 \in Srcs, s2 \in Srcs : Arith(d, op, s1, s2)
    \/ \E d \in Dst, s \in Srcs : \E k \in KeyMenu(ar[s].dims, FALSE) \cup BadKeys(ar[s].dims) : Read(d, s, k)
    \/ \E t \in Srcs : \E k \in KeyMenu(ar[t].dims, TRUE), s \in Srcs \ {t} : (~HasList(k) /\ AssignArr(t, k, s))
    \/ \E r \in Srcs : Poke(r)
    \/ \E r \in Dst : PokeDims(r)

Init == /\ ar = [r \in MCARegs |-> CASE r = "x" -> GenArr(1, XD) [] r = "y" -> GenArr(2, YD) [] OTHER -> None]
        /\ nd = None
        /\ last = [op |-> "init", args |-> <<>>, outcome |-> "ok", writes |-> {}]
        /\ fresh = 3
        /\ hist = <<>>

ArrJson(a) == IF a = None THEN [none |-> TRUE, dims |-> <<>>, val |-> {}]
              ELSE [none |-> FALSE, dims |-> a.dims, val |-> {<<LabTuple(lab), a.val[lab]>> : lab \in DOMAIN a.val}]
KeyJson(k) == {<<l, k[l]>> : l \in DOMAIN k}
\* args printed with keys as lists of pairs
ArgsJson(l) ==
    CASE l.op = "read"       -> <<l.args[1], l.args[2], KeyJson(l.args[3])>>
      [] l.op = "assign_arr" -> <<l.args[1], KeyJson(l.args[2]), l.args[3]>>
      [] l.op = "assign_num" -> <<l.args[1], KeyJson(l.args[2])>>
      [] l.op = "assign_nd"  -> <<l.args[1], KeyJson(l.args[2])>>
      [] OTHER -> l.args

Record == [op |-> last'.op, args |-> ArgsJson(last'), outcome |-> last'.outcome,
           writes |-> {<<r, ArrJson(ar'[r])>> : r \in last'.writes},
           nd |-> IF nd' = None THEN [none |-> TRUE, dims |-> <<>>, val |-> {}]
                  ELSE [none |-> FALSE, dims |-> nd'.dims,
                        val |-> {<<LabTuple(lab), nd'.val[lab]>> : lab \in DOMAIN nd'.val}]]

Act == CASE Scenario = "assign" -> AssignActions
         [] Scenario = "alias"  -> AliasActions
         [] Scenario = "mixed"  -> MixedActions
Next == /\ Len(hist) < Depth
        /\ Act
        /\ hist' = Append(hist, Record)
Spec == Init /\ [][Next]_vars

UniverseJson == [canon |-> MCCanon, items |-> {<<d, MCItemsOf[d], MCRootOf[d]>> : d \in DOMAIN MCItemsOf}]
EmitInv == (Emit /\ Len(hist) = Depth) =>
    PrintT(<<"VEC", ToJson([scenario |-> Scenario, xd |-> XD, yd |-> YD, pattern |-> Pattern,
                            universe |-> UniverseJson, hist |-> hist])>>)

\* TLC-checked properties of the contract (C13 / C15 / C05 on histories)
Prop_ShapeInv == ShapeInv
Prop_Failed == FailedCallsChangeNothing
Prop_Inputs == InputsUnchanged
Prop_AssignDims == AssignKeepsDims
=============================================================================
