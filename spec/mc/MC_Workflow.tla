----------------------------- MODULE MC_Workflow -----------------------------
(* Every combination of storage orders of the four flows of spec/Workflow.tla; lengths r=3 (2), p=2, t=1 (2). *)
EXTENDS Integers, Sequences, FiniteSets, TLC, Json
CONSTANTS LenR, LenT, Emit
MCCanon == <<"r", "p", "t">>
MCItemsOf == [r |-> [i \in 1..LenR |-> i], p |-> <<1, 2>>, t |-> [i \in 1..LenT |-> i]]
MCRootOf == [r |-> "r", p |-> "p", t |-> "t"]
VARIABLES o1, o2, o3, o4
vars == <<o1, o2, o3, o4>>
W(a, b, c, d) == INSTANCE Workflow WITH Canon <- MCCanon, ItemsOf <- MCItemsOf, RootOf <- MCRootOf, OrdF1 <- a, OrdF2 <- b, OrdF3 <- c, OrdF4 <- d
U == INSTANCE Universe WITH Canon <- MCCanon, ItemsOf <- MCItemsOf, RootOf <- MCRootOf
Init == /\ o1 \in U!Perms(<<"r", "t">>) /\ o4 \in U!Perms(<<"r", "t">>)
        /\ o2 \in U!Perms(<<"r", "p", "t">>) /\ o3 \in U!Perms(<<"r", "p", "t">>)
Next == UNCHANGED vars
Spec == Init /\ [][Next]_vars
Prop_Workflow == W(o1, o2, o3, o4)!WorkflowOK
ArrJson(a) == [dims |-> a.dims, val |-> {<<U!LabTuple(lab), a.val[lab]>> : lab \in DOMAIN a.val}]
EmitInv == Emit => PrintT(<<"VEC", ToJson([orders |-> <<o1, o2, o3, o4>>, lens |-> [r |-> LenR, p |-> 2, t |-> LenT],
                                           flows |-> <<ArrJson(W(o1, o2, o3, o4)!F1), ArrJson(W(o1, o2, o3, o4)!F2),
                                                       ArrJson(W(o1, o2, o3, o4)!F3), ArrJson(W(o1, o2, o3, o4)!F4)>>,
                                           balA |-> ArrJson(W(o1, o2, o3, o4)!BalA)])>>)
=============================================================================
