------------------------------ MODULE MC_Tables ------------------------------
(***************************************************************************)
(* Bounded model for C11 / C12.                                            *)
(* Universe: a (3 string items), b (2 integer items, typed int),           *)
(*           c (2 integer items, untyped), d (a single string item):       *)
(* pairwise different item sets.                                           *)
(*                                                                         *)
(* Part "import": (dims, wide dimension or long, style, fault sequence of  *)
(*     length <= MaxFaults) -> required outcome for all four flag settings *)
(*     and the resulting array.                                            *)
(* Part "export": to_df(index, dim_to_columns, sparse) rows, and round     *)
(*     trips to_df -> permute / CSV -> from_df.                            *)
(* A STYLE fixes everything of a layout that does not change the content.  *)
(***************************************************************************)
EXTENDS Integers, Sequences, FiniteSets, TLC, Json
CONSTANTS Part, MaxDims, MaxFaults, StyleIds, Emit

MCCanon == <<"a", "b", "c", "d">>
MCItemsOf == [a |-> <<1, 2, 3>>, b |-> <<1, 2>>, c |-> <<1, 2>>, d |-> <<1>>]
MCRootOf == [a |-> "a", b |-> "b", c |-> "c", d |-> "d"]
INSTANCE Tables WITH Canon <- MCCanon, ItemsOf <- MCItemsOf, RootOf <- MCRootOf

VARIABLES cfg, tab, faults, phase
vars == <<cfg, tab, faults, phase>>

\* place: where dimension columns live; hdr: how they are headed; the k-th dimension (in dims order) of a
\* "mixed" style alternates.  valname: header of the value column.  rowperm / colperm: order of rows / columns.
\* csv: round trip through CSV text.  omit: single-item dimensions are left out.  repidx: the frame is
\* assembled from two halves WITHOUT renumbering, so integer row labels repeat (dims in columns only).
Style(k) ==
    CASE k = 1  -> [place |-> "columns", hdr |-> "name",   valname |-> "value",  rowperm |-> "id",  colperm |-> "id",  csv |-> FALSE, omit |-> FALSE, repidx |-> FALSE]
      [] k = 2  -> [place |-> "index",   hdr |-> "name",   valname |-> "value",  rowperm |-> "rev", colperm |-> "id",  csv |-> FALSE, omit |-> FALSE, repidx |-> FALSE]
      [] k = 3  -> [place |-> "columns", hdr |-> "letter", valname |-> "Wert",   rowperm |-> "rot", colperm |-> "rev", csv |-> FALSE, omit |-> TRUE,  repidx |-> FALSE]
      [] k = 4  -> [place |-> "columns", hdr |-> "anon",   valname |-> "value",  rowperm |-> "rev", colperm |-> "id",  csv |-> FALSE, omit |-> FALSE, repidx |-> FALSE]
      [] k = 5  -> [place |-> "mixed",   hdr |-> "mixed",  valname |-> "amount", rowperm |-> "rot", colperm |-> "rev", csv |-> FALSE, omit |-> FALSE, repidx |-> FALSE]
      [] k = 6  -> [place |-> "columns", hdr |-> "name",   valname |-> "value",  rowperm |-> "rot", colperm |-> "rev", csv |-> TRUE,  omit |-> FALSE, repidx |-> FALSE]
      [] k = 7  -> [place |-> "index",   hdr |-> "letter", valname |-> "v",      rowperm |-> "id",  colperm |-> "id",  csv |-> TRUE,  omit |-> TRUE,  repidx |-> FALSE]
      [] k = 8  -> [place |-> "columns", hdr |-> "name",   valname |-> "value",  rowperm |-> "rev", colperm |-> "id",  csv |-> FALSE, omit |-> FALSE, repidx |-> TRUE]
      [] k = 9  -> [place |-> "columns", hdr |-> "mixed",  valname |-> "value",  rowperm |-> "id",  colperm |-> "rev", csv |-> FALSE, omit |-> TRUE,  repidx |-> TRUE]
      [] k = 10 -> [place |-> "index",   hdr |-> "anon",   valname |-> "value",  rowperm |-> "rot", colperm |-> "id",  csv |-> FALSE, omit |-> FALSE, repidx |-> FALSE]

\* the dimensions identified only through their items under a style (mixed: every second one)
AnonDims(ds, wide, st) ==
    LET rd == RowDims(ds, wide) IN
    {rd[i] : i \in {j \in DOMAIN rd : st.hdr = "anon" \/ (st.hdr = "mixed" /\ j % 3 = 0)}}

DimChoices == OrderedSubsetsUpTo(BaseLetters, MaxDims) \ {<<>>}
\* not generated: one dimension spread over the columns whose items are UNTYPED integers, sent through CSV text -
\* the column headers come back as strings and nothing says they are integers (typed dimensions are converted)
LayoutOK(w, k) == ~(w = "c" /\ Style(k).csv)
ImportConfigs ==
    UNION {{[op |-> "import", ds |-> ds, wide |-> w, style |-> k] : w \in {""} \cup Range(ds), k \in StyleIds} : ds \in DimChoices}
ExportConfigs ==
    UNION {{[op |-> "to_df", ds |-> ds, wide |-> w, style |-> k] : w \in {""} \cup Range(ds), k \in StyleIds} : ds \in DimChoices}

T0(c) == [rows |-> Render(c.ds, c.wide), dropped |-> {}, extraval |-> FALSE, extraitem |-> FALSE]

Init == /\ cfg \in {c \in (IF Part = "import" THEN ImportConfigs ELSE ExportConfigs) : LayoutOK(c.wide, c.style)}
        /\ tab = T0(cfg) /\ faults = <<>> /\ phase = "table"

Fault ==
    /\ phase = "table" /\ Len(faults) < MaxFaults /\ cfg.op = "import"
    \* (a table without any row is not generated: the statement does not speak about empty tables)
    /\ \/ \E i \in DOMAIN tab.rows : Len(tab.rows) >= 2 /\ tab' = DropRow(tab, i) /\ faults' = Append(faults, <<"drop_row", i, 0, "">>)
       \/ \E i \in DOMAIN tab.rows, o \in BOOLEAN :
             tab' = DupRow(tab, i, o) /\ faults' = Append(faults, <<"dup_row", i, IF o THEN 1 ELSE 0, "">>)
       \/ \E i \in DOMAIN tab.rows : \E l \in DOMAIN tab.rows[i].lab :
             /\ tab.rows[i].lab[l] # 0 /\ l \notin tab.dropped
             /\ ~(Style(cfg.style).omit /\ DLen(l) = 1)          \* the column is not in the table
             /\ tab' = Relabel(tab, i, l) /\ faults' = Append(faults, <<"relabel", i, 0, l>>)
       \/ \E i \in DOMAIN tab.rows : \E j \in DOMAIN tab.rows[i].cells :
             tab.rows[i].cells[j] # Blank /\ tab' = BlankCell(tab, i, j) /\ faults' = Append(faults, <<"blank", i, j, "">>)
       \/ \E l \in Range(RowDims(cfg.ds, cfg.wide)) \ tab.dropped :
             /\ ~(Style(cfg.style).omit /\ DLen(l) = 1)
             /\ \A i \in DOMAIN tab.rows : tab.rows[i].lab[l] # 0     \* (a relabelled column is not dropped afterwards)
             /\ tab' = DropCol(tab, l) /\ faults' = Append(faults, <<"drop_col", 0, 0, l>>)
       \/ (cfg.wide = "" /\ ~tab.extraval /\ tab' = AddValueCol(tab) /\ faults' = Append(faults, <<"add_value_col", 0, 0, "">>))
       \/ (cfg.wide # "" /\ ~tab.extraitem /\ tab' = AddItemCol(tab) /\ faults' = Append(faults, <<"add_item_col", 0, 0, "">>))
    /\ UNCHANGED <<cfg, phase>>

Finish == /\ phase = "table" /\ phase' = "done" /\ UNCHANGED <<cfg, tab, faults>>
Next == Fault \/ Finish
Spec == Init /\ [][Next]_vars

Flags == {[missing |-> m, extra |-> e] : m \in BOOLEAN, e \in BOOLEAN}
RowJson(r) == [lab |-> LabTuple(r.lab), cells |-> r.cells]
EmitInv == (Emit /\ phase = "done") =>
    PrintT(<<"VEC", ToJson([op |-> cfg.op, ds |-> cfg.ds, wide |-> cfg.wide, style |-> Style(cfg.style), styleid |-> cfg.style,
                            faults |-> faults,
                            rows |-> [i \in DOMAIN tab.rows |-> RowJson(tab.rows[i])],
                            dropped |-> tab.dropped, extraval |-> tab.extraval, extraitem |-> tab.extraitem,
                            anon |-> AnonDims(cfg.ds, cfg.wide, Style(cfg.style)),
                            outcomes |-> {<<f.missing, f.extra, Outcome(cfg.ds, cfg.wide, tab, f, AnonDims(cfg.ds, cfg.wide, Style(cfg.style)) \ tab.dropped)>> : f \in Flags},
                            result |-> LET R == Result(cfg.ds, cfg.wide, tab) IN {<<LabTuple(lab), R[lab]>> : lab \in DOMAIN R}])>>)

\* C11 on the contract: an unfaulted table of any layout is imported as the array itself, under every flag setting
Prop_C11 ==
    (phase = "done" /\ faults = <<>>) =>
        /\ \A f \in Flags : Outcome(cfg.ds, cfg.wide, tab, f, AnonDims(cfg.ds, cfg.wide, Style(cfg.style))) = "array"
        /\ \A lab \in Labelings(cfg.ds) : Result(cfg.ds, cfg.wide, tab)[lab] = EntryVal(cfg.ds, lab)
        \* every entry appears exactly once
        /\ \A lab \in Labelings(cfg.ds) : Cardinality({e \in Entries(cfg.ds, cfg.wide, tab) : e[3] = lab}) = 1
\* C12 on the contract: with default flags each single data fault is refused
Prop_C12 ==
    (phase = "done" /\ Len(faults) = 1) =>
        LET o == Outcome(cfg.ds, cfg.wide, tab, [missing |-> FALSE, extra |-> FALSE], AnonDims(cfg.ds, cfg.wide, Style(cfg.style)) \ tab.dropped)
            k == faults[1][1] IN
        /\ k \in {"drop_row", "dup_row", "relabel", "blank", "add_value_col", "add_item_col"} => o = "error"
        /\ (k = "drop_col" /\ DLen(faults[1][4]) > 1) => o = "error"
        /\ (k = "drop_col" /\ DLen(faults[1][4]) = 1) => o = "array"       \* single-item dimensions may be left out
=============================================================================
