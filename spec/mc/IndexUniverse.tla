---------------------------- MODULE IndexUniverse ----------------------------
(***************************************************************************)
(* The universe shared by the indexing / workspace models: base letters    *)
(* a, b, c(, d) with a length pattern, and for every base letter subset    *)
(* dimensions with their own letters: a reordered multi-item subset, a     *)
(* single-item subset and (length 3) a full reordering.                    *)
(***************************************************************************)
EXTENDS Integers, Sequences, FiniteSets
CONSTANT Pattern

Lens == CASE Pattern = "P322"  -> <<3, 2, 2>>
          [] Pattern = "P222"  -> <<2, 2, 2>>
          [] Pattern = "P232"  -> <<2, 3, 2>>
          [] Pattern = "P223"  -> <<2, 2, 3>>
          [] Pattern = "P32"   -> <<3, 2>>
          [] Pattern = "P2222" -> <<2, 2, 2, 2>>
          [] Pattern = "P3222" -> <<3, 2, 2, 2>>
          [] Pattern = "P52"   -> <<5, 2>>
          [] Pattern = "P25"   -> <<2, 5>>
          [] Pattern = "P72"   -> <<7, 2>>
          [] Pattern = "P27"   -> <<2, 7>>
          [] Pattern = "P222222" -> <<2, 2, 2, 2, 2, 2>>
          [] Pattern = "P22222" -> <<2, 2, 2, 2, 2>>
          [] Pattern = "P23232" -> <<2, 3, 2, 3, 2>>
AllCanon == <<"a", "b", "c", "d", "e", "k">>
MCCanon == SubSeq(AllCanon, 1, Len(Lens))
BaseSet == {MCCanon[i] : i \in DOMAIN MCCanon}
LenOfBase(l) == Lens[CHOOSE i \in DOMAIN MCCanon : MCCanon[i] = l]

\* subset letters: for base letter number i: multi (reordered), single, and (length 3) full permutation
SubMulti  == [l \in BaseSet |-> CASE l = "a" -> "p" [] l = "b" -> "r" [] l = "c" -> "u" [] l = "d" -> "w" [] l = "e" -> "y" [] l = "k" -> "m"]
SubSingle == [l \in BaseSet |-> CASE l = "a" -> "q" [] l = "b" -> "s" [] l = "c" -> "v" [] l = "d" -> "x" [] l = "e" -> "z" [] l = "k" -> "n"]
SubFull   == [l \in BaseSet |-> CASE l = "a" -> "f" [] l = "b" -> "g" [] l = "c" -> "h" [] l = "d" -> "i" [] l = "e" -> "j" [] l = "k" -> "o"]
SubsOf(l) == {SubMulti[l], SubSingle[l]} \cup (IF LenOfBase(l) >= 3 THEN {SubFull[l]} ELSE {})

MCItemsOf ==
    LET base == [l \in BaseSet |-> [k \in 1..LenOfBase(l) |-> k]]
        \* length 5: a block whose first and last item are len-1 apart but whose middle is permuted
        multi == [l \in BaseSet |-> IF LenOfBase(l) = 7 THEN <<6, 2, 7, 1>> ELSE IF LenOfBase(l) = 5 THEN <<2, 4, 3, 5>> ELSE IF LenOfBase(l) = 3 THEN <<3, 1>> ELSE <<2, 1>>]
        single == [l \in BaseSet |-> <<2>>]
        \* length 5: first and last item len-1 apart with an item from outside the block in between
        full == [l \in BaseSet |-> IF LenOfBase(l) = 7 THEN <<3, 6, 4, 5, 7>> ELSE IF LenOfBase(l) = 5 THEN <<2, 1, 4>> ELSE <<2, 3, 1>>]
        letters == BaseSet \cup UNION {SubsOf(l) : l \in BaseSet}
    IN  [d \in letters |->
            IF d \in BaseSet THEN base[d]
            ELSE LET l == CHOOSE b \in BaseSet : d \in SubsOf(b)
                 IN  IF d = SubMulti[l] THEN multi[l] ELSE IF d = SubSingle[l] THEN single[l] ELSE full[l]]
MCRootOf == [d \in DOMAIN MCItemsOf |-> IF d \in BaseSet THEN d ELSE CHOOSE b \in BaseSet : d \in SubsOf(b)]
=============================================================================
