--------------------------- MODULE MC_MassBalance ---------------------------
(***************************************************************************)
(* Bounded model for C02.  Initial states: every system built from the     *)
(* flow templates                                                          *)
(*     f1: sysenv -> A    f2: A -> B    f3: B -> sysenv                    *)
(*     f4: A -> B (parallel to f2)      f5: B -> A (opposing)              *)
(* (every non-empty subset up to MaxFlows), a dimension scheme (same dims; *)
(* permuted orders with equal lengths; differing dimensionality; no time   *)
(* dimension; zero-dimensional flows), stocks at A / at B / without a      *)
(* process (each optional), an optional process without any flow - kept    *)
(* only if it is BALANCED.  The one transition applies a perturbation to   *)
(* one entry of one object (below / above the tolerance, NaN, negative     *)
(* entries) and records the verdicts of both checks.                       *)
(***************************************************************************)
EXTENDS Integers, Sequences, FiniteSets, TLC, Json

CONSTANTS Schemes, MaxFlows, Emit, GModes

MCCanon == <<"t", "r", "e">>
MCItemsOf == [t |-> <<1, 2>>, r |-> <<1, 2>>, e |-> <<1, 2>>]
MCRootOf == [t |-> "t", r |-> "r", e |-> "e"]
INSTANCE MassBalance WITH Canon <- MCCanon, ItemsOf <- MCItemsOf, RootOf <- MCRootOf

VARIABLES sys, pert, phase, scale, prev
vars == <<sys, pert, phase, scale, prev>>
\* `prev`: the perturbation of the FIRST round of checks when a second one follows on the same object (Repair)
\* `scale`: after the first round of checks ALL values of the system are multiplied by 2^scale and the checks are
\* run again on the same object.  Two-component numbers are scale free (the unit tol/2 scales along), so every
\* verdict must be the same: the checks depend on the CURRENT values only, not on earlier calls.

GenG == [lab \in LabelingsOver({"t", "r", "e"}) |-> 1 + 4 * (lab["t"] - 1) + 2 * (lab["r"] - 1) + (lab["e"] - 1)]

\* a second generic array, ANTISYMMETRIC in r: every marginal over r is zero.  Flows without r are all-zero flows,
\* flows with r carry positive and negative entries that cancel (a net-trade flow).  The contract is about entries,
\* not about sums: an all-zero flow still restricts the common dimensions, a cancelling flow still counts.
GenG2 == [lab \in LabelingsOver({"t", "r", "e"}) |-> (IF lab["r"] = 1 THEN 1 ELSE -1) * (1 + 2 * (lab["t"] - 1) + (lab["e"] - 1))]
GOf(m) == IF m = 1 THEN GenG ELSE GenG2

AllF == {1, 2, 3, 4, 5}
TFrom == <<1, 2, 3, 2, 3>>
TTo   == <<2, 3, 1, 3, 2>>
TCoef == <<3, 2, 3, 1, 1>>
TName == <<"sysenv => A", "A => B", "B => sysenv", "A => B (2)", "B => A">>
FlowDimsOf(k) ==
    CASE k = 1 -> << <<"t","r">>, <<"t","r">>, <<"t","r">>, <<"t","r">>, <<"t","r">> >>
      [] k = 2 -> << <<"t","r">>, <<"r","t">>, <<"t","r">>, <<"r","t">>, <<"r","t">> >>
      [] k = 3 -> << <<"t">>, <<"t","r","e">>, <<"t","r">>, <<"e","t">>, <<"r","e","t">> >>
      [] k = 4 -> << <<"r","e">>, <<"e","r">>, <<"r">>, <<"r","e">>, <<"e">> >>
      [] k = 5 -> << <<>>, <<"t">>, <<>>, <<"t","r">>, <<>> >>
StockDimsOf(k) ==        \* stocks 1 (at A), 2 (at B), 3 (no process)
    CASE k = 1 -> << <<"t","r">>, <<"t","r">>, <<"t","r">> >>
      [] k = 2 -> << <<"t","r">>, <<"t","r">>, <<"t","r">> >>
      [] k = 3 -> << <<"t","r">>, <<"t","e">>, <<"t">> >>
      [] k = 4 -> << <<"t","r">>, <<"t","e","r">>, <<"t","r">> >>
      [] k = 5 -> << <<"t">>, <<"t">>, <<"t","r">> >>

Net(fl, p) == MapThenSumSet(LAMBDA f : TCoef[f], {f \in fl : TTo[f] = p}) - MapThenSumSet(LAMBDA f : TCoef[f], {f \in fl : TFrom[f] = p})

MkSys(fl, k, sa, sb, sn, extra, gm) ==
    LET st == (IF sa THEN {1} ELSE {}) \cup (IF sb THEN {2} ELSE {}) \cup (IF sn THEN {3} ELSE {})
        net(s) == IF s = 1 THEN Net(fl, 2) ELSE IF s = 2 THEN Net(fl, 3) ELSE 2
    IN  [procs |-> IF extra THEN <<"sysenv", "A", "B", "idle">> ELSE <<"sysenv", "A", "B">>,
         flows |-> fl, ffrom |-> TFrom, fto |-> TTo, fdims |-> FlowDimsOf(k), fcoef |-> TCoef, fname |-> TName,
         stocks |-> st, sproc |-> <<2, 3, 0>>, sdims |-> StockDimsOf(k),
         sin |-> [s \in 1..3 |-> IF net(s) >= 0 THEN net(s) + 1 ELSE 1],
         sout |-> [s \in 1..3 |-> IF net(s) >= 0 THEN 1 ELSE 1 - net(s)],
         slevel |-> <<5, 2, 7>>,
         g |-> GOf(gm)]

NoPert == [obj |-> "none", id |-> 0, lab |-> <<>>, op |-> "add", val |-> VZero]
Systems == {MkSys(fl, k, sa, sb, sn, ex, gm) :
               fl \in {F \in SUBSET AllF : F # {} /\ Cardinality(F) <= MaxFlows}, k \in Schemes,
               sa \in BOOLEAN, sb \in BOOLEAN, sn \in BOOLEAN, ex \in BOOLEAN, gm \in GModes}
Balanced(S) == Failing(S, NoPert) = {}

Init == /\ sys \in {S \in Systems : Balanced(S)}
        /\ pert = NoPert /\ phase = "built" /\ scale = 0 /\ prev = NoPert

\* the LAST labeling in row-major order and the first one: two cells per object
CellsOf(ds) == LET rm == RowMajor(ds) IN {rm[1], rm[Len(rm)]}
Kinds == {<<"add", V(0, 1, 0)>>, <<"add", V(0, 4, 0)>>, <<"add", V(0, -4, 0)>>, <<"add", V(0, 0, 1)>>,
          <<"set", V(0, -1, 0)>>, <<"set", V(0, -4, 0)>>, <<"set", V(-1, 0, 0)>>}
Perts(S) ==
         UNION {{[obj |-> "flow", id |-> f, lab |-> c, op |-> k[1], val |-> k[2]] : c \in CellsOf(S.fdims[f]), k \in Kinds} : f \in S.flows}
    \cup UNION {{[obj |-> o, id |-> s, lab |-> c, op |-> k[1], val |-> k[2]] :
                    c \in CellsOf(S.sdims[s]), k \in {q \in Kinds : q[1] = "add"}, o \in {"sin", "sout"}} : s \in S.stocks}
    \cup {NoPert}

Step == /\ phase = "built"
        /\ pert' \in Perts(sys)
        /\ phase' = "checked"
        /\ scale' \in (IF pert'.obj = "flow" /\ pert'.op = "add" THEN {0, 30, -30} ELSE {0})
        /\ UNCHANGED <<sys, prev>>
\* a second round on the SAME object: the NaN that the first round reported is replaced by a negative entry
\* (verdicts follow the current values; nothing is remembered from the first round)
Repair == /\ phase = "checked" /\ pert.obj = "flow" /\ pert.val.nan = 1 /\ scale = 0
          /\ prev' = pert
          /\ pert' = [pert EXCEPT !.op = "set", !.val = V(-1, 0, 0)]
          /\ phase' = "repaired"
          /\ UNCHANGED <<sys, scale>>
Spec == Init /\ [][Step \/ Repair]_vars

Checked == phase \in {"checked", "repaired"}
FlowNames(S) == {S.fname[f] : f \in S.flows}
\* exception lists tried by the replay: none, the perturbed flow itself, every other flow
Exceptions(S, P) == {{}} \cup (IF P.obj = "flow" THEN {{S.fname[P.id]}, FlowNames(S) \ {S.fname[P.id]}} ELSE {FlowNames(S)})

SysJson(S) == [procs |-> S.procs,
               flows |-> {[id |-> f, name |-> S.fname[f], from |-> S.procs[S.ffrom[f]], to |-> S.procs[S.fto[f]],
                           dims |-> S.fdims[f], coef |-> S.fcoef[f]] : f \in S.flows},
               stocks |-> {[id |-> s, process |-> IF S.sproc[s] = 0 THEN "" ELSE S.procs[S.sproc[s]], dims |-> S.sdims[s],
                            cin |-> S.sin[s], cout |-> S.sout[s], level |-> S.slevel[s]] : s \in S.stocks},
               g |-> {<<LabTuple(lab), S.g[lab]>> : lab \in DOMAIN S.g}]
PertJson(P) == [obj |-> P.obj, id |-> P.id, lab |-> LabTuple(P.lab), op |-> P.op, val |-> <<P.val.i, P.val.e, P.val.nan>>]

EmitInv == (Emit /\ Checked) =>
    PrintT(<<"VEC", ToJson([sys |-> SysJson(sys), pert |-> PertJson(pert), prev |-> PertJson(prev), rescale |-> scale,
                            failing |-> {sys.procs[p] : p \in Failing(sys, pert)},
                            verdict |-> MassBalanceVerdict(sys, pert),
                            \* with the explicit tolerance 0 every non-zero residual counts (the unit of the e-component is then
                            \* half the DEFAULT tolerance, which an explicit 0 must not be replaced by)
                            verdict_zero_tol |-> IF FailingStrict(sys, pert) = {} THEN "ok" ELSE "fail",
                            anynan |-> AnyNaN(sys, pert), nanbalance |-> HasNaNBalance(sys, pert),
                            maxmag |-> MaxMag(sys, pert),
                            flagged |-> {<<exc, {sys.fname[f] : f \in Flagged(sys, pert, exc)}>> : exc \in Exceptions(sys, pert)}])>>)

\* theorems of the contract
Prop_C02 ==
    Checked =>
      /\ MirrorLaw(sys, pert)
      /\ pert = NoPert => MassBalanceVerdict(sys, pert) = "ok" /\ (sys.g = GenG => Flagged(sys, pert, {}) = {})
      \* a perturbation within the tolerance is accepted, one beyond it (or NaN) on a booked object is reported
      /\ (pert.op = "add" /\ pert.val = V(0, 1, 0)) => MassBalanceVerdict(sys, pert) = "ok"
      /\ (pert.op = "add" /\ pert.val \in {V(0, 4, 0), V(0, -4, 0), V(0, 0, 1)} /\ pert.obj = "flow")
            => MassBalanceVerdict(sys, pert) = "fail" /\ {sys.ffrom[pert.id], sys.fto[pert.id]} \subseteq Failing(sys, pert)
      /\ (pert.op = "add" /\ pert.val \in {V(0, 4, 0), V(0, 0, 1)} /\ pert.obj \in {"sin", "sout"} /\ sys.sproc[pert.id] # 0)
            => {1, sys.sproc[pert.id]} \subseteq Failing(sys, pert)
      /\ (pert.obj \in {"sin", "sout"} /\ sys.sproc[pert.id] = 0) => MassBalanceVerdict(sys, pert) = "ok"
      /\ (pert.obj = "flow" /\ pert.val \in {V(0, -4, 0), V(-1, 0, 0)} /\ pert.op = "set") => pert.id \in Flagged(sys, pert, {})
      /\ sys.g = GenG =>       \* (with non-negative base values nothing else is flagged)
           /\ (pert.obj = "flow" /\ pert.val \in {V(0, -4, 0), V(-1, 0, 0)} /\ pert.op = "set") => Flagged(sys, pert, {}) = {pert.id}
           /\ (pert.obj = "flow" /\ pert.op = "set" /\ pert.val = V(0, -1, 0)) => Flagged(sys, pert, {}) = {}
           /\ pert.obj = "flow" => Flagged(sys, pert, {sys.fname[pert.id]}) = {}
      \* an all-zero or cancelling flow is booked like any other: the set of common dimensions does not depend on values
      /\ \A p \in DOMAIN sys.procs : Common(sys, p) = Common([sys EXCEPT !.g = GenG], p)
=============================================================================
