----------------------------- MODULE MC_DimSets -----------------------------
(***************************************************************************)
(* Bounded model of DimensionSet histories (C14).                          *)
(*   Scenario "pairs": every pair of dimension sets over the alphabet      *)
(*       (up to MaxLen dimensions each) x every binary operator: depth 1.  *)
(*   Scenario "hist":  from a given pair, every history of in-place and    *)
(*       out-of-place operations up to Depth (exhaustive, or -simulate).   *)
(*   Scenario "closure": NO depth bound.  Registers hold duplicate-free    *)
(*       sequences over a finite alphabet, so the state space is finite;   *)
(*       with the history variables hidden (VIEW ClosureView) TLC visits   *)
(*       every state reachable by histories of ANY length from every       *)
(*       initial pair and checks the invariant and the action property on  *)
(*       every transition: C14's "for all histories" by exhaustion.        *)
(* Alphabet: A, B, C, D and the clashing variants A2 (letter a) and        *)
(* B2 (letter b) with other names and item counts, and A3: the NAME of A   *)
(* with the LETTER of B (names and letters are independent attributes).    *)
(* Two dimensions of a set may share a NAME (only letters are unique):     *)
(* such a name is then not used as a key, the letters are.                 *)
(***************************************************************************)
EXTENDS Integers, Sequences, FiniteSets, TLC, Json
CONSTANTS Scenario, Depth, MaxLen, Alphabet, Emit,
          S1, S2, S3, T1, T2, T3          \* initial sets of scenario "hist", id by id ("" = none)

MCDim == Alphabet
MCLetterOf == [d \in {"A", "B", "C", "D", "A2", "B2", "A3"} |->
                 CASE d \in {"A", "A2"} -> "a" [] d \in {"B", "B2", "A3"} -> "b" [] d = "C" -> "c" [] d = "D" -> "d"]
MCNameOf == [d \in {"A", "B", "C", "D", "A2", "B2", "A3"} |->
                 CASE d \in {"A", "A3"} -> "dim_a" [] d = "A2" -> "alt_a" [] d = "B" -> "dim_b" [] d = "B2" -> "alt_b"
                   [] d = "C" -> "dim_c" [] d = "D" -> "dim_d"]
MCSizeOf == [d \in {"A", "B", "C", "D", "A2", "B2", "A3"} |->
                 CASE d \in {"A", "A3"} -> 2 [] d = "A2" -> 3 [] d = "B" -> 3 [] d = "B2" -> 2 [] d = "C" -> 2 [] d = "D" -> 1]
MCRegs == {"r1", "r2", "r3"}

VARIABLES ds, arrdims, last, hist
INSTANCE DimSets WITH Dim <- MCDim, LetterOf <- MCLetterOf, NameOf <- MCNameOf, SizeOf <- MCSizeOf, Regs <- MCRegs
vars == <<ds, arrdims, last, hist>>

S0 == SelectSeq(<<S1, S2, S3>>, LAMBDA x : x # "")
T0 == SelectSeq(<<T1, T2, T3>>, LAMBDA x : x # "")

Init == /\ IF Scenario = "closure"
           THEN \E t \in AllDimSets(MaxLen) : ds = [r \in MCRegs |-> CASE r = "r1" -> <<>> [] r = "r2" -> t [] OTHER -> None]
           ELSE IF Scenario = "pairs"
           THEN \E s \in AllDimSets(MaxLen), t \in AllDimSets(MaxLen) : ds = [r \in MCRegs |-> CASE r = "r1" -> s [] r = "r2" -> t [] OTHER -> None]
           ELSE ds = [r \in MCRegs |-> CASE r = "r1" -> S0 [] r = "r2" -> T0 [] OTHER -> None]
        /\ arrdims = None
        /\ last = [op |-> "init", recv |-> "r1", dst |-> "r1", inplace |-> FALSE, args |-> <<>>, outcome |-> "ok"]
        /\ hist = <<>>

BinOps == {"union", "inter", "diff", "xor", "plus"}
\* keys: every letter, every name that occurs ONCE in the set (two dimensions may share a name - only letters are unique -
\* and then only the letter identifies them), and the unknown key "zz"
Keys(s) == LetterSet(s) \cup {MCNameOf[s[i]] : i \in {j \in DOMAIN s : \A k \in DOMAIN s : MCNameOf[s[k]] = MCNameOf[s[j]] => k = j}} \cup {"zz"}

PairActions == \E op \in BinOps : Binary(op, "r1", "r2", "r3")

HistActions ==
    \/ \E op \in BinOps, a \in {rr \in {"r1", "r2", "r3"} : Defined(rr)}, b \in {"r1", "r2"} : Binary(op, a, b, "r3")
    \/ \E recv \in {rr \in {"r1", "r3"} : Defined(rr)}, ip \in BOOLEAN :
          \/ \E op \in {"append", "prepend", "expand"}, d \in MCDim : Mutate(op, recv, "r3", ip, d, "", 0)
          \/ \E d1 \in MCDim, d2 \in MCDim : ExpandMany(recv, "r3", ip, <<d1, d2>>)
          \/ \E d \in MCDim : \E i \in (-(Len(ds[recv]) + 1))..(Len(ds[recv]) + 1) : (Defined(recv) /\ Mutate("insert", recv, "r3", ip, d, "", i))
          \/ \E k \in Keys(ds[recv]) : (Defined(recv) /\ Mutate("drop", recv, "r3", ip, "A", k, 0))
          \/ \E d \in MCDim : \E k \in Keys(ds[recv]) :
                (/\ Defined(recv)
                 \* replacing a dimension by another one with the SAME letter is left open by the statement
                 /\ (IF KeyIndex(ds[recv], k) = 0 THEN TRUE ELSE MCLetterOf[ds[recv][KeyIndex(ds[recv], k)]] # MCLetterOf[d])
                 /\ Mutate("replace", recv, "r3", ip, d, k, 0))
    \/ \E recv \in {rr \in {"r1", "r3"} : Defined(rr)} :
          \/ \E how \in {"copy", "get_subset_noargs", "getitem_all"} : CopyOf(recv, "r3", how)
          \/ (Defined(recv) /\ \E n \in 1..2 : \E keys \in {q \in [1..n -> Keys(ds[recv])] :
                                   \A i, j \in 1..n : (i # j) => (KeyIndex(ds[recv], q[i]) # KeyIndex(ds[recv], q[j]) \/ KeyIndex(ds[recv], q[i]) = 0)} :
                 GetSubset(recv, "r3", keys))
          \/ BuildArray(recv)

Act == IF Scenario = "pairs" THEN PairActions ELSE HistActions

Rec == [op |-> last'.op, recv |-> last'.recv, dst |-> last'.dst, inplace |-> last'.inplace, args |-> last'.args,
        outcome |-> last'.outcome,
        pre |-> [r \in MCRegs |-> ds[r]], post |-> [r \in MCRegs |-> ds'[r]], arrdims |-> arrdims']
Next == /\ (Scenario = "closure" \/ Len(hist) < Depth)
        /\ Act
        /\ hist' = IF Scenario = "closure" THEN hist ELSE Append(hist, Rec)
ClosureView == <<ds, arrdims>>
Spec == Init /\ [][Next]_vars

AlphabetJson == {<<d, MCLetterOf[d], MCNameOf[d], MCSizeOf[d]>> : d \in MCDim}
EmitInv == (Emit /\ Len(hist) = Depth) =>
    PrintT(<<"VEC", ToJson([scenario |-> Scenario, alphabet |-> AlphabetJson,
                            hist |-> hist])>>)

NamesUnique == \A r \in MCRegs : Defined(r) => \A i, j \in DOMAIN ds[r] : MCNameOf[ds[r][i]] = MCNameOf[ds[r][j]] => i = j
Prop_Unique == UniqueInv
Prop_Receiver == ReceiverUnchanged
Prop_Laws == (Defined("r1") /\ Defined("r2")) => Laws(ds["r1"], ds["r2"])
=============================================================================
