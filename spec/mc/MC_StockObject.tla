---------------------------- MODULE MC_StockObject ----------------------------
(***************************************************************************)
(* All histories of {set driver, set_prms, read survival table, compute,   *)
(* system run} up to Depth over two drivers and two parameter sets; each   *)
(* is replayed on every stock class and lifetime model and compared, after *)
(* every compute, with a freshly built object.                             *)
(***************************************************************************)
EXTENDS Integers, Sequences, TLC, Json
CONSTANTS MCVariant, Depth, NDrivers, NPrms, Emit
VARIABLES driver, prm, results, cache, last, hist
INSTANCE StockObject WITH Drivers <- 1..NDrivers, Prms <- 1..NPrms, Variant <- MCVariant
vars == <<driver, prm, results, cache, last, hist>>

MCInit == Init /\ driver = 1 /\ hist = <<>>
MCNext == /\ Len(hist) < Depth
          /\ Next
          /\ hist' = Append(hist, [op |-> last'.op, arg |-> last'.arg, outcome |-> last'.outcome,
                                   driver |-> driver', prm |-> prm', results |-> results'])
Spec == MCInit /\ [][MCNext]_vars
EmitInv == (Emit /\ Len(hist) = Depth) => PrintT(<<"VEC", ToJson([hist |-> hist])>>)
=============================================================================
