----------------------------- MODULE MC_Stocks -----------------------------
(***************************************************************************)
(* Bounded model of the stock classes over exact lifetime families.        *)
(* One configuration (grid, labels, family, setting, parameters) per TLC   *)
(* run (constants); the initial states enumerate the stock class and the   *)
(* driver: EVERY unit impulse of the driver space (a basis), negative      *)
(* impulses and seeded small-integer combinations.  The single transition  *)
(* computes all result tables as exact rationals; each is emitted and      *)
(* replayed into flodym.                                                   *)
(***************************************************************************)
EXTENDS Integers, Sequences, FiniteSets, TLC, Json

CONSTANTS G1, G2, G3, G4, G5, G6,      \* time items (0 = unused; at least three)
          MCNL, MCFamily, MCSetting,
          PrmKind, P0, PC, PL,          \* parameter in eighths: P0 + PC*(cohort-1) + PL*(label-1)
          NCombos, Emit

MCGrid == SelectSeq(<<G1, G2, G3, G4, G5, G6>>, LAMBDA g : g # 0)
MCPrm8 == [c \in 1..Len(MCGrid) |-> [lab \in 1..MCNL |->
              P0 + (IF PrmKind \in {"cohort", "both"} THEN PC * (c - 1) ELSE 0)
                 + (IF PrmKind \in {"lab", "both"} THEN PL * (lab - 1) ELSE 0)]]

INSTANCE Stocks WITH Grid <- MCGrid, NL <- MCNL, Family <- MCFamily, Setting <- MCSetting, Prm8 <- MCPrm8

VARIABLES cfg, res, phase
vars == <<cfg, res, phase>>

Zero == [t \in 1..N |-> [lab \in Labs |-> 0]]
Impulse(t0, l0, v) == [t \in 1..N |-> [lab \in Labs |-> IF t = t0 /\ lab = l0 THEN v ELSE 0]]
Combo(k) == [t \in 1..N |-> [lab \in Labs |-> ((t * 3 + lab * 5 + k * 7) % 7) - 2]]
Drivers == {Impulse(t0, l0, v) : t0 \in 1..N, l0 \in Labs, v \in {1, -2}} \cup {Combo(k) : k \in 1..NCombos}
\* a second array for the flow-driven class
OutflowOf(d) == [t \in 1..N |-> [lab \in Labs |-> (d[t][lab] * 2 + t) % 3]]

\* the stock-driven class needs a non-zero diagonal; labels without one are left unspecified (RNaN) -
\* but they must not disturb the other labels (C16)
\* "stockint": the prescribed stock is the integer driver itself (e.g. unit counts), not one derived from an inflow
\* (an arbitrary integer stock divided through a survival table with large denominators leaves TLC's 32-bit integers:
\* "stockint" is only enumerated for tables in halves, thirds and quarters)
SmallDens == \A t \in 1..N, c \in 1..N, lab \in Labs : SF(t, c, lab)[2] <= 4
Classes == {"flow", "inflow"} \cup (IF \E lab \in Labs : SolvableLab(lab) THEN {"stock"} \cup (IF SmallDens THEN {"stockint"} ELSE {}) ELSE {})
Init == /\ cfg \in {[cls |-> c, driver |-> d] : c \in Classes, d \in Drivers}
        /\ res = [pending |-> TRUE] /\ phase = "cfg"

Tab1(f(_, _)) == [t \in 1..N |-> [lab \in Labs |-> f(t, lab)]]
Tab2(f(_, _, _)) == [t \in 1..N |-> [c \in 1..N |-> [lab \in Labs |-> f(t, c, lab)]]]
RDriver(d) == [t \in 1..N |-> [lab \in Labs |-> RInt(d[t][lab])]]

Compute(c) ==
    LET d == c.driver IN
    CASE c.cls = "flow" ->
            [stock |-> Tab1(LAMBDA t, lab : FlowStock(d, OutflowOf(d), t, lab)),
             inflow |-> RDriver(d), outflow |-> RDriver(OutflowOf(d)),
             sbc |-> <<>>, obc |-> <<>>]
      [] c.cls = "inflow" ->
            [stock |-> Tab1(LAMBDA t, lab : IStock(d, t, lab)),
             inflow |-> RDriver(d),
             outflow |-> Tab1(LAMBDA t, lab : IOutflow(d, t, lab)),
             sbc |-> Tab2(LAMBDA t, cc, lab : ISbc(d, t, cc, lab)),
             obc |-> Tab2(LAMBDA t, cc, lab : IObc(d, t, cc, lab))]
      [] c.cls \in {"stock", "stockint"} ->
            \* the prescribed stock is the one an inflow-driven model computes from d ("stock"), or d itself ("stockint")
            LET st  == IF c.cls = "stock" THEN Tab1(LAMBDA t, lab : IStock(d, t, lab)) ELSE RDriver(d)
                rin == Tab1(LAMBDA t, lab : IF SolvableLab(lab) THEN SInflow(st, t, lab) ELSE RNaN)
                Gd1(f(_, _)) == Tab1(LAMBDA t, lab : IF SolvableLab(lab) THEN f(t, lab) ELSE RNaN)
                Gd2(f(_, _, _)) == Tab2(LAMBDA t, cc, lab : IF SolvableLab(lab) THEN f(t, cc, lab) ELSE RNaN)
            IN  [stock |-> st, inflow |-> rin,
                 outflow |-> Gd1(LAMBDA t, lab : ROutflow(rin, t, lab)),
                 sbc |-> Gd2(LAMBDA t, cc, lab : RSbc(rin, t, cc, lab)),
                 obc |-> Gd2(LAMBDA t, cc, lab : RObc(rin, t, cc, lab))]

Step == phase = "cfg" /\ phase' = "done" /\ res' = Compute(cfg) /\ UNCHANGED cfg
Spec == Init /\ [][Step]_vars

Done == phase = "done"
SFTab == Tab2(LAMBDA t, c, lab : SF(t, c, lab))
PDFTab == Tab2(LAMBDA t, c, lab : PDF(t, c, lab))
ConfigJson == [grid |-> MCGrid, nl |-> MCNL, family |-> MCFamily, setting |-> MCSetting, prmkind |-> PrmKind,
               prm8 |-> MCPrm8, dt2 |-> [t \in 1..N |-> DT2(t)], b2 |-> [i \in 1..(N + 1) |-> B2(i)],
               a2 |-> [t \in 1..N |-> [c \in 1..N |-> A2(t, c)]]]
EmitInv == (Emit /\ Done) =>
    PrintT(<<"VEC", ToJson([config |-> ConfigJson, cls |-> cfg.cls, driver |-> cfg.driver,
                            driver2 |-> OutflowOf(cfg.driver), res |-> res, sf |-> SFTab, pdf |-> PDFTab])>>)

---------------------------------------------------------------------------
ASSUME Prop_C08_TableValid == TableValid          \* the exact tables are valid survival tables
ASSUME Prop_C16_Shift == ShiftInvariantDef(1990) /\ ShiftInvariantDef(-7)

OkLab(lab) == cfg.cls \notin {"stock", "stockint"} \/ SolvableLab(lab)
Prop_C03 == Done => \A t \in 1..N, lab \in Labs : OkLab(lab) =>
    RSub(res.stock[t][lab], IF t = 1 THEN RInt(0) ELSE res.stock[t - 1][lab])
       = RMul(DtR(t), RSub(res.inflow[t][lab], res.outflow[t][lab]))

Prop_C09 ==
    (Done /\ cfg.cls # "flow") =>
      \A lab \in {l \in Labs : OkLab(l)} :
        /\ \A t \in 1..N :
              /\ res.stock[t][lab] = RSumOver(LAMBDA c : res.sbc[t][c][lab], 1..N)
              /\ res.outflow[t][lab] = RSumOver(LAMBDA c : res.obc[t][c][lab], 1..N)
              /\ \A c \in 1..N : c > t => res.sbc[t][c][lab] = RInt(0) /\ res.obc[t][c][lab] = RInt(0)
              /\ \A c \in 1..N : res.sbc[t][c][lab] = RMul(RMul(res.inflow[c][lab], DtR(c)), SF(t, c, lab))
        \* each cohort is conserved: what entered = what is still there + what has left so far
        /\ \A c \in 1..N : \A t \in c..N :
              RMul(res.inflow[c][lab], DtR(c))
                = RAdd(res.sbc[t][c][lab], RSumOver(LAMBDA u : RMul(res.obc[u][c][lab], DtR(u)), c..t))
        \* a cohort's stock never increases for non-negative inflow
        /\ \A c \in 1..N : ~RLess(res.inflow[c][lab], RInt(0)) =>
              \A t \in (c + 1)..N : RLeq(res.sbc[t][c][lab], res.sbc[t - 1][c][lab])

\* stock-driven is the inverse of inflow-driven
Prop_C10 ==
    /\ (Done /\ cfg.cls = "stock") =>
          \A t \in 1..N, lab \in {l \in Labs : SolvableLab(l)} :
            /\ res.inflow[t][lab] = RInt(cfg.driver[t][lab])
            /\ res.outflow[t][lab] = IOutflow(cfg.driver, t, lab)
            /\ RStockOf(res.inflow, t, lab) = res.stock[t][lab]
    \* driving an inflow-driven model with the inflow found reproduces the prescribed stock
    /\ (Done /\ cfg.cls = "stockint") =>
          \A t \in 1..N, lab \in {l \in Labs : SolvableLab(l)} : RStockOf(res.inflow, t, lab) = RInt(cfg.driver[t][lab])

Trunc(d, k) == [t \in 1..N |-> [lab \in Labs |-> IF t <= k THEN d[t][lab] ELSE 0]]
OnlyLab(d, l0) == [t \in 1..N |-> [lab \in Labs |-> IF lab = l0 THEN d[t][lab] ELSE 0]]
Twice(d) == [t \in 1..N |-> [lab \in Labs |-> 2 * d[t][lab]]]
Prop_C16 ==
    (Done /\ cfg.cls = "inflow") =>
      LET d == cfg.driver IN
      /\ \A k \in 1..N : \A t \in 1..k, lab \in Labs :                     \* causal
            /\ IStock(Trunc(d, k), t, lab) = res.stock[t][lab]
            /\ IOutflow(Trunc(d, k), t, lab) = res.outflow[t][lab]
      /\ \A t \in 1..N, lab \in Labs :
            /\ IStock(Twice(d), t, lab) = RMul(RInt(2), res.stock[t][lab])      \* scaling
            /\ IStock(OnlyLab(d, lab), t, lab) = res.stock[t][lab]             \* label independence
            /\ IOutflow(OnlyLab(d, lab), t, lab) = res.outflow[t][lab]
      \* impulse response: unit inflow rate in cohort c  ->  stock = sf(., c) * dt(c)
      /\ \A c \in 1..N, l0 \in Labs : d = Impulse(c, l0, 1) =>
            \A t \in 1..N : res.stock[t][l0] = RMul(SF(t, c, l0), DtR(c))
=============================================================================
