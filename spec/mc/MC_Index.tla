------------------------------ MODULE MC_Index ------------------------------
(***************************************************************************)
(* Bounded model for label indexing (C06) and assignment (C05): every      *)
(* array (ordered dimension subset), every per-dimension combination of    *)
(* selector kinds  none / single item / subset Dimension / list  in every  *)
(* position, every right-hand side (number, array over every admissible    *)
(* ordered dimension list incl. surplus and missing dimensions, ndarray).  *)
(* One transition per configuration; each is replayed into flodym under    *)
(* every spelling of the key (dict by letter, dict by name, tuple, single). *)
(*                                                                         *)
(* The universe has, for every base letter, subset dimensions with their   *)
(* own letters: a reordered multi-item subset and a single-item subset     *)
(* (and for length 3 a full reordering).                                   *)
(***************************************************************************)
EXTENDS Integers, Sequences, FiniteSets, TLC, Json

CONSTANTS Pattern, Family, MaxDims, Emit

INSTANCE IndexUniverse
INSTANCE Arrays WITH Canon <- MCCanon, ItemsOf <- MCItemsOf, RootOf <- MCRootOf

VARIABLES cfg, res, phase
vars == <<cfg, res, phase>>

XDims == OrderedSubsetsUpTo(BaseSet, MaxDims) \ {<<>>}

\* selectors available for a letter; reads never use lists
ListsOf(l) == {<<2, 1>>, <<1>>} \cup (IF LenOfBase(l) = 3 THEN {<<3, 1>>} ELSE {}) \cup (IF LenOfBase(l) = 5 THEN {<<2, 4, 3, 5>>, <<5, 1, 2>>} ELSE {})
              \cup (IF LenOfBase(l) = 7 THEN {<<7, 1, 4>>, <<2, 3, 4, 5, 6>>, <<7, 5, 3, 1, 2, 4>>} ELSE {})
SelectorsOf(l, withLists) ==
         {One(i) : i \in ItemSet(l)}
    \cup {SubSel(d) : d \in SubsOf(l)}
    \cup (IF withLists THEN {ListSel(s) : s \in ListsOf(l)} ELSE {})

\* all keys for dims xd: for every letter either no selection or one of its selectors
ExtendKey(k, l, sel) == [m \in DOMAIN k \cup {l} |-> IF m = l THEN sel ELSE k[m]]
RECURSIVE KeysRec(_, _)
KeysRec(ls, withLists) ==
    IF ls = <<>> THEN {[m \in {} |-> 0]}
    ELSE LET rest == KeysRec(Tail(ls), withLists)
             sels == SelectorsOf(Head(ls), withLists)
         IN  rest \cup {ExtendKey(k, Head(ls), sel) : k \in rest, sel \in sels}
KeysFor(xd, withLists) == KeysRec(xd, withLists)

NoList(key) == ~HasList(key)

SNum == PGen(<<9, [i \in DOMAIN MCCanon |-> 0]>>)

\* right-hand side dimension lists for an array source: every order of the region's dims, every
\* order with one surplus base dimension (summed away), and every list lacking one (refused)
ExtraLetters(x, key) == {l \in BaseSet : l \notin DimsOf(x) /\ \A d \in Range(DimsOut(x, key)) : MCRootOf[d] # l}
RhsDims(x, key) ==
    LET ds == DimsOut(x, key) IN
         Perms(ds)
    \cup UNION {Perms(Append(ds, e)) : e \in ExtraLetters(x, key)}
    \cup UNION {Perms(SeqMinus(ds, {m})) : m \in Range(ds)}

GetConfigs == UNION {{[op |-> "get", xd |-> xd, key |-> k, rhs |-> "none", yd |-> <<>>] :
                          k \in KeysFor(xd, FALSE)} : xd \in XDims}

SetNumConfigs == UNION {{[op |-> "set", xd |-> xd, key |-> k, rhs |-> "num", yd |-> <<>>] :
                            k \in KeysFor(xd, TRUE)} : xd \in XDims}
SetNdConfigs  == UNION {{[op |-> "set", xd |-> xd, key |-> k, rhs |-> "nd", yd |-> DimsOut(GenArr(1, xd), k)] :
                            k \in {kk \in KeysFor(xd, FALSE) : TRUE}} : xd \in XDims}
SetArrConfigs == UNION {UNION {{[op |-> "set", xd |-> xd, key |-> k, rhs |-> "arr", yd |-> yd] :
                            yd \in RhsDims(GenArr(1, xd), k)} : k \in KeysFor(xd, FALSE)} : xd \in XDims}

\* keys the statement says must be refused; `at` is the dimension the malformed part refers to.
\* The concrete spelling of each kind is fixed in harness/replay_index.py (ERR_KINDS).
ErrKinds == {"unknown_single", "unknown_in_tuple", "unknown_in_dict", "unknown_in_list_write",
             "foreign_item_in_dict", "unknown_dim_letter", "ambiguous_single", "ambiguous_in_tuple",
             "numpy_slice", "numpy_slice_in_tuple", "numpy_int", "dimension_not_subset",
             "dimension_same_letter", "dimension_letter_clash", "dimension_as_bare_key"}
ErrConfigs == UNION {{[op |-> "geterr", xd |-> xd, key |-> [m \in {l} |-> [kind |-> e]], rhs |-> "none", yd |-> <<>>] :
                         e \in ErrKinds, l \in Range(xd)} : xd \in XDims}

\* KIND PATTERNS on arrays of up to five dimensions: for every dimension none / one fixed item / the multi-item
\* subset (/ a list for writes), in the canonical storage order, its reversal and a rotation.  This is the index
\* vector space of spec/ArrayStore.tla, executed on the real arrays.
PatOrders == LET c == MCCanon  n == Len(MCCanon) IN
             {c, [i \in 1..n |-> c[n + 1 - i]], [i \in 1..n |-> c[(i % n) + 1]]}
PatSel(l, writes) == {One(2), SubSel(SubMulti[l])} \cup (IF writes THEN {ListSel(<<2, 1>>)} ELSE {})
RECURSIVE PatKeys(_, _)
PatKeys(ls, writes) ==
    IF ls = <<>> THEN {[m \in {} |-> 0]}
    ELSE LET rest == PatKeys(Tail(ls), writes)
         IN  rest \cup {ExtendKey(k, Head(ls), sel) : k \in rest, sel \in PatSel(Head(ls), writes)}
GetPatConfigs == UNION {{[op |-> "get", xd |-> xd, key |-> k, rhs |-> "none", yd |-> <<>>] : k \in PatKeys(xd, FALSE)} : xd \in PatOrders}
SetPatConfigs == UNION {{[op |-> "set", xd |-> xd, key |-> k, rhs |-> "num", yd |-> <<>>] : k \in PatKeys(xd, TRUE)} : xd \in {MCCanon}}

Configs == CASE Family = "get"    -> GetConfigs
             [] Family = "getpat" -> GetPatConfigs
             [] Family = "setpat" -> SetPatConfigs
             [] Family = "geterr" -> ErrConfigs
             [] Family = "setnum" -> SetNumConfigs \cup SetNdConfigs
             [] Family = "setarr" -> SetArrConfigs

Apply(c) ==
    LET x == GenArr(1, c.xd) IN
    CASE c.op = "get" -> GetItem(x, c.key)
      [] c.op = "geterr" -> Error          \* unknown / ambiguous items, numpy-style keys, non-subset Dimensions
      [] c.op = "set" /\ c.rhs = "num" -> SetItemNum(x, c.key, SNum)
      [] c.op = "set" /\ c.rhs \in {"arr", "nd"} -> SetItemArr(x, c.key, GenArr(2, c.yd))

Init == cfg \in Configs /\ res = [pending |-> TRUE] /\ phase = "cfg"
Step == phase = "cfg" /\ phase' = "done" /\ res' = Apply(cfg) /\ UNCHANGED cfg
Next == Step
Spec == Init /\ [][Next]_vars

ArrJson(a) == IF a = Error THEN [error |-> TRUE, dims |-> <<>>, val |-> {}]
              ELSE [error |-> FALSE, dims |-> a.dims,
                    val |-> {<<LabTuple(lab), a.val[lab]>> : lab \in DOMAIN a.val}]
KeyJson(k) == {<<l, k[l]>> : l \in DOMAIN k}
UniverseJson == [canon |-> MCCanon, items |-> {<<d, MCItemsOf[d], MCRootOf[d]>> : d \in DOMAIN MCItemsOf}]
EmitInv == (Emit /\ phase = "done") =>
    PrintT(<<"VEC", ToJson([cfg |-> [op |-> cfg.op, xd |-> cfg.xd, key |-> KeyJson(cfg.key), rhs |-> cfg.rhs, yd |-> cfg.yd],
                            res |-> ArrJson(res), pattern |-> Pattern, family |-> Family, universe |-> UniverseJson])>>)

---------------------------------------------------------------------------
Done == phase = "done"
X0 == GenArr(1, cfg.xd)

\* C06: reads return exactly the addressed entries, arranged in the remaining dimensions' order and
\* in the requested item order; result dims = original with singles dropped, subsets replaced
Prop_C06 ==
    /\ (Done /\ cfg.op = "geterr") => res = Error
    /\ (Done /\ cfg.op = "get") =>
        /\ res # Error          \* every generated read key is well formed
        /\ IsArray(res)
        /\ Len(res.dims) = Len(cfg.xd) - Cardinality({l \in DOMAIN cfg.key : cfg.key[l].kind = "one"})
        /\ \A i \in DOMAIN res.dims :
              LET l == SelectSeq(cfg.xd, LAMBDA m : ~(m \in DOMAIN cfg.key /\ cfg.key[m].kind = "one"))[i] IN
              res.dims[i] = (IF l \in DOMAIN cfg.key THEN cfg.key[l].dim ELSE l)
        \* every result entry is the generator of exactly the addressed source entry
        /\ \A lab \in Labelings(res.dims) :
              res.val[lab] = PGen(<<1, LabTuple(Lift(X0, cfg.key, lab))>>)
        \* and distinct result entries address distinct source entries
        /\ \A l1, l2 \in Labelings(res.dims) : res.val[l1] = res.val[l2] => l1 = l2

\* C05 / C06 writes: dims kept, nothing outside the region changes, inside the region the source is
\* matched by label and summed over its surplus dimensions; a source lacking a region dimension is refused
Prop_C05 ==
    (Done /\ cfg.op = "set") =>
        LET ds == DimsOut(X0, cfg.key) IN
        /\ (res = Error) <=> (cfg.rhs \in {"arr", "nd"} /\ ~(Range(ds) \subseteq Range(cfg.yd)))
        /\ res # Error =>
              /\ IsArray(res)
              /\ FrameOK(X0, cfg.key, res)
              /\ \A full \in Region(X0, cfg.key) :
                    IF cfg.rhs = "num" THEN res.val[full] = SNum
                    ELSE res.val[full] = SumTo(GenArr(2, cfg.yd), ds).val[Lower(X0, cfg.key, full)]
              \* conservation: what was written adds up to the source's total times the
              \* multiplicity with which list selections repeat... (lists are absent for array sources)
              /\ cfg.rhs \in {"arr", "nd"} =>
                    PSumOver(LAMBDA full : res.val[full], Region(X0, cfg.key)) = Total(GenArr(2, cfg.yd))

\* C04: re-storing the array (and an array source) in the canonical dimension order changes no entry
CanonOrder(ds) == SubSeqBy(MCCanon, Range(ds))
Prop_C04 ==
    Done => LET c0 == [cfg EXCEPT !.xd = CanonOrder(cfg.xd)]
                r0 == Apply(c0) IN
            IF res = Error \/ r0 = Error THEN (res = Error) = (r0 = Error)
            ELSE /\ Range(res.dims) = Range(r0.dims)
                 /\ \A lab \in DOMAIN res.val : res.val[lab] = r0.val[lab]

TypeOK == phase \in {"cfg", "done"}
=============================================================================
