---------------------------- MODULE MC_ArrayOps ----------------------------
(***************************************************************************)
(* Bounded model for single array operations: every configuration          *)
(* (operator, ordered dimension subsets of the operands = every subset in  *)
(* every storage order, valuation seed, ...) is one initial state; the one *)
(* transition applies the L1 operator.  Every transition is emitted as a   *)
(* JSON vector and replayed into flodym (harness/replay_arrays.py).        *)
(*                                                                         *)
(* Families:  "arith"  - C01 (and C04 through the operand permutations)    *)
(*            "reduce" - C07                                               *)
(***************************************************************************)
EXTENDS Integers, Sequences, FiniteSets, TLC, Json

CONSTANTS Pattern,     \* dimension length pattern, e.g. "P222"
          Family,      \* "arith" | "reduce"
          MaxDims,     \* largest number of dimensions of an operand
          Seeds,       \* set of valuation seeds for concolic / numeric ops
          Emit         \* TRUE: print one VEC line per transition

Lens == CASE Pattern = "P222"  -> <<2, 2, 2>>
          [] Pattern = "P231"  -> <<2, 3, 1>>
          [] Pattern = "P122"  -> <<1, 2, 2>>
          [] Pattern = "P322"  -> <<3, 2, 2>>
          [] Pattern = "P22"   -> <<2, 2>>
          [] Pattern = "P2222" -> <<2, 2, 2, 2>>
          [] Pattern = "P2132" -> <<2, 1, 3, 2>>
          [] Pattern = "P72"   -> <<7, 2>>
          [] Pattern = "P27"   -> <<2, 7>>
          [] Pattern = "P272"  -> <<2, 7, 2>>
          [] Pattern = "P222222" -> <<2, 2, 2, 2, 2, 2>>
AllCanon == <<"a", "b", "c", "d", "e", "f">>
MCCanon == SubSeq(AllCanon, 1, Len(Lens))
MCItemsOf == [l \in {MCCanon[i] : i \in DOMAIN MCCanon} |->
                [k \in 1..Lens[CHOOSE i \in DOMAIN MCCanon : MCCanon[i] = l] |-> k]]
MCRootOf == [l \in DOMAIN MCItemsOf |-> l]

INSTANCE Arrays WITH Canon <- MCCanon, ItemsOf <- MCItemsOf, RootOf <- MCRootOf

VARIABLES cfg, res, phase
vars == <<cfg, res, phase>>

\* MaxDims = 0: "big" mode for universes with many dimensions - only a few storage orders of the FULL dimension list
\* (canonical, reversed, rotated), the list without its first letter, two scattered letters and the empty list
FullOrders == LET c == MCCanon  n == Len(MCCanon) IN
              {c, [i \in 1..n |-> c[n + 1 - i]], [i \in 1..n |-> c[(i % n) + 1]], Tail(c), <<>>}
              \cup (IF n >= 4 THEN {<<c[4], c[2]>>} ELSE {})
DimChoices == IF MaxDims = 0 THEN FullOrders ELSE OrderedSubsetsUpTo(BaseLetters, MaxDims)

\* the symbolic "plain number": array id 9, no labels
ZeroTuple == [i \in DOMAIN MCCanon |-> 0]
SNum == PGen(<<9, ZeroTuple>>)

\* numeric arrays for ** (base 1..3, exponent 0..2) and shares (values -2..4)
NumArr(k, ds, seed, lo, n) ==
    Arr(ds, LAMBDA lab : PConst(lo + ((Nu(seed, <<k, LabTuple(lab)>>) + 5) % n)))

BinOps    == {"add", "sub", "mul", "div"}
OrdOps    == {"min", "max"}
ScalarOps == {"add_s", "sub_s", "mul_s", "div_s", "radd_s", "rsub_s", "rmul_s", "rdiv_s"}
UnaryOps  == {"neg"}
\* abs_inplace / sign_inplace: x.abs(inplace=True) - the operand itself becomes the result
OrdUnary  == {"abs", "abs_builtin", "sign", "min_s", "max_s", "abs_inplace", "sign_inplace"}

ArithConfigs ==
         {[op |-> o, xd |-> xd, yd |-> yd, seed |-> 0] : o \in BinOps, xd \in DimChoices, yd \in DimChoices}
    \cup {[op |-> o, xd |-> xd, yd |-> yd, seed |-> s] : o \in OrdOps \cup {"pow"}, xd \in DimChoices, yd \in DimChoices, s \in Seeds}
    \cup {[op |-> o, xd |-> xd, yd |-> <<>>, seed |-> 0] : o \in ScalarOps \cup UnaryOps, xd \in DimChoices}
    \cup {[op |-> o, xd |-> xd, yd |-> <<>>, seed |-> s] : o \in OrdUnary \cup {"pow_s"}, xd \in DimChoices, s \in Seeds}

X(c) == IF c.op \in {"pow", "pow_s"} THEN NumArr(1, c.xd, c.seed, 1, 3) ELSE GenArr(1, c.xd)
Y(c) == IF c.op = "pow" THEN NumArr(2, c.yd, c.seed, 0, 3) ELSE GenArr(2, c.yd)
\* for min_s / max_s the plain number is the concrete 0 (both orders occur
\* because valuations are signed)
ApplyArith(c) ==
    LET x == X(c)  y == Y(c) IN
    CASE c.op = "add" -> Add(x, y)
      [] c.op = "sub" -> Sub(x, y)
      [] c.op = "mul" -> Mul(x, y)
      [] c.op = "div" -> Div(x, y)
      [] c.op = "min" -> Minimum(c.seed, x, y)
      [] c.op = "max" -> Maximum(c.seed, x, y)
      [] c.op = "pow" -> Pow(x, y)
      [] c.op = "add_s"  -> Add(x, Num(x, SNum))
      [] c.op = "sub_s"  -> Sub(x, Num(x, SNum))
      [] c.op = "mul_s"  -> Mul(x, Num(x, SNum))
      [] c.op = "div_s"  -> Div(x, Num(x, SNum))
      [] c.op = "radd_s" -> Add(Num(x, SNum), x)
      [] c.op = "rsub_s" -> Sub(Num(x, SNum), x)
      [] c.op = "rmul_s" -> Mul(Num(x, SNum), x)
      [] c.op = "rdiv_s" -> Div(Num(x, SNum), x)
      [] c.op = "pow_s"  -> Pow(x, Num(x, PConst(2)))
      [] c.op = "min_s"  -> Minimum(c.seed, x, Num(x, PConst(0)))
      [] c.op = "max_s"  -> Maximum(c.seed, x, Num(x, PConst(0)))
      [] c.op = "neg"    -> Neg(x)
      [] c.op \in {"abs", "abs_builtin", "abs_inplace"} -> Abs(c.seed, x)
      [] c.op \in {"sign", "sign_inplace"} -> Sign(c.seed, x)

(***************************************************************************)
(* reduce family                                                           *)
(*   sum_to / sum_over / cast_to take an ORDERED list of letters `yd`;     *)
(*   `form` says how each is named in the call (letter / name / object).   *)
(*   "unk" variants name a dimension the array does not have.              *)
(***************************************************************************)
Forms == {"letter", "name", "obj"}
ReduceConfigs ==
         {[op |-> "sum_to", xd |-> xd, yd |-> yd, seed |-> 0, form |-> f] :
              xd \in DimChoices, yd \in DimChoices, f \in Forms}
    \cup {[op |-> "sum_over", xd |-> xd, yd |-> yd, seed |-> 0, form |-> f] :
              xd \in DimChoices, yd \in DimChoices, f \in Forms}
    \cup {[op |-> "cast_to", xd |-> xd, yd |-> yd, seed |-> 0, form |-> "obj"] :
              xd \in DimChoices, yd \in (IF MaxDims = 0 THEN FullOrders ELSE OrderedSubsets(BaseLetters))}
    \cup {[op |-> o, xd |-> xd, yd |-> <<l>>, seed |-> 0, form |-> "letter"] :
              xd \in DimChoices, l \in BaseLetters, o \in {"cumsum", "cumsum_inplace"}}      \* (in place: the operand becomes the result)
    \cup {[op |-> "shares", xd |-> xd, yd |-> yd, seed |-> s, form |-> "letter"] :
              xd \in DimChoices, yd \in DimChoices, s \in Seeds}

ApplyReduce(c) ==
    LET x == IF c.op = "shares" THEN NumArr(1, c.xd, c.seed, -2, 7) ELSE GenArr(1, c.xd) IN
    CASE c.op = "sum_to"   -> SumTo(x, c.yd)
      [] c.op = "sum_over" -> SumOver(x, Range(c.yd))
      [] c.op = "cast_to"  -> CastTo(x, c.yd)
      [] c.op \in {"cumsum", "cumsum_inplace"} -> CumSum(x, c.yd[1])
      [] c.op = "shares"   -> SharesOver(x, Range(c.yd))

Configs == IF Family = "arith" THEN ArithConfigs ELSE ReduceConfigs
Apply(c) == IF Family = "arith" THEN ApplyArith(c) ELSE ApplyReduce(c)

Init == cfg \in Configs /\ res = [pending |-> TRUE] /\ phase = "cfg"
Step == /\ phase = "cfg"
        /\ phase' = "done"
        /\ res' = Apply(cfg)
        /\ UNCHANGED cfg
Next == Step
Spec == Init /\ [][Next]_vars

---------------------------------------------------------------------------
\* emission: entries as a set of <<label tuple, value>>
ArrJson(a) == IF a = Error THEN [error |-> TRUE, dims |-> <<>>, val |-> {}]
              ELSE [error |-> FALSE, dims |-> a.dims,
                    val |-> {<<LabTuple(lab), a.val[lab]>> : lab \in DOMAIN a.val}]
EmitInv == (Emit /\ phase = "done") =>
              PrintT(<<"VEC", ToJson([cfg |-> cfg, res |-> ArrJson(res), pattern |-> Pattern, family |-> Family])>>)

---------------------------------------------------------------------------
(***************************************************************************)
(* Prop_C01 on the contract: the statement's rules as checked theorems of  *)
(* the model (they hold for every configuration TLC enumerates).           *)
(***************************************************************************)
Done == phase = "done"
Prop_C01 ==
    (Done /\ Family = "arith") =>
    LET c == cfg  x == X(cfg)  y == Y(cfg) IN
    /\ res = Error \/ IsArray(res)
    /\ c.op \in {"add", "sub", "min", "max"} =>
          /\ res.dims = SubSeqBy(c.xd, Range(c.yd))           \* common dims, x's order
    /\ c.op = "add" => /\ Total(res) = PAdd(Total(x), Total(y))
                       /\ SameByLabel(res, Add(y, x))
    /\ c.op = "sub" => /\ Total(res) = PSub(Total(x), Total(y))
                       /\ res = Add(x, Neg(y))
    /\ c.op \in {"mul", "div"} =>
          /\ res.dims = c.xd \o SeqMinus(c.yd, Range(c.xd))   \* x's first, then y's new
          /\ \A lab \in Labelings(res.dims) :
                res.val[lab] = (IF c.op = "mul" THEN PMul(At(x, lab), At(y, lab))
                                                ELSE PDiv(At(x, lab), At(y, lab)))
    /\ c.op = "mul" => SameByLabel(res, Mul(y, x))
    /\ c.op = "pow" => (res = Error <=> ~(Range(c.yd) \subseteq Range(c.xd)))
    /\ c.op = "pow" /\ res # Error => res.dims = c.xd
    /\ c.op \in ScalarOps \cup UnaryOps \cup OrdUnary \cup {"pow_s"} => res.dims = c.xd
    /\ c.op = "rsub_s" => res = Add(Neg(x), Num(x, SNum))
    /\ c.op = "rdiv_s" => res = Mul(Inv(x), Num(x, SNum))
    /\ c.op = "radd_s" => res = Add(x, Num(x, SNum))
    /\ c.op = "min" => \A lab \in Labelings(res.dims) :
           res.val[lab] \in {SumTo(x, res.dims).val[lab], SumTo(y, res.dims).val[lab]}

Prop_C07 ==
    (Done /\ Family = "reduce") =>
    LET c == cfg  x == GenArr(1, cfg.xd) IN
    /\ res = Error \/ c.op = "shares" \/ IsArray(res)
    /\ c.op = "sum_to" =>
          /\ (res = Error <=> ~(Range(c.yd) \subseteq Range(c.xd)))
          /\ res # Error => res.dims = c.yd /\ Total(res) = Total(x)
    /\ c.op = "sum_over" =>
          /\ (res = Error <=> ~(Range(c.yd) \subseteq Range(c.xd)))
          /\ res # Error => res.dims = SeqMinus(c.xd, Range(c.yd)) /\ Total(res) = Total(x)
    /\ c.op = "cast_to" =>
          /\ (res = Error <=> ~(Range(c.xd) \subseteq Range(c.yd)))
          /\ res # Error =>
                /\ res.dims = c.yd
                /\ SumTo(res, c.xd) = Arr(c.xd, LAMBDA lab : PScale(Added(x, c.yd), x.val[lab]))
    /\ c.op \in {"cumsum", "cumsum_inplace"} =>
          /\ (res = Error <=> c.yd[1] \notin Range(c.xd))
          /\ res # Error =>
                LET l == c.yd[1]  last == MCItemsOf[l][Len(MCItemsOf[l])] IN
                /\ res.dims = c.xd
                /\ GetItem(res, [m \in {l} |-> One(last)]) = SumOver(x, {l})
    /\ c.op = "shares" /\ res # Error =>
          LET xn == NumArr(1, c.xd, c.seed, -2, 7)
              keep == SeqMinus(c.xd, Range(c.yd))
              tot == SumTo(xn, keep) IN
          \A lab \in Labelings(c.xd) :
             LET t == ConstOf(tot.val[RestrictTo(lab, Range(keep))]) IN
             t # 0 =>
               /\ RMul(res.val[lab], RInt(t)) = RInt(ConstOf(xn.val[lab]))     \* multiplying back
               /\ RSumOver(LAMBDA f : res.val[f],
                           Extensions(RestrictTo(lab, Range(keep)), Range(c.xd))) = RInt(1)

(***************************************************************************)
(* Prop_C04: the result does not depend on the STORAGE order of an operand: *)
(* re-storing x (and, for binary operators, y) in the canonical order gives *)
(* the same entries under the same labels.  The requested / target order    *)
(* (yd of the reduce family) is part of the call, not storage, and is kept. *)
(***************************************************************************)
CanonOrder(ds) == SubSeqBy(MCCanon, Range(ds))
CanonCfg(c) == IF Family = "arith" THEN [c EXCEPT !.xd = CanonOrder(c.xd), !.yd = CanonOrder(c.yd)]
               ELSE [c EXCEPT !.xd = CanonOrder(c.xd)]
Prop_C04 ==
    Done => LET r0 == Apply(CanonCfg(cfg)) IN
            IF res = Error \/ r0 = Error THEN res = r0
            ELSE /\ Range(res.dims) = Range(r0.dims)
                 /\ \A lab \in DOMAIN res.val : res.val[lab] = r0.val[lab]
                 \* and the result's own order follows the documented rule, which for reductions / casts is the request
                 /\ Family = "reduce" /\ cfg.op \in {"sum_to", "cast_to"} => res.dims = r0.dims

TypeOK == phase \in {"cfg", "done"}
=============================================================================
