---------------------------- MODULE MC_Lifecycle ----------------------------
(***************************************************************************)
(* Bounded model of spec/Lifecycle.tla: for a small pool of model          *)
(* definitions (chosen by ModelId) ALL histories up to Depth of            *)
(*    compute() / one parameter entry overwritten / lifetime replaced /    *)
(*    one flow entry overwritten (also negative and NaN)                   *)
(* on the system built from the definition.  TLC checks the theorems of    *)
(* the composed contract in every reachable state and emits every maximal  *)
(* history with the state after each step and, for each state, what both   *)
(* checks must report - each is replayed on a real MFASystem (direction A; *)
(* harness/replay_lifecycle.py), which also exports after every step.      *)
(*                                                                         *)
(* Models (all over t x r x e, 3 x 2 x 2 items):                           *)
(*  1  conserving: source -> split by a mask (remainder = difference) ->   *)
(*     dynamic stock (inflow-driven, fixed lifetime) -> outflow            *)
(*  2  not conserving: product of two parameters in "wrong" storage order, *)
(*     flow-driven stock with a scaled outflow, sum_to, an extra half flow *)
(*  3  conserving: two dynamic stocks in a row over different dimension    *)
(*     subsets, one of them without a process                              *)
(***************************************************************************)
EXTENDS Integers, Sequences, FiniteSets, TLC, Json
CONSTANTS ModelId, Depth, Emit, Rich

MCCanon == <<"t", "r", "e">>
MCItemsOf == [t |-> <<1, 2, 3>>, r |-> <<1, 2>>, e |-> <<1, 2>>]
MCRootOf == [t |-> "t", r |-> "r", e |-> "e"]
\* interval lengths 2, 2, 2 (model 1) / 1, 1, 1 (model 2) / 1, 2, 2 .. see TimeGrid: midpoints, ends mirrored
MCGrid == CASE ModelId \in {1, 4} -> <<2000, 2001, 2004>> [] ModelId = 2 -> <<1990, 1991, 1992>> [] OTHER -> <<2000, 2002, 2004>>

VARIABLES st, hist
vars == <<st, hist>>
INSTANCE Lifecycle WITH Canon <- MCCanon, ItemsOf <- MCItemsOf, RootOf <- MCRootOf, TGrid <- MCGrid

P(i) == [op |-> "p", id |-> i]
F(i) == [op |-> "f", id |-> i]
Sin(i) == [op |-> "sin", id |-> i]
Sout(i) == [op |-> "sout", id |-> i]
Bin(o, a, b) == [op |-> o, a |-> a, b |-> b]

M1 == [procs |-> <<"sysenv", "A", "B">>,
       params |-> << [name |-> "src", dims |-> <<"t", "r">>], [name |-> "mask", dims |-> <<"r", "e">>] >>,
       flows |-> << [name |-> "sysenv => A", from |-> 1, to |-> 2, dims |-> <<"r", "t">>],
                    [name |-> "A => sysenv", from |-> 2, to |-> 1, dims |-> <<"t", "e">>],
                    [name |-> "A => B", from |-> 2, to |-> 3, dims |-> <<"t">>],
                    [name |-> "B => sysenv", from |-> 3, to |-> 1, dims |-> <<"t">>] >>,
       stocks |-> << [name |-> "stock1", proc |-> 3, dims |-> <<"t">>, kind |-> "dsm", setting |-> "middle"] >>,
       prog |-> << [op |-> "flow", id |-> 1, e |-> P(1)],
                   [op |-> "flow", id |-> 2, e |-> Bin("mul", F(1), P(2))],
                   [op |-> "flow", id |-> 3, e |-> Bin("sub", F(1), F(2))],
                   [op |-> "sin", id |-> 1, e |-> F(3)],
                   [op |-> "scompute", id |-> 1, e |-> P(1)],
                   [op |-> "flow", id |-> 4, e |-> Sout(1)] >>]
M2 == [procs |-> <<"sysenv", "A", "B">>,
       params |-> << [name |-> "src", dims |-> <<"t", "e">>], [name |-> "coef", dims |-> <<"e">>] >>,
       flows |-> << [name |-> "sysenv => A", from |-> 1, to |-> 2, dims |-> <<"t", "e">>],
                    [name |-> "A => B", from |-> 2, to |-> 3, dims |-> <<"e", "t">>],
                    [name |-> "B => sysenv", from |-> 3, to |-> 1, dims |-> <<"t">>],
                    [name |-> "B => sysenv #4", from |-> 3, to |-> 1, dims |-> <<"t">>] >>,
       stocks |-> << [name |-> "stock1", proc |-> 2, dims |-> <<"t", "e">>, kind |-> "simple", setting |-> "middle"] >>,
       prog |-> << [op |-> "flow", id |-> 1, e |-> Bin("mul", P(2), P(1))],
                   [op |-> "sin", id |-> 1, e |-> F(1)],
                   [op |-> "sout", id |-> 1, e |-> [op |-> "scale", a |-> Sin(1), k |-> <<1, 2>>]],
                   [op |-> "scompute", id |-> 1, e |-> P(1)],
                   [op |-> "flow", id |-> 2, e |-> Sout(1)],
                   [op |-> "flow", id |-> 3, e |-> [op |-> "sumto", a |-> F(2), dims |-> <<"t">>]],
                   [op |-> "flow", id |-> 4, e |-> [op |-> "scale", a |-> F(3), k |-> <<1, 2>>]] >>]
M3 == [procs |-> <<"sysenv", "A">>,
       params |-> << [name |-> "src", dims |-> <<"r", "t", "e">>] >>,
       flows |-> << [name |-> "sysenv => A", from |-> 1, to |-> 2, dims |-> <<"t", "r", "e">>],
                    [name |-> "A => sysenv", from |-> 2, to |-> 1, dims |-> <<"t", "r">>] >>,
       stocks |-> << [name |-> "stock1", proc |-> 2, dims |-> <<"t", "r", "e">>, kind |-> "dsm", setting |-> "start"],
                     [name |-> "stock2", proc |-> 0, dims |-> <<"t", "r">>, kind |-> "dsm", setting |-> "gl2"] >>,
       prog |-> << [op |-> "flow", id |-> 1, e |-> P(1)],
                   [op |-> "sin", id |-> 1, e |-> F(1)],
                   [op |-> "scompute", id |-> 1, e |-> P(1)],
                   [op |-> "flow", id |-> 2, e |-> Sout(1)],
                   [op |-> "sin", id |-> 2, e |-> F(2)],
                   [op |-> "scompute", id |-> 2, e |-> P(1)] >>]
\* 4  conserving: a STOCK-DRIVEN dynamic stock prescribed by the cumulated demand; what upstream does not deliver comes from the
\*    environment; the outflow is written item by item (flows[f][{r: item}] = outflow[{r: item}])
M4 == [procs |-> <<"sysenv", "A">>,
       params |-> << [name |-> "src", dims |-> <<"t", "r">>], [name |-> "dem", dims |-> <<"r", "t">>] >>,
       flows |-> << [name |-> "sysenv => A", from |-> 1, to |-> 2, dims |-> <<"t", "r">>],
                    [name |-> "sysenv => A #2", from |-> 1, to |-> 2, dims |-> <<"r", "t">>],
                    [name |-> "A => sysenv", from |-> 2, to |-> 1, dims |-> <<"r", "t">>] >>,
       stocks |-> << [name |-> "stock1", proc |-> 2, dims |-> <<"t", "r">>, kind |-> "sdsm", setting |-> "end", solver |-> "manual"] >>,
       prog |-> << [op |-> "flow", id |-> 1, e |-> P(1)],
                   [op |-> "slev", id |-> 1, e |-> [op |-> "cumsum", a |-> P(2), l |-> "t"]],
                   [op |-> "scompute", id |-> 1, e |-> P(1)],
                   [op |-> "flow", id |-> 2, e |-> Bin("sub", Sin(1), F(1))],
                   [op |-> "flowkey", id |-> 3, key |-> << <<"r", 1>> >>, e |-> [op |-> "get", a |-> Sout(1), key |-> << <<"r", 1>> >>, sp |-> "letter"]],
                   [op |-> "flowkey", id |-> 3, key |-> << <<"r", 2>> >>, e |-> [op |-> "get", a |-> Sout(1), key |-> << <<"r", 2>> >>, sp |-> "name"]] >>]
M == CASE ModelId = 1 -> M1 [] ModelId = 2 -> M2 [] ModelId = 3 -> M3 [] OTHER -> M4
Conserving == ModelId \in {1, 3, 4}

\* initial parameter values: small integers depending on the labels (no symmetry between items)
Prm0 == [p \in DOMAIN M.params |->
            RA(M.params[p].dims, LAMBDA lab :
                IF M.params[p].name = "mask" THEN RInt((lab["r"] + lab["e"]) % 2)
                ELSE RInt(1 + (((IF "t" \in DOMAIN lab THEN 2 * lab["t"] ELSE 0) + (IF "r" \in DOMAIN lab THEN lab["r"] ELSE 0)
                                + (IF "e" \in DOMAIN lab THEN 3 * lab["e"] ELSE 0)) % 5)))]
Life0 == [s \in DOMAIN M.stocks |-> 12 + 8 * s]          \* 2.5 and 3.5 years

LastPos(ds) == Len(RowMajor(ds))
PosSet(ds) == IF Rich THEN {1, LastPos(ds)} ELSE {LastPos(ds)}
ParamVals == IF Rich THEN {<<0, 1>>, <<3, 2>>} ELSE {<<3, 2>>}
FlowVals == {<<-1, 4>>, RNaN}
LifeVals == IF Rich THEN {4, 36} ELSE {4}
DsmStocks == {s \in DOMAIN M.stocks : M.stocks[s].kind \in {"dsm", "sdsm"}}

Ev(op, id, pos, val, s2) ==
    [op |-> op, id |-> id, pos |-> pos, val |-> val,
     state |-> [prm |-> [p \in DOMAIN s2.prm |-> [dims |-> s2.prm[p].dims, flat |-> [k \in 1..LastPos(s2.prm[p].dims) |-> s2.prm[p].val[RowMajor(s2.prm[p].dims)[k]]]]],
                flw |-> [f \in DOMAIN s2.flw |-> [dims |-> s2.flw[f].dims, flat |-> [k \in 1..LastPos(s2.flw[f].dims) |-> s2.flw[f].val[RowMajor(s2.flw[f].dims)[k]]]]],
                sin |-> [s \in DOMAIN s2.sin |-> [dims |-> s2.sin[s].dims, flat |-> [k \in 1..LastPos(s2.sin[s].dims) |-> s2.sin[s].val[RowMajor(s2.sin[s].dims)[k]]]]],
                sout |-> [s \in DOMAIN s2.sout |-> [dims |-> s2.sout[s].dims, flat |-> [k \in 1..LastPos(s2.sout[s].dims) |-> s2.sout[s].val[RowMajor(s2.sout[s].dims)[k]]]]],
                slev |-> [s \in DOMAIN s2.slev |-> [dims |-> s2.slev[s].dims, flat |-> [k \in 1..LastPos(s2.slev[s].dims) |-> s2.slev[s].val[RowMajor(s2.slev[s].dims)[k]]]]]],
     \* what the checks must report in this state
     failing_strict |-> {M.procs[p] : p \in Failing(M, s2, "strict")},
     failing_half |-> {M.procs[p] : p \in Failing(M, s2, "half")},
     flagged |-> {M.flows[f].name : f \in Flagged(M, s2, {})},
     flagged_but_first |-> {M.flows[f].name : f \in Flagged(M, s2, {M.flows[1].name})},
     anynan |-> AnyNaN(M, s2)]

Init == st = Built(M, Prm0, Life0) /\ hist = <<>>
DoCompute == LET s2 == Compute(M, st) IN st' = s2 /\ hist' = Append(hist, Ev("compute", 0, 0, <<0, 1>>, s2))
DoSetParam == \E p \in DOMAIN M.params : \E pos \in PosSet(M.params[p].dims) : \E v \in ParamVals :
                 LET s2 == [st EXCEPT !.prm[p].val[RowMajor(M.params[p].dims)[pos]] = v]
                 IN  st' = s2 /\ hist' = Append(hist, Ev("set_param", p, pos, v, s2))
DoSetLife == \E s \in DsmStocks : \E l8 \in LifeVals :
                 LET s2 == [st EXCEPT !.life8[s] = l8] IN st' = s2 /\ hist' = Append(hist, Ev("set_life", s, 0, <<l8, 1>>, s2))
DoEditFlow == \E f \in {1, Len(M.flows)} : \E v \in FlowVals :
                 LET s2 == [st EXCEPT !.flw[f].val[RowMajor(M.flows[f].dims)[1]] = v]
                 IN  st' = s2 /\ hist' = Append(hist, Ev("edit_flow", f, 1, v, s2))
Next == Len(hist) < Depth /\ (DoCompute \/ DoSetParam \/ DoSetLife \/ DoEditFlow)
Spec == Init /\ [][Next]_vars

(***************************************************************************)
(* Theorems of the composed contract, in every reachable state             *)
(***************************************************************************)
Computed == hist # <<>> /\ hist[Len(hist)].op = "compute"
Prop_Lifecycle ==
    /\ WellFormedFrom(M, st, 1)
    /\ MirrorLaw(M, st)
    /\ ComputeForgets(M, st)
    \* an assignment conserves the total of its source (summed by label, nothing dropped or counted twice)
    /\ \A f \in DOMAIN M.flows, p \in DOMAIN M.params :
          Assignable(M.flows[f].dims, st.prm[p]) => ATotal(Assigned(M.flows[f].dims, st.prm[p])) = ATotal(st.prm[p])
    \* right after compute(): a conserving program is balanced at every process for ALL parameter values and lifetimes reached,
    \* every computed stock conserves mass, no flow is flagged for NaN (all inputs are numbers)
    /\ Computed => /\ Conserving => Failing(M, st, "strict") = {}
                   /\ \A s \in DOMAIN M.stocks : StockConserves(M, st, s)
                   /\ ~AnyNaN(M, st)
    \* the balance never depends on how an array stores its dimensions: permuting the dims of every flow leaves the failing set
    /\ LET M2p == [M EXCEPT !.flows = [f \in DOMAIN M.flows |-> [M.flows[f] EXCEPT !.dims = Reverse(M.flows[f].dims)]]]
           s2p == [st EXCEPT !.flw = [f \in DOMAIN st.flw |-> RA(Reverse(st.flw[f].dims), LAMBDA lab : st.flw[f].val[lab])]]
       IN  Failing(M2p, s2p, "strict") = Failing(M, st, "strict")

EmitInv == (Emit /\ Len(hist) = Depth) =>
              PrintT(<<"VEC", ToJson([grid |-> MCGrid, model |-> M, modelid |-> ModelId,
                                      init |-> [prm |-> [p \in DOMAIN M.params |-> [k \in 1..LastPos(M.params[p].dims) |-> Prm0[p].val[RowMajor(M.params[p].dims)[k]]]],
                                                life8 |-> Life0],
                                      events |-> hist])>>)
=============================================================================
