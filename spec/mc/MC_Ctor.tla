------------------------------- MODULE MC_Ctor -------------------------------
(***************************************************************************)
(* Every constructor / validator call of C13 over a small universe:        *)
(* t (time, 3 items), a (2), b (2), c (3): equal lengths (a/b, t/c) so that *)
(* a transposed or foreign array of the same shape is among the candidates. *)
(***************************************************************************)
EXTENDS Integers, Sequences, FiniteSets, TLC, Json
CONSTANTS Emit, MaxDims

MCCanon == <<"t", "a", "b", "c">>
MCItemsOf == [t |-> <<1, 2, 3>>, a |-> <<1, 2>>, b |-> <<1, 2>>, c |-> <<1, 2, 3>>]
MCRootOf == [t |-> "t", a |-> "a", b |-> "b", c |-> "c"]
INSTANCE Ctor WITH Canon <- MCCanon, ItemsOf <- MCItemsOf, RootOf <- MCRootOf

VARIABLES cfg, res, phase
vars == <<cfg, res, phase>>

Dims == OrderedSubsetsUpTo(BaseLetters, MaxDims)
\* candidate ndarray shapes for an array over ds
ShapesFor(ds) ==
    {Shape(p) : p \in Perms(ds)}
    \cup (IF Len(ds) >= 1 THEN {Shape(Tail(ds)), Shape(SubSeq(ds, 1, Len(ds) - 1)), <<1>> \o Shape(Tail(ds))} ELSE {})
    \cup {Shape(ds) \o <<1>>, <<1>> \o Shape(ds), Shape(ds) \o <<2>>, <<>>, <<-1>>, <<-2>>}

ArrayConfigs == UNION {{[op |-> "array_ctor", cls |-> c, via |-> v, ds |-> ds, shape |-> sh, tl |-> "", b |-> <<>>] :
                          sh \in ShapesFor(ds), c \in {"FlodymArray", "Parameter", "StockArray"},
                          v \in {"ctor", "set_values", "ellipsis"}} : ds \in Dims}
StockDims == {ds \in Dims : Len(ds) >= 1}
SlotDimsFor(ds) == Perms(ds) \cup {Tail(ds)} \cup {ds \o <<l>> : l \in BaseLetters \ Range(ds)}
                   \cup {[i \in DOMAIN ds |-> IF i = Len(ds) THEN l ELSE ds[i]] : l \in BaseLetters \ Range(ds)}
StockConfigs ==
    UNION {{[op |-> "stock_ctor", cls |-> c, via |-> slot, ds |-> ds, shape |-> <<>>, tl |-> tl, b |-> sd] :
               c \in {"SimpleFlowDrivenStock", "InflowDrivenDSM", "StockDrivenDSM"},
               slot \in {"stock", "inflow", "outflow"}, tl \in {"t", "c"}, sd \in SlotDimsFor(ds)} : ds \in StockDims}
    \cup {[op |-> "stock_ctor", cls |-> c, via |-> "none", ds |-> ds, shape |-> <<>>, tl |-> tl, b |-> <<>>] :
               c \in {"SimpleFlowDrivenStock", "InflowDrivenDSM", "StockDrivenDSM"}, tl \in {"t", "c"}, ds \in StockDims}
LifetimeConfigs ==
    UNION {{[op |-> "dsm_lifetime", cls |-> c, via |-> "instance", ds |-> ds, shape |-> <<>>, tl |-> "t", b |-> ld] :
               c \in {"InflowDrivenDSM", "StockDrivenDSM"}, ld \in SlotDimsFor(ds)} : ds \in {d \in StockDims : d[1] = "t"}}
    \cup UNION {{[op |-> "lifetime_prm", cls |-> "FixedLifetime", via |-> "ctor", ds |-> ds, shape |-> <<>>, tl |-> "t", b |-> pd] :
               pd \in OrderedSubsetsUpTo(BaseLetters, 2)} : ds \in {d \in StockDims : d[1] = "t"}}

ForeignConfigs ==
    UNION {{[op |-> "assign_foreign", cls |-> "FlodymArray", via |-> v, ds |-> ds, shape |-> <<>>, tl |-> l, b |-> <<>>] :
               v \in {"ellipsis", "empty_dict", "arith"}, l \in Range(ds)} : ds \in {d \in Dims : d # <<>>}}

ForeignPrmConfigs ==
    UNION {UNION {{[op |-> "lifetime_foreign", cls |-> "FixedLifetime", via |-> v, ds |-> ds, shape |-> <<>>, tl |-> l, b |-> pd] :
               v \in {"ctor", "set_prms"}, l \in Range(pd)} : pd \in {q \in OrderedSubsetsUpTo(Range(ds), 2) : q # <<>>} \cup Perms(ds)}
           : ds \in {d \in StockDims : d[1] = "t"}}

Configs == ArrayConfigs \cup StockConfigs \cup LifetimeConfigs \cup ForeignConfigs \cup ForeignPrmConfigs

Accept(c) ==
    CASE c.op = "array_ctor"   -> ArrayCtorOK(c.via, c.ds, c.shape)
      [] c.op = "stock_ctor"   -> StockCtorOK(c.ds, c.tl, c.via # "none", c.b)
      [] c.op = "dsm_lifetime" -> DsmLifetimeOK(c.ds, c.tl, c.b)
      [] c.op = "lifetime_prm" -> LifetimePrmOK(c.ds, c.b)
      [] c.op = "assign_foreign" -> ForeignAssignOK(c.ds, c.tl)
      [] c.op = "lifetime_foreign" -> ForeignPrmOK(c.ds, c.b, c.tl)

Init == cfg \in Configs /\ res = "pending" /\ phase = "cfg"
Step == phase = "cfg" /\ phase' = "done" /\ res' = (IF Accept(cfg) THEN "ok" ELSE "error") /\ UNCHANGED cfg
Spec == Init /\ [][Step]_vars

EmitInv == (Emit /\ phase = "done") => PrintT(<<"VEC", ToJson([cfg |-> cfg, res |-> res])>>)

\* C13 on the contract: whatever is accepted has exactly the shape of its dims / the dims of its owner
Prop_C13 ==
    phase = "done" =>
      /\ (cfg.op = "array_ctor" /\ res = "ok") => (cfg.shape = Shape(cfg.ds) \/ cfg.shape = <<-1>> \/ cfg.shape = <<-2>>)
      /\ (cfg.op = "stock_ctor" /\ res = "ok") => (cfg.ds[1] = cfg.tl /\ (cfg.via # "none" => cfg.b = cfg.ds))
      /\ (cfg.op = "dsm_lifetime" /\ res = "ok") => cfg.b = cfg.ds
=============================================================================
