---------------------------- MODULE MC_ArrayStore ----------------------------
(* TLC evaluates the refinement theorem of spec/ArrayStore.tla over every index vector of up to MaxAxes axes. *)
EXTENDS ArrayStore, TLC
VARIABLE dummy
Init == dummy = 0
Next == UNCHANGED dummy
Spec == Init /\ [][Next]_dummy
Prop_Order == OrderPreserved
PrintWitness == PrintT(<<"WITNESSES", Cardinality(Witnesses), IF Witnesses = {} THEN <<>> ELSE CHOOSE w \in Witnesses : \A v \in Witnesses : Len(w) <= Len(v)>>)
=============================================================================
