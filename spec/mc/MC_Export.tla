------------------------------ MODULE MC_Export ------------------------------
(***************************************************************************)
(* Bounded model for C19 / C20: systems from the flow templates of the     *)
(* mass-balance model (names with spaces, arrows and punctuation that stay *)
(* distinct after file-name sanitising), all dimension schemes, stocks;    *)
(* Part "export": dictionary / CSV contents;  Part "sankey": every slice,  *)
(* exclusion and split setting;  Part "lines": 1-3 dimensional arrays with *)
(* every assignment of dimensions to the roles.                            *)
(***************************************************************************)
EXTENDS Integers, Sequences, FiniteSets, TLC, Json
CONSTANTS Part, Schemes, Emit, Deep        \* Deep (thorough tier): every non-empty subset of the flow templates, also with negative flows

MCCanon == <<"t", "r", "e">>
MCItemsOf == [t |-> <<1, 2>>, r |-> <<1, 2, 3>>, e |-> <<1, 2>>]
MCRootOf == [t |-> "t", r |-> "r", e |-> "e"]
INSTANCE Export WITH Canon <- MCCanon, ItemsOf <- MCItemsOf, RootOf <- MCRootOf

VARIABLES cfg, phase
vars == <<cfg, phase>>

GenG == [lab \in LabelingsOver({"t", "r", "e"}) |-> 1 + 6 * (lab["t"] - 1) + 2 * (lab["r"] - 1) + (lab["e"] - 1)]
AllF == {1, 2, 3, 4, 5}
TFrom == <<1, 2, 3, 2, 3>>
TTo   == <<2, 3, 1, 3, 2>>
TCoef == <<3, 2, 3, 1, 4>>
TName == <<"sysenv => use phase", "use phase => B", "B => sysenv", "use phase -> B", "B: back (to use)">>
FlowDimsOf(k) ==
    CASE k = 1 -> << <<"t","r">>, <<"t","r">>, <<"t","r">>, <<"t","r">>, <<"t","r">> >>
      [] k = 2 -> << <<"t","r">>, <<"r","t">>, <<"t","r","e">>, <<"e","r","t">>, <<"r","e">> >>
      [] k = 3 -> << <<"t">>, <<"e","t">>, <<"r">>, <<"r","e","t">>, <<>> >>
StockDimsOf(k) == CASE k = 1 -> << <<"t","r">>, <<"t","r">> >> [] k = 2 -> << <<"t","e","r">>, <<"t">> >> [] k = 3 -> << <<"t","r">>, <<"t","e">> >>
MkSys(fl, k, st) ==
    [procs |-> <<"sysenv", "use phase", "B">>, flows |-> fl, ffrom |-> TFrom, fto |-> TTo, fdims |-> FlowDimsOf(k), fcoef |-> TCoef,
     fname |-> TName, stocks |-> st, sproc |-> <<2, 0>>, sdims |-> StockDimsOf(k), sname |-> <<"in use (A)", "landfill - old">>,
     sin |-> <<2, 1>>, sout |-> <<1, 3>>, slevel |-> <<5, 2>>, g |-> GenG]
BaseSystems == {MkSys(fl, k, st) : fl \in {F \in SUBSET AllF : Cardinality(F) \in (IF Deep THEN 1..5 ELSE {2, 3, 5})}, k \in Schemes, st \in {{}, {1}, {1, 2}}}

\* ---- sankey settings
Slices == {<<>>} \cup {[l \in {"t"} |-> 2], [l \in {"r"} |-> 3], [l \in {"t", "e"} |-> IF l = "t" THEN 1 ELSE 2]}
SplitsFor(S, slice) ==      \* each flow may be split by one of its dimensions that is not sliced
    {<<>>} \cup UNION {{[g \in {f} |-> l] : l \in Range(S.fdims[f]) \ DOMAIN slice} : f \in S.flows}
\* systems with NEGATIVE flows (a net flow may run against its nominal direction): links carry the totals as they are
Negated(S) == [S EXCEPT !.fcoef = <<3, -2, 3, -1, 4>>]
\* the same system after its values were changed in place (all doubled): a plotter that is re-used shows the CURRENT numbers
Doubled(S) == [S EXCEPT !.fcoef = [i \in 1..5 |-> 2 * S.fcoef[i]]]
\* all values of the system doubled in place (flows and stocks): a second export into the SAME directory replaces the first
DoubledAll(S) == [Doubled(S) EXCEPT !.sin = [i \in 1..2 |-> 2 * S.sin[i]], !.sout = [i \in 1..2 |-> 2 * S.sout[i]],
                                    !.slevel = [i \in 1..2 |-> 2 * S.slevel[i]]]
Systems == BaseSystems \cup (IF Deep THEN {Negated(T) : T \in BaseSystems} ELSE {})
SankeySystems == {T \in Systems : T.stocks = {}} \cup {Negated(T) : T \in {U \in Systems : U.stocks = {} /\ Cardinality(U.flows) = 2}}
SankeyConfigs ==
    UNION {UNION {{[op |-> "sankey", sys |-> S, slice |-> sl, exclp |-> ep, exclf |-> ef, split |-> sp] :
                     ep \in {{1}, {}, {1, 3}, {2}}, ef \in {{}} \cup {{f} : f \in S.flows}, sp \in SplitsFor(S, sl)} : sl \in Slices}
           : S \in SankeySystems}

\* ---- line plots
LineDims == OrderedSubsets({"t", "r", "e"}) \ {<<>>}
LineConfigs ==
    UNION {{[op |-> "lines", ds |-> ds, intra |-> i, subplot |-> s, linecolor |-> c, byname |-> bn, xarr |-> xa, chart |-> ch] :
               i \in Range(ds), s \in {""} \cup Range(ds), c \in {""} \cup Range(ds), bn \in BOOLEAN, xa \in {"none", "same", "intra_only", "reversed"},
               ch \in {"line", "scatter", "area"}}
           : ds \in LineDims}
RolesOK(c) == /\ c.subplot # c.intra /\ c.linecolor # c.intra /\ (c.subplot = "" \/ c.subplot # c.linecolor)
              /\ Range(c.ds) = ({c.intra, c.subplot, c.linecolor} \ {""})          \* every dimension given exactly one role

Init == /\ phase = "done"
        /\ cfg \in (CASE Part = "export" -> {[op |-> "export", sys |-> S] : S \in Systems}
                      [] Part = "sankey" -> SankeyConfigs
                      [] Part = "lines"  -> {c \in LineConfigs : RolesOK(c)})
Next == UNCHANGED vars
Spec == Init /\ [][Next]_vars

SysJson(S) == [procs |-> S.procs,
               flows |-> {[id |-> f, name |-> S.fname[f], from |-> S.procs[S.ffrom[f]], to |-> S.procs[S.fto[f]],
                           dims |-> S.fdims[f], coef |-> S.fcoef[f]] : f \in S.flows},
               stocks |-> {[id |-> s, name |-> S.sname[s], process |-> IF S.sproc[s] = 0 THEN "" ELSE S.procs[S.sproc[s]], dims |-> S.sdims[s],
                            cin |-> S.sin[s], cout |-> S.sout[s], level |-> S.slevel[s]] : s \in S.stocks},
               g |-> {<<LabTuple(lab), S.g[lab]>> : lab \in DOMAIN S.g}]
FnJson(f) == {<<k, f[k]>> : k \in DOMAIN f}
\* (the slice of item 2 of r is entirely ZERO: a subplot / line without any non-zero entry is a subplot / line like any other)
LineVal(ds, lab) == IF "r" \in DOMAIN lab /\ lab["r"] = 2 THEN 0 ELSE 1 + 10 * (IF "t" \in DOMAIN lab THEN lab["t"] ELSE 0) + 3 * (IF "r" \in DOMAIN lab THEN lab["r"] ELSE 0) + 100 * (IF "e" \in DOMAIN lab THEN lab["e"] ELSE 0)
EmitInv == Emit =>
    PrintT(<<"VEC", ToJson(
        CASE cfg.op = "export" ->
               [op |-> "export", sys |-> SysJson(cfg.sys), dict |-> ExportDict(cfg.sys), dict_doubled |-> ExportDict(DoubledAll(cfg.sys)),
                csv_plain |-> CsvQuantities(cfg.sys, FALSE), csv_full |-> CsvQuantities(cfg.sys, TRUE)]
          [] cfg.op = "sankey" ->
               [op |-> "sankey", sys |-> SysJson(cfg.sys), slice |-> FnJson(cfg.slice), exclp |-> {cfg.sys.procs[p] : p \in cfg.exclp},
                exclf |-> {cfg.sys.fname[f] : f \in cfg.exclf}, split |-> {<<cfg.sys.fname[f], cfg.split[f]>> : f \in DOMAIN cfg.split},
                links |-> SankeyLinks(cfg.sys, cfg.slice, cfg.exclp, cfg.exclf, cfg.split), nodes |-> SankeyNodes(cfg.sys, cfg.exclp),
                links_doubled |-> SankeyLinks(Doubled(cfg.sys), cfg.slice, cfg.exclp, cfg.exclf, cfg.split)]
          [] cfg.op = "lines" ->
               [op |-> "lines", ds |-> cfg.ds, intra |-> cfg.intra, subplot |-> cfg.subplot, linecolor |-> cfg.linecolor,
                byname |-> cfg.byname, xarr |-> cfg.xarr, chart |-> cfg.chart,
                lines |-> Lines(cfg.ds, LAMBDA lab : LineVal(cfg.ds, lab), cfg.intra, cfg.subplot, cfg.linecolor)])>>)

\* theorems of the contract
Prop_C20 ==
    cfg.op = "sankey" =>
        LET L == SankeyLinks(cfg.sys, cfg.slice, cfg.exclp, cfg.exclf, cfg.split) IN
        \* never an excluded process or flow; the split links of a flow add up to its sliced total
        /\ \A k \in L : k[1] \notin {cfg.sys.procs[p] : p \in cfg.exclp} /\ k[2] \notin {cfg.sys.procs[p] : p \in cfg.exclp}
        /\ \A f \in DOMAIN cfg.split : f \in Shown(cfg.sys, cfg.exclp, cfg.exclf) =>
              MapThenSumSet(LAMBDA k : k[4], {k \in L : k[3][1] = "item" /\ k[1] = cfg.sys.procs[cfg.sys.ffrom[f]] /\ k[2] = cfg.sys.procs[cfg.sys.fto[f]]})
                 = SlicedTotal(cfg.sys, f, cfg.slice) \/ Cardinality({g \in DOMAIN cfg.split : TRUE}) > 1
Prop_C19 ==
    cfg.op = "export" =>
        /\ Cardinality(CsvQuantities(cfg.sys, FALSE)) = Cardinality(cfg.sys.flows) + Cardinality(cfg.sys.stocks)
        /\ Cardinality(CsvQuantities(cfg.sys, TRUE)) = Cardinality(cfg.sys.flows) + 3 * Cardinality(cfg.sys.stocks)
=============================================================================
