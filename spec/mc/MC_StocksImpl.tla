---------------------------- MODULE MC_StocksImpl ----------------------------
(***************************************************************************)
(* Bounded model for the L2 refinement: one configuration (grid, family,   *)
(* setting, parameters) and one algorithm variant per TLC run; the initial *)
(* states enumerate the class-specific drivers (unit impulses and seeded   *)
(* combinations, as in MC_Stocks).                                         *)
(***************************************************************************)
EXTENDS Integers, Sequences, FiniteSets, TLC
CONSTANTS G1, G2, G3, G4, G5, G6, MCNL, MCFamily, MCSetting, PrmKind, P0, PC, PL, MCVariant, MCClass, NCombos

MCGrid == SelectSeq(<<G1, G2, G3, G4, G5, G6>>, LAMBDA g : g # 0)
MCPrm8 == [c \in 1..Len(MCGrid) |-> [lab \in 1..MCNL |->
              P0 + (IF PrmKind \in {"cohort", "both"} THEN PC * (c - 1) ELSE 0)
                 + (IF PrmKind \in {"lab", "both"} THEN PL * (lab - 1) ELSE 0)]]
VARIABLES drv, pc, row, whole, inflow, stock, outflow, sbc, obc
NN == Len(MCGrid)
Impulse(t0, l0, v) == [t \in 1..NN |-> [lab \in 1..MCNL |-> IF t = t0 /\ lab = l0 THEN v ELSE 0]]
Combo(k) == [t \in 1..NN |-> [lab \in 1..MCNL |-> ((t * 3 + lab * 5 + k * 7) % 7) - 2]]
MCDrivers == {Impulse(t0, l0, v) : t0 \in 1..NN, l0 \in 1..MCNL, v \in {1, -2}} \cup {Combo(k) : k \in 1..NCombos}

I == INSTANCE StocksImpl WITH Grid <- MCGrid, NL <- MCNL, Family <- MCFamily, Setting <- MCSetting, Prm8 <- MCPrm8,
                              Variant <- MCVariant, Class <- MCClass, Drivers <- MCDrivers
Init == I!Init
Next == I!Next
Spec == Init /\ [][Next]_<<drv, pc, row, whole, inflow, stock, outflow, sbc, obc>>
Prop_Refines == I!Refines
Prop_ImplConserves == I!ImplConserves
Prop_RowsInOrder == I!RowsInOrder
=============================================================================
