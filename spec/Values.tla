------------------------------- MODULE Values -------------------------------
(***************************************************************************)
(* Value domains.                                                          *)
(*                                                                         *)
(* POLYNOMIALS.  "For ALL real values" is decided by executing the real    *)
(* flodym code on numpy object arrays whose entries are formal polynomials *)
(* and comparing, exactly, with the polynomial this module computes.       *)
(*                                                                         *)
(*   generator  g == <<k, t>>    k : array id (9 = "the plain number"),    *)
(*                               t : canonical label tuple (Universe!      *)
(*                               LabTuple); k < 0 denotes the formal       *)
(*                               inverse 1/<<-k, t>>                       *)
(*   monomial   m == a set of <<g, e>> pairs, e >= 1, distinct g           *)
(*   polynomial p == a set of <<m, c>> pairs, c # 0 integer, distinct m    *)
(*                                                                         *)
(* This is a normal form: two polynomials denote the same real function    *)
(* iff they are the same set (inverse generators are opaque, so no         *)
(* cancellation g * 1/g is ever needed by the modelled operations).        *)
(* Numbers are constant polynomials, so numeric and symbolic runs share    *)
(* every operator.                                                         *)
(*                                                                         *)
(* RATIONALS <<num, den>> in lowest terms with den > 0 are used where the  *)
(* operation is not polynomial (shares, stock models).                     *)
(***************************************************************************)
EXTENDS Integers, Sequences, FiniteSets, FiniteSetsExt, Folds

\* ------------------------------ polynomials ------------------------------
PZero == {}
MOne  == {}
PConst(c) == IF c = 0 THEN {} ELSE {<<MOne, c>>}
PGen(g) == {<< {<<g, 1>>}, 1 >>}
InvGen(g) == <<-g[1], g[2]>>

Monos(p) == {t[1] : t \in p}
Coef(p, m) == IF \E t \in p : t[1] = m THEN (CHOOSE t \in p : t[1] = m)[2] ELSE 0

PAdd(p, q) ==
    LET ms == Monos(p) \cup Monos(q)
    IN  {<<m, Coef(p, m) + Coef(q, m)>> : m \in {mm \in ms : Coef(p, mm) + Coef(q, mm) # 0}}
PNeg(p) == {<<t[1], -t[2]>> : t \in p}
PSub(p, q) == PAdd(p, PNeg(q))
PScale(c, p) == IF c = 0 THEN {} ELSE {<<t[1], c * t[2]>> : t \in p}

MGens(m) == {t[1] : t \in m}
MExp(m, g) == IF \E t \in m : t[1] = g THEN (CHOOSE t \in m : t[1] = g)[2] ELSE 0
MMul(m, n) == {<<g, MExp(m, g) + MExp(n, g)>> : g \in MGens(m) \cup MGens(n)}

PMul(p, q) ==
    LET prods == {<<MMul(s[1], t[1]), s, t>> : s \in p, t \in q}
        ms    == {x[1] : x \in prods}
        csum(m) == MapThenSumSet(LAMBDA x : x[2][2] * x[3][2], {x \in prods : x[1] = m})
    IN  {<<m, csum(m)>> : m \in {mm \in ms : csum(mm) # 0}}

\* sum of f(e) over a SET of indices e (never over a set of values: equal
\* values must be counted as often as they occur)
PSumOver(f(_), S) == FoldSet(LAMBDA e, acc : PAdd(f(e), acc), PZero, S)

IsConst(p) == p = {} \/ (Cardinality(p) = 1 /\ \A t \in p : t[1] = MOne)
ConstOf(p) == Coef(p, MOne)
IsSingleGen(p) == /\ Cardinality(p) = 1
                  /\ \A t \in p : t[2] = 1 /\ Cardinality(t[1]) = 1 /\ \A ge \in t[1] : ge[2] = 1
TheGen(p) == (CHOOSE ge \in (CHOOSE t \in p : TRUE)[1] : TRUE)[1]

\* p / q where every entry of the divisor is a single generator (then 1/g is
\* the fresh generator InvGen(g)) or a non-zero constant dividing all coefficients
PDivisible(p, q) == IsSingleGen(q) \/ (IsConst(q) /\ ConstOf(q) # 0 /\ \A t \in p : t[2] % ConstOf(q) = 0)
PDiv(p, q) == IF IsSingleGen(q) THEN PMul(p, PGen(InvGen(TheGen(q))))
              ELSE {<<t[1], t[2] \div ConstOf(q)>> : t \in p}

\* integer power of constants (numeric mode only); exponent must be >= 0
PPow(p, q) == PConst(ConstOf(p) ^ ConstOf(q))

(***************************************************************************)
(* Concolic evaluation for order-dependent, entry-wise operations          *)
(* (minimum, maximum, abs, sign).  A valuation maps generators to integers;*)
(* Nu is a fixed, fully specified pseudo-random family indexed by a seed   *)
(* and reproduced verbatim by the harness (harness/poly.py: nu).  The      *)
(* models enumerate several seeds so that both orders occur at an entry.   *)
(***************************************************************************)
RECURSIVE SeqCode(_, _)
SeqCode(t, i) == IF i > Len(t) THEN 0 ELSE t[i] * (2 * i + 1) + SeqCode(t, i + 1)
IAbs(n) == IF n < 0 THEN -n ELSE n
Nu(seed, g) == (((IAbs(g[1]) * 7 + SeqCode(g[2], 1) + 1) * (2 * seed + 3)) % 11) - 5

RECURSIVE IPow(_, _)
IPow(b, e) == IF e = 0 THEN 1 ELSE b * IPow(b, e - 1)
MEval(seed, m) == FoldSet(LAMBDA ge, acc : acc * IPow(Nu(seed, ge[1]), ge[2]), 1, m)
PEval(seed, p) == MapThenSumSet(LAMBDA t : t[2] * MEval(seed, t[1]), p)

\* ties go to the left operand (any choice is a correct minimum at a tie; the
\* harness accepts either operand when the two valuations coincide)
PMin(seed, p, q) == IF PEval(seed, p) <= PEval(seed, q) THEN p ELSE q
PMax(seed, p, q) == IF PEval(seed, p) >= PEval(seed, q) THEN p ELSE q
PAbs(seed, p) == IF PEval(seed, p) >= 0 THEN p ELSE PNeg(p)
ISign(n) == IF n > 0 THEN 1 ELSE IF n < 0 THEN -1 ELSE 0
PSign(seed, p) == PConst(ISign(PEval(seed, p)))

\* ------------------------------- rationals -------------------------------
RECURSIVE GCD(_, _)
GCD(a, b) == IF b = 0 THEN IAbs(a) ELSE GCD(b, a % b)
RNorm(n, d) == LET s == IF d < 0 THEN -1 ELSE 1
                   g == GCD(IAbs(n), IAbs(d))
               IN  IF n = 0 THEN <<0, 1>> ELSE <<(s * n) \div g, (s * d) \div g>>
RInt(n) == <<n, 1>>
RNaN == <<0, 0>>          \* "not a number": the only pair with denominator 0
RAdd(a, b) == RNorm(a[1] * b[2] + b[1] * a[2], a[2] * b[2])
RSub(a, b) == RNorm(a[1] * b[2] - b[1] * a[2], a[2] * b[2])
RMul(a, b) == RNorm(a[1] * b[1], a[2] * b[2])
RDiv(a, b) == RNorm(a[1] * b[2], a[2] * b[1])       \* b # 0
RNeg(a) == <<-a[1], a[2]>>
RLess(a, b) == a[1] * b[2] < b[1] * a[2]
RLeq(a, b) == a[1] * b[2] <= b[1] * a[2]
RIsZero(a) == a[1] = 0
RSumOver(f(_), S) == FoldSet(LAMBDA e, acc : RAdd(f(e), acc), RInt(0), S)
=============================================================================
