------------------------------ MODULE Lifecycle ------------------------------
(***************************************************************************)
(* L1 - a whole MODEL RUN as one state machine: build the system from its  *)
(* definition, fill / edit parameters, compute() (a straight-line program  *)
(* of flodym array expressions and stock computations), check the mass     *)
(* balance and the flows, export, edit, recompute, export again.           *)
(*                                                                         *)
(* It composes the contracts of the other modules at the level a user of   *)
(* the library works at:                                                   *)
(*   Arrays    - arithmetic by label, assignment keeps the target's dims   *)
(*               and sums the source by label            (C01, C05, C07)   *)
(*   Stocks    - inflow-driven dynamic stock model, flow-driven stock      *)
(*                                                       (C03, C09, C16)   *)
(*   MassBalance - which processes fail, which flows are flagged   (C02)   *)
(*   System    - what build() must produce                         (C18)   *)
(*   Export    - what an export contains                           (C19)   *)
(* and adds what none of them can state alone: compute() is a FUNCTION OF  *)
(* THE CURRENT parameters and lifetimes (C17 for stocks inside a system    *)
(* whose compute() runs repeatedly), checks and exports READ and never     *)
(* write (C15), an export is a snapshot of the values at that moment.      *)
(*                                                                         *)
(* Values are NaN-aware rationals <<num, den>> (den = 0: NaN).  The model  *)
(* M (the definition and the program) is data:                             *)
(*   procs  : sequence of names, procs[1] = "sysenv"                       *)
(*   params : sequence of [name, dims]                                     *)
(*   flows  : sequence of [name, from, to, dims]       (process indices)   *)
(*   stocks : sequence of [name, proc, dims, kind, setting]                *)
(*               proc 0 = none; dims start with "t"; kind "dsm" (inflow-   *)
(*               driven, fixed lifetime) | "sdsm" (stock-driven, fixed     *)
(*               lifetime) | "simple" (flow-driven)                        *)
(*   prog   : sequence of statements                                       *)
(*               [op |-> "flow", id, e]      flows[id][...] = e            *)
(*               [op |-> "sin",  id, e]      stocks[id].inflow[...] = e    *)
(*               [op |-> "sout", id, e]      stocks[id].outflow[...] = e   *)
(*               [op |-> "slev", id, e]      stocks[id].stock[...] = e     *)
(*               [op |-> "scompute", id]     stocks[id].compute()          *)
(*               [op |-> "flowkey", id, key, e]  flows[id][key] = e        *)
(*                   (key: sequence of <<letter, item>>: single items)     *)
(*   expression e : [op |-> "p" | "f" | "sin" | "sout" | "slev", id]       *)
(*               | [op |-> "mul" | "add" | "sub", a, b] | [op |-> "neg", a]*)
(*               | [op |-> "sumto", a, dims] | [op |-> "scale", a, k]      *)
(*               | [op |-> "get", a, key] | [op |-> "cumsum", a, l]        *)
(*               | [op |-> "rsub", k, a]              (the number k - a)   *)
(* The state is  [prm, flw, sin, sout, slev : sequences of arrays,         *)
(*                life8 : sequence of lifetimes in eighths of a year]      *)
(***************************************************************************)
EXTENDS Universe, Values, TLC

CONSTANT TGrid         \* the years of the time dimension "t" (items 1..N of letter "t")

\* ------------------------------------------------------------------ numbers
IsNaN(a) == a[2] = 0
NAdd(a, b) == IF IsNaN(a) \/ IsNaN(b) THEN RNaN ELSE RAdd(a, b)
NSub(a, b) == IF IsNaN(a) \/ IsNaN(b) THEN RNaN ELSE RSub(a, b)
NMul(a, b) == IF IsNaN(a) \/ IsNaN(b) THEN RNaN ELSE RMul(a, b)
NNeg(a) == IF IsNaN(a) THEN RNaN ELSE RNeg(a)
NSumOver(f(_), S) == FoldSet(LAMBDA e, acc : NAdd(f(e), acc), RInt(0), S)
RAbsV(a) == IF a[1] < 0 THEN RNeg(a) ELSE a

\* ------------------------------------------------------------------ arrays (the contract of Arrays.tla on these numbers)
\* (TLCEval: TLC keeps functions lazy; an array read many times - every flow of a program feeds the next - must be a table)
RA(ds, f(_)) == [dims |-> ds, val |-> TLCEval([lab \in Labelings(ds) |-> f(lab)])]
DimsOfA(x) == Range(x.dims)
RAt(x, lab) == x.val[RestrictTo(lab, DimsOfA(x))]
AZero(ds) == RA(ds, LAMBDA lab : RInt(0))
ASumTo(x, keep) == RA(keep, LAMBDA lab : NSumOver(LAMBDA f : x.val[f], Extensions(lab, DimsOfA(x))))
AMul(x, y) == RA(x.dims \o SeqMinus(y.dims, DimsOfA(x)), LAMBDA lab : NMul(RAt(x, lab), RAt(y, lab)))
AAdd(x, y) == LET ds == SubSeqBy(x.dims, DimsOfA(y))  sx == ASumTo(x, ds)  sy == ASumTo(y, ds)
              IN  RA(ds, LAMBDA lab : NAdd(sx.val[lab], sy.val[lab]))
ASub(x, y) == LET ds == SubSeqBy(x.dims, DimsOfA(y))  sx == ASumTo(x, ds)  sy == ASumTo(y, ds)
              IN  RA(ds, LAMBDA lab : NSub(sx.val[lab], sy.val[lab]))
ANeg(x) == RA(x.dims, LAMBDA lab : NNeg(x.val[lab]))
AScale(x, k) == RA(x.dims, LAMBDA lab : NMul(x.val[lab], k))
\* target[...] = x : the target keeps its dims, the source is summed by label over what the target lacks
Assignable(ds, x) == Range(ds) \subseteq DimsOfA(x)
Assigned(ds, x) == ASumTo(x, ds)
\* x[key] with single items: the addressed dimensions are dropped (C06); x[key] = src fills exactly the addressed region with
\* the source summed by label to the region's dimensions (C05); cumulative sum along a dimension in item order (C07)
KeyLetters(key) == {key[i][1] : i \in DOMAIN key}
KeyAt(key, l) == key[CHOOSE i \in DOMAIN key : key[i][1] = l][2]
KeyOKA(x, key) == KeyLetters(key) \subseteq DimsOfA(x) /\ \A i \in DOMAIN key : key[i][2] \in ItemSet(key[i][1])
RegionDims(ds, key) == SelectSeq(ds, LAMBDA l : l \notin KeyLetters(key))
AGet(x, key) == RA(RegionDims(x.dims, key),
                   LAMBDA lab : x.val[[l \in DimsOfA(x) |-> IF l \in KeyLetters(key) THEN KeyAt(key, l) ELSE lab[l]]])
ASetKey(x, key, src) ==
    LET rd == RegionDims(x.dims, key)
        sm == ASumTo(src, rd)
    IN  [dims |-> x.dims,
         val |-> TLCEval([full \in Labelings(x.dims) |->
                            IF \A l \in KeyLetters(key) : full[l] = KeyAt(key, l) THEN sm.val[RestrictTo(full, Range(rd))] ELSE x.val[full]])]
ACumSum(x, l) == RA(x.dims, LAMBDA lab : NSumOver(LAMBDA j : x.val[[lab EXCEPT ![l] = j]], 1..lab[l]))
ATotal(x) == NSumOver(LAMBDA lab : x.val[lab], Labelings(x.dims))
HasNaN(x) == \E lab \in Labelings(x.dims) : IsNaN(x.val[lab])

\* ------------------------------------------------------------------ expressions
RECURSIVE Eval(_, _)
Eval(st, e) ==
    CASE e.op = "p"    -> st.prm[e.id]
      [] e.op = "f"    -> st.flw[e.id]
      [] e.op = "sin"  -> st.sin[e.id]
      [] e.op = "sout" -> st.sout[e.id]
      [] e.op = "slev" -> st.slev[e.id]
      [] e.op = "mul"  -> AMul(Eval(st, e.a), Eval(st, e.b))
      [] e.op = "add"  -> AAdd(Eval(st, e.a), Eval(st, e.b))
      [] e.op = "sub"  -> ASub(Eval(st, e.a), Eval(st, e.b))
      [] e.op = "neg"  -> ANeg(Eval(st, e.a))
      [] e.op = "sumto" -> ASumTo(Eval(st, e.a), e.dims)
      [] e.op = "scale" -> AScale(Eval(st, e.a), RNorm(e.k[1], e.k[2]))
      [] e.op = "rsub"  -> LET x == Eval(st, e.a) IN RA(x.dims, LAMBDA lab : NSub(RNorm(e.k[1], e.k[2]), x.val[lab]))     \* k - x
      [] e.op = "get"   -> AGet(Eval(st, e.a), e.key)
      [] e.op = "cumsum" -> ACumSum(Eval(st, e.a), e.l)

\* ------------------------------------------------------------------ stocks
N == Len(TGrid)
TimeOf(ds) == ds[1]                      \* "t"
Rest(ds) == Tail(ds)
RestLabs(ds) == RowMajor(Rest(ds))       \* the label combinations of the other dimensions, numbered 1..NL
WithT(ds, t, rl) == [m \in Range(ds) |-> IF m = ds[1] THEN t ELSE rl[m]]

DSM(nl, setting, prm8) == INSTANCE Stocks WITH Grid <- TGrid, NL <- nl, Family <- "fixed", Setting <- setting, Prm8 <- prm8

\* inflow-driven model of stock s for the CURRENT inflow array and the CURRENT lifetime
DsmTables(M, st, s) ==
    LET ds   == M.stocks[s].dims
        labs == RestLabs(ds)
        nl   == Len(labs)
        rin  == [t \in 1..N |-> [k \in 1..nl |-> st.sin[s].val[WithT(ds, t, labs[k])]]]
        p8   == [c \in 1..N |-> [k \in 1..nl |-> st.life8[s]]]
        kOf(lab) == CHOOSE k \in 1..nl : labs[k] = RestrictTo(lab, Range(Rest(ds)))
    IN  [lev |-> RA(ds, LAMBDA lab : DSM(nl, M.stocks[s].setting, p8)!RStockOf(rin, lab[ds[1]], kOf(lab))),
         out |-> RA(ds, LAMBDA lab : DSM(nl, M.stocks[s].setting, p8)!ROutflow(rin, lab[ds[1]], kOf(lab)))]

\* stock-driven model of stock s for the CURRENT prescribed stock and lifetime: the inflow that reproduces it, and its outflow
SdsmTables(M, st, s) ==
    LET ds   == M.stocks[s].dims
        labs == RestLabs(ds)
        nl   == Len(labs)
        lev  == [t \in 1..N |-> [k \in 1..nl |-> st.slev[s].val[WithT(ds, t, labs[k])]]]
        p8   == [c \in 1..N |-> [k \in 1..nl |-> st.life8[s]]]
        rin  == [t \in 1..N |-> [k \in 1..nl |-> DSM(nl, M.stocks[s].setting, p8)!SInflow(lev, t, k)]]
        kOf(lab) == CHOOSE k \in 1..nl : labs[k] = RestrictTo(lab, Range(Rest(ds)))
    IN  [inf |-> RA(ds, LAMBDA lab : rin[lab[ds[1]]][kOf(lab)]),
         out |-> RA(ds, LAMBDA lab : DSM(nl, M.stocks[s].setting, p8)!ROutflow(rin, lab[ds[1]], kOf(lab)))]
SdsmSolvable(M, st, s) ==
    LET nl == Len(RestLabs(M.stocks[s].dims))
    IN  DSM(nl, M.stocks[s].setting, [c \in 1..N |-> [k \in 1..nl |-> st.life8[s]]])!Solvable

TG == INSTANCE TimeGrid WITH Grid <- TGrid
DtOf(t) == RNorm(TG!DT2(t), 2)
\* flow-driven stock: cumulated net inflow over whole periods
SimpleLevel(M, st, s) ==
    LET ds == M.stocks[s].dims IN
    RA(ds, LAMBDA lab : NSumOver(LAMBDA u : NMul(DtOf(u), NSub(st.sin[s].val[[lab EXCEPT ![ds[1]] = u]],
                                                                  st.sout[s].val[[lab EXCEPT ![ds[1]] = u]])),
                                 1..lab[ds[1]]))

\* ------------------------------------------------------------------ compute(): the program, statement by statement
Step(M, st, stmt) ==
    CASE stmt.op = "flow" -> [st EXCEPT !.flw[stmt.id] = Assigned(M.flows[stmt.id].dims, Eval(st, stmt.e))]
      [] stmt.op = "sin"  -> [st EXCEPT !.sin[stmt.id] = Assigned(M.stocks[stmt.id].dims, Eval(st, stmt.e))]
      [] stmt.op = "sout" -> [st EXCEPT !.sout[stmt.id] = Assigned(M.stocks[stmt.id].dims, Eval(st, stmt.e))]
      [] stmt.op = "slev" -> [st EXCEPT !.slev[stmt.id] = Assigned(M.stocks[stmt.id].dims, Eval(st, stmt.e))]
      [] stmt.op = "flowkey" -> [st EXCEPT !.flw[stmt.id] = ASetKey(st.flw[stmt.id], stmt.key, Eval(st, stmt.e))]
      [] stmt.op = "scompute" ->
            IF M.stocks[stmt.id].kind = "dsm"
            THEN LET tb == DsmTables(M, st, stmt.id) IN [st EXCEPT !.slev[stmt.id] = tb.lev, !.sout[stmt.id] = tb.out]
            ELSE IF M.stocks[stmt.id].kind = "sdsm"
            THEN LET tb == SdsmTables(M, st, stmt.id) IN [st EXCEPT !.sin[stmt.id] = tb.inf, !.sout[stmt.id] = tb.out]
            ELSE [st EXCEPT !.slev[stmt.id] = SimpleLevel(M, st, stmt.id)]

RECURSIVE RunFrom(_, _, _)
RunFrom(M, st, k) == IF k > Len(M.prog) THEN st ELSE RunFrom(M, Step(M, st, M.prog[k]), k + 1)
Compute(M, st) == RunFrom(M, st, 1)

\* every statement is well-formed: the source has every dimension of its target (else the library must refuse it)
RECURSIVE WellFormedFrom(_, _, _)
WellFormedFrom(M, st, k) ==
    IF k > Len(M.prog) THEN TRUE
    ELSE LET stmt == M.prog[k]
             tgt  == IF stmt.op \in {"flow", "flowkey"} THEN M.flows[stmt.id].dims ELSE M.stocks[stmt.id].dims
         IN  /\ stmt.op \notin {"scompute", "flowkey"} => Assignable(tgt, Eval(st, stmt.e))
             /\ stmt.op = "flowkey" => /\ KeyOKA(st.flw[stmt.id], stmt.key)
                                        /\ Assignable(RegionDims(tgt, stmt.key), Eval(st, stmt.e))
             /\ (stmt.op = "scompute" /\ M.stocks[stmt.id].kind = "sdsm") => SdsmSolvable(M, st, stmt.id)
             /\ WellFormedFrom(M, Step(M, st, stmt), k + 1)

\* ------------------------------------------------------------------ the built system (C18) as a state
Built(M, prm0, life0) ==
    [prm  |-> prm0,
     flw  |-> [f \in DOMAIN M.flows |-> AZero(M.flows[f].dims)],
     sin  |-> [s \in DOMAIN M.stocks |-> AZero(M.stocks[s].dims)],
     sout |-> [s \in DOMAIN M.stocks |-> AZero(M.stocks[s].dims)],
     slev |-> [s \in DOMAIN M.stocks |-> AZero(M.stocks[s].dims)],
     life8 |-> life0]

\* ------------------------------------------------------------------ mass balance and flow checks (C02) on a state
Contrib(M, p) ==
         {<<1, "flow", f>> : f \in {q \in DOMAIN M.flows : M.flows[q].to = p}}
    \cup {<<-1, "flow", f>> : f \in {q \in DOMAIN M.flows : M.flows[q].from = p}}
    \cup {<<-1, "stock", s>> : s \in {u \in DOMAIN M.stocks : M.stocks[u].proc = p}}
    \cup (IF p = 1 THEN {<<2, "stock", s>> : s \in {u \in DOMAIN M.stocks : M.stocks[u].proc # 0}} ELSE {})
CLetters(M, c) == IF c[2] = "flow" THEN Range(M.flows[c[3]].dims) ELSE Range(M.stocks[c[3]].dims)
CValAt(M, st, c, full) ==
    LET raw == IF c[2] = "flow" THEN st.flw[c[3]].val[full] ELSE NSub(st.sin[c[3]].val[full], st.sout[c[3]].val[full])
    IN  IF c[1] < 0 THEN NNeg(raw) ELSE raw
CommonL(M, p) == IF Contrib(M, p) = {} THEN {} ELSE {l \in BaseLetters : \A c \in Contrib(M, p) : l \in CLetters(M, c)}
Balance(M, st, p, lab) ==
    NSumOver(LAMBDA c : NSumOver(LAMBDA full : CValAt(M, st, c, full), Extensions(lab, CLetters(M, c))), Contrib(M, p))

\* tolerance modes: "strict" - every non-zero residual counts (the default tolerance, or tolerance 0, on values that are
\* exact in floating point); "half" - the explicit tolerance 1/2.  A NaN is never within a tolerance.
Exceeds(v, mode) == IsNaN(v) \/ (IF mode = "half" THEN RLess(<<1, 2>>, RAbsV(v)) ELSE v[1] # 0)
Failing(M, st, mode) == {p \in DOMAIN M.procs : \E lab \in LabelingsOver(CommonL(M, p)) : Exceeds(Balance(M, st, p, lab), mode)}
Flagged(M, st, exc) == {f \in DOMAIN M.flows : M.flows[f].name \notin exc /\
                           \E lab \in Labelings(M.flows[f].dims) : IsNaN(st.flw[f].val[lab]) \/ st.flw[f].val[lab][1] < 0}

\* ------------------------------------------------------------------ the Sankey diagram of a state (C20)
\*   slice: sequence of <<letter, item>>; exclP: set of process names; exclF: set of flow names;
\*   split: sequence of <<flow name, letter>> (the flow is drawn as one link per item of that dimension)
\* one link per shown flow - or per item of its split dimension - valued with the flow's total over the entries the slice selects,
\* running from the node of its source process to the node of its target process
SankeyNodes(M, exclP) == SelectSeq(M.procs, LAMBDA p : p \notin exclP)
SankeyShown(M, exclP, exclF) ==
    {f \in DOMAIN M.flows : M.flows[f].name \notin exclF /\ M.procs[M.flows[f].from] \notin exclP /\ M.procs[M.flows[f].to] \notin exclP}
MatchesSlice(lab, slice) == \A i \in DOMAIN slice : slice[i][1] \in DOMAIN lab => lab[slice[i][1]] = slice[i][2]
SankeyLinks(M, st, slice, exclP, exclF, split) ==
    UNION {LET fl == M.flows[f]
               sel == {lab \in Labelings(fl.dims) : MatchesSlice(lab, slice)}
           IN  IF \E i \in DOMAIN split : split[i][1] = fl.name
               THEN LET l == split[CHOOSE i \in DOMAIN split : split[i][1] = fl.name][2]
                    IN  {<<M.procs[fl.from], M.procs[fl.to], "item", "", it,
                           NSumOver(LAMBDA lab : st.flw[f].val[lab], {lab \in sel : lab[l] = it})>> : it \in ItemSet(l)}
               ELSE {<<M.procs[fl.from], M.procs[fl.to], "flow", fl.name, 0, NSumOver(LAMBDA lab : st.flw[f].val[lab], sel)>>}
           : f \in SankeyShown(M, exclP, exclF)}

\* line plot of an array (C20): one line per (subplot item, line item); its y-data are the entries along `intra` in item order,
\* its x-data that dimension's items.  A line is <<subplot item (0: none), line item (0: none), x items, y values>>
PlotLines(x, intra, sub, col) ==
    LET subs == IF sub = "" THEN {0} ELSE ItemSet(sub)
        cols == IF col = "" THEN {0} ELSE ItemSet(col)
        labOf(s, c, i) == [l \in DimsOfA(x) |-> IF l = intra THEN i ELSE IF l = sub THEN s ELSE c]
    IN  {<<s, c, ItemsOf[intra], [k \in 1..DLen(intra) |-> x.val[labOf(s, c, ItemsOf[intra][k])]]>> : s \in subs, c \in cols}

\* ------------------------------------------------------------------ theorems of the composed contract
AnyNaN(M, st) == \/ \E f \in DOMAIN M.flows : HasNaN(st.flw[f])
                 \/ \E s \in DOMAIN M.stocks : HasNaN(st.sin[s]) \/ HasNaN(st.sout[s])
\* every flow is booked once with + and once with -, every stock change once with - and once (on sysenv) with +
MirrorLaw(M, st) ==
    AnyNaN(M, st) \/
    NSumOver(LAMBDA p : NSumOver(LAMBDA lab : Balance(M, st, p, lab), LabelingsOver(CommonL(M, p))), DOMAIN M.procs) = RInt(0)
\* compute() is a function of the parameters and lifetimes alone: whatever the flows and stocks held before
ComputeForgets(M, st) == Compute(M, Compute(M, st)) = Compute(M, st)
\* a computed dynamic stock conserves mass: level change = interval length x (inflow - outflow)
StockConserves(M, st, s) ==
    LET ds == M.stocks[s].dims IN
    \A lab \in Labelings(ds) :
        NSub(st.slev[s].val[lab], IF lab[ds[1]] = 1 THEN RInt(0) ELSE st.slev[s].val[[lab EXCEPT ![ds[1]] = lab[ds[1]] - 1]])
          = NMul(DtOf(lab[ds[1]]), NSub(st.sin[s].val[lab], st.sout[s].val[lab]))
=============================================================================
