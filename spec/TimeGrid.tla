------------------------------ MODULE TimeGrid ------------------------------
(***************************************************************************)
(* L1 - the documented time discretisation (C03, C08, C09, C10, C16).      *)
(*                                                                         *)
(* Time items Grid[1] < ... < Grid[N], N >= 3.  Interval bounds lie at the *)
(* midpoints between consecutive items; the first and the last interval    *)
(* mirror their neighbour (have the neighbour's length).  Everything is    *)
(* kept in DOUBLED integer units so that midpoints are exact:              *)
(*      bound(i)  = B2(i) / 2,  i = 1..N+1                                 *)
(*      dt(i)     = DT2(i) / 2, i = 1..N      (length of interval i)       *)
(* Ages are needed at quarter positions of an interval (start, middle,     *)
(* end), hence in EIGHTHS: Age8(t, c, e) / 8 is the age at the END of      *)
(* interval t of something that entered interval c at the relative         *)
(* position e/4 (e = 0 start, 2 middle, 4 end).                            *)
(***************************************************************************)
EXTENDS Integers, Sequences

CONSTANT Grid
N == Len(Grid)
ASSUME GridOK == N >= 3 /\ \A i \in 1..(N - 1) : Grid[i] < Grid[i + 1]

Mid2(i) == Grid[i] + Grid[i + 1]                      \* i \in 1..N-1, doubled midpoint
B2(i) == IF i = 1 THEN 2 * Mid2(1) - Mid2(2)
         ELSE IF i = N + 1 THEN 2 * Mid2(N - 1) - Mid2(N - 2)
         ELSE Mid2(i - 1)
DT2(i) == B2(i + 1) - B2(i)

Age8(t, c, e) == 4 * B2(t + 1) - (e * B2(c + 1) + (4 - e) * B2(c))

\* shifting every time item by a constant changes neither lengths nor ages
ShiftInvariantDef(k) ==
    LET g2 == [i \in 1..N |-> Grid[i] + k]
        m2(i) == g2[i] + g2[i + 1]
        b2(i) == IF i = 1 THEN 2 * m2(1) - m2(2) ELSE IF i = N + 1 THEN 2 * m2(N - 1) - m2(N - 2) ELSE m2(i - 1)
    IN  \A i \in 1..N : b2(i + 1) - b2(i) = DT2(i)
=============================================================================
