------------------------------- MODULE Tables -------------------------------
(***************************************************************************)
(* L1 - DataFrame export and import (C11, C12).                            *)
(*                                                                         *)
(* An array over dims ds is rendered as a TABLE in a LAYOUT:               *)
(*   long  : one row per labeling, one value cell                          *)
(*   wide l: one row per labeling of ds without l, one value cell per item *)
(*           of l (the column headers are l's items)                       *)
(* A row is [lab |-> labeling of the row dimensions (0 = an item unknown   *)
(* to the dimension), cells |-> sequence of values (Blank = empty / NaN)]. *)
(* Everything else of a layout (index vs columns, header spelling name /   *)
(* letter / anonymous, value-column name, row and column order, CSV round  *)
(* trip, repeated row-index labels) does not change the CONTENT; the       *)
(* models enumerate it and the harness concretises it as a pandas frame.   *)
(*                                                                         *)
(* FAULTS edit the content: DropRow, DupRow (optionally with another       *)
(* value), Relabel (an unknown item), BlankCell, DropCol, AddValueCol,     *)
(* AddItemCol.  Outcome says what import must do with the result.          *)
(***************************************************************************)
EXTENDS Universe, Values, TLC

Blank == -999999

\* value of the entry at a labeling: a distinct positive integer (the harness adds .25 so that values can never
\* be mistaken for integer items)
EntryVal(ds, lab) == 1 + IndexOf(RowMajor(ds), lab)

RowDims(ds, wide) == IF wide = "" THEN ds ELSE SeqMinus(ds, {wide})
Render(ds, wide) ==
    LET rd == RowDims(ds, wide)  rm == RowMajor(rd) IN
    [i \in DOMAIN rm |->
        [lab |-> rm[i],
         cells |-> IF wide = "" THEN <<EntryVal(ds, rm[i])>>
                   ELSE [j \in 1..DLen(wide) |->
                           EntryVal(ds, [l \in Range(ds) |-> IF l = wide THEN ItemsOf[wide][j] ELSE rm[i][l]])]]]

\* ---- faults on a table state T = [rows, dropped, extraval, extraitem]
DropRow(T, i) == [T EXCEPT !.rows = SubSeq(T.rows, 1, i - 1) \o SubSeq(T.rows, i + 1, Len(T.rows))]
DupRow(T, i, other) ==      \* other: TRUE = the copy carries different values
    [T EXCEPT !.rows = Append(T.rows, IF other THEN [T.rows[i] EXCEPT !.cells = [j \in DOMAIN T.rows[i].cells |-> 77 + j]]
                                               ELSE T.rows[i])]
Relabel(T, i, l) == [T EXCEPT !.rows[i].lab[l] = 0]
BlankCell(T, i, j) == [T EXCEPT !.rows[i].cells[j] = Blank]
DropCol(T, l) == [T EXCEPT !.dropped = T.dropped \cup {l}]
AddValueCol(T) == [T EXCEPT !.extraval = TRUE]
AddItemCol(T) == [T EXCEPT !.extraitem = TRUE]

(***************************************************************************)
(* Content of a (possibly faulty) table: the entries it holds              *)
(***************************************************************************)
FullLab(ds, wide, row, j) ==
    [l \in Range(ds) |-> IF l = wide THEN ItemsOf[wide][j] ELSE row.lab[l]]
Entries(ds, wide, T) ==     \* set of <<row index, cell index, full labeling, value>>
    UNION {{<<i, j, FullLab(ds, wide, T.rows[i], j), T.rows[i].cells[j]>> : j \in DOMAIN T.rows[i].cells} : i \in DOMAIN T.rows}
Unknown(lab) == \E l \in DOMAIN lab : lab[l] = 0

(***************************************************************************)
(* C12 - what import must do.  flags = [missing, extra] (the allow_ flags)  *)
(*   "error"  : must raise, and a target array must be left untouched      *)
(*   "array"  : must return exactly Result                                 *)
(*   "either" : the statement does not decide; raising or returning exactly *)
(*              Result are both fine - anything else is a violation        *)
(* anonIncomplete: some dimension is identified only through its items and  *)
(* the faults removed one of its items from the table (then the column can  *)
(* no longer be recognised).                                                *)
(***************************************************************************)
Outcome(ds, wide, T, flags, anon) ==
    LET es     == Entries(ds, wide, T)
        known  == {e \in es : ~Unknown(e[3])}
        unk    == {e \in es : Unknown(e[3])}
        used   == IF flags.extra THEN known ELSE es
        dups   == \E e1, e2 \in used : e1 # e2 /\ e1[3] = e2[3] /\ ~Unknown(e1[3])
        dupsIgnored == \E e1, e2 \in unk : e1 # e2 /\ e1[3] = e2[3]
        missing == \E lab \in Labelings(ds) : ~\E e \in known : e[3] = lab
        blank  == \E e \in known : e[4] = Blank
        anonIncomplete == \E l \in anon : \E it \in ItemSet(l) : ~\E e \in es : e[3][l] = it
        anonUnknown == \E l \in anon : \E e \in es : e[3][l] = 0
        dropMulti == \E l \in T.dropped : DLen(l) > 1
    IN
    IF dropMulti \/ T.extraval THEN "error"
    ELSE IF T.extraitem THEN (IF flags.extra THEN "either" ELSE "error")
    ELSE IF anonUnknown THEN (IF flags.extra THEN "either" ELSE "error")
    ELSE IF dups THEN "error"
    ELSE IF unk # {} /\ ~flags.extra THEN "error"
    ELSE IF (missing \/ blank) /\ ~flags.missing THEN "error"
    ELSE IF anonIncomplete THEN "either"
    ELSE IF dupsIgnored THEN "either"
    ELSE "array"

\* the array that results: every present, known, non-blank entry under its labels; everything else zero
Result(ds, wide, T) ==
    LET known == {e \in Entries(ds, wide, T) : ~Unknown(e[3])} IN
    [lab \in Labelings(ds) |->
        IF \E e \in known : e[3] = lab /\ e[4] # Blank
        THEN (CHOOSE e \in known : e[3] = lab /\ e[4] # Blank)[4]
        ELSE 0]

(***************************************************************************)
(* C11 - export: to_df lists every entry once under its true labels       *)
(* (sparse: exactly the non-zero entries)                                  *)
(***************************************************************************)
ToDfRows(ds, valOf(_), sparse) ==
    {<<lab, valOf(lab)>> : lab \in {q \in Labelings(ds) : ~sparse \/ valOf(q) # 0}}
=============================================================================
