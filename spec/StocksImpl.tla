----------------------------- MODULE StocksImpl -----------------------------
(***************************************************************************)
(* L2 - the dynamic stock models written the way flodym/stocks.py computes *)
(* them, as a step-by-step state machine, and the refinement theorem that  *)
(* the tables it ends with are the contract's (spec/Stocks.tla).           *)
(*                                                                         *)
(* The code works on WHOLE-PERIOD inflows:                                 *)
(*    _to_whole_period(x)[t] = x[t] * dt[t]      _to_annual(x)[t] = x[t] / dt[t]        *)
(*    inflow-driven:  sbc[t,c] = whole[c] * sf[t,c];  stock[t] = sum_c sbc[t,c]         *)
(*    outflow:        obc[t,c] = (whole[c] * pdf[t,c]) / dt[t];  outflow[t] = sum_c     *)
(*    stock-driven ("manual"): for i = 1..N in this order                               *)
(*                    whole[i] = (stock[i] - sum_{j<i} sf[i,j] * whole[j]) / sf[i,i]    *)
(*                    inflow = whole / dt;  then sbc and the outflow as above           *)
(* One action per pipeline stage (pc), the forward substitution one action *)
(* per row - this is where the order of evaluation matters.                *)
(*                                                                         *)
(* Variant selects the algorithm:                                          *)
(*   "current"      - the code as it is now                                *)
(*   "pre_F6"       - outflow from the ANNUAL inflow of the cohort         *)
(*                    (obc[t,c] = inflow[c] * pdf[t,c])                    *)
(*   "pre_F7"       - stock-driven sbc from the annual inflow              *)
(* TLC must prove Refines for "current" and refute it for the other two on *)
(* every uneven grid (they coincide with the contract on unit grids: that  *)
(* is why the repository's tests did not see them).                        *)
(***************************************************************************)
EXTENDS Stocks, TLC

CONSTANTS Variant,    \* "current" | "pre_F6" | "pre_F7"
          Class,      \* "inflow" | "stock"
          Drivers     \* set of drivers [1..N -> [Labs -> Int]]: the inflow (inflow-driven) or the prescribed stock

VARIABLES drv,        \* the driver of this behaviour (never changes)
          pc,         \* pipeline stage
          row,        \* next row of the forward substitution
          whole,      \* whole-period inflow per (cohort, label)      [rational]
          inflow, stock, outflow, sbc, obc
ivars == <<drv, pc, row, whole, inflow, stock, outflow, sbc, obc>>

Z1 == [t \in 1..N |-> [lab \in Labs |-> RInt(0)]]
Z2 == [t \in 1..N |-> [c \in 1..N |-> [lab \in Labs |-> RInt(0)]]]
RDrv == [t \in 1..N |-> [lab \in Labs |-> RInt(drv[t][lab])]]

ToWhole(x) == [t \in 1..N |-> [lab \in Labs |-> RMul(x[t][lab], DtR(t))]]
ToAnnual(x) == [t \in 1..N |-> [lab \in Labs |-> RDiv(x[t][lab], DtR(t))]]

Init == /\ drv \in Drivers
        /\ pc = IF Class = "inflow" THEN "stock_by_cohort" ELSE "solve"
        /\ row = 1
        /\ whole = IF Class = "inflow" THEN ToWhole(RDrv) ELSE Z1
        /\ inflow = IF Class = "inflow" THEN RDrv ELSE Z1
        /\ stock = IF Class = "stock" THEN RDrv ELSE Z1
        /\ outflow = Z1 /\ sbc = Z2 /\ obc = Z2

\* ---- stock-driven: one row of the forward substitution per step (rows must be taken in increasing order:
\*      row i reads whole[j] for j < i)
SolveRow ==
    /\ pc = "solve" /\ row <= N
    /\ whole' = [whole EXCEPT ![row] = [lab \in Labs |->
                    IF RIsZero(SF(row, row, lab)) THEN RNaN
                    ELSE RDiv(RSub(stock[row][lab],
                                   RSumOver(LAMBDA j : RMul(SF(row, j, lab), whole[j][lab]), 1..(row - 1))),
                              SF(row, row, lab))]]
    /\ row' = row + 1
    /\ UNCHANGED <<drv, pc, inflow, stock, outflow, sbc, obc>>
SolveDone ==
    /\ pc = "solve" /\ row = N + 1
    /\ inflow' = ToAnnual(whole)
    /\ pc' = "stock_by_cohort"
    /\ UNCHANGED <<drv, row, whole, stock, outflow, sbc, obc>>

\* ---- stock by cohort (both classes), the stock itself only for the inflow-driven class
CohortSource(c, lab) == IF Variant = "pre_F7" /\ Class = "stock" THEN inflow[c][lab] ELSE RMul(inflow[c][lab], DtR(c))
StockByCohort ==
    /\ pc = "stock_by_cohort"
    /\ sbc' = [t \in 1..N |-> [c \in 1..N |-> [lab \in Labs |-> RMul(CohortSource(c, lab), SF(t, c, lab))]]]
    /\ stock' = IF Class = "inflow"
                THEN [t \in 1..N |-> [lab \in Labs |-> RSumOver(LAMBDA c : RMul(CohortSource(c, lab), SF(t, c, lab)), 1..N)]]
                ELSE stock
    /\ pc' = "outflow"
    /\ UNCHANGED <<drv, row, whole, inflow, outflow, obc>>

\* ---- outflow by cohort and outflow
OutSource(t, c, lab) ==
    IF Variant = "pre_F6" THEN RMul(inflow[c][lab], PDF(t, c, lab))
    ELSE RDiv(RMul(RMul(inflow[c][lab], DtR(c)), PDF(t, c, lab)), DtR(t))
Outflow ==
    /\ pc = "outflow"
    /\ obc' = [t \in 1..N |-> [c \in 1..N |-> [lab \in Labs |-> OutSource(t, c, lab)]]]
    /\ outflow' = [t \in 1..N |-> [lab \in Labs |-> RSumOver(LAMBDA c : OutSource(t, c, lab), 1..N)]]
    /\ pc' = "done"
    /\ UNCHANGED <<drv, row, whole, inflow, stock, sbc>>

Next == SolveRow \/ SolveDone \/ StockByCohort \/ Outflow
ImplSpec == Init /\ [][Next]_ivars

\* ---- refinement: the final tables are the contract's
ContractInflow(t, lab) == IF Class = "inflow" THEN RInt(drv[t][lab]) ELSE SInflow(RDrv, t, lab)
CIn == [t \in 1..N |-> [lab \in Labs |-> ContractInflow(t, lab)]]
Refines ==
    pc = "done" =>
      \A lab \in {l \in Labs : Class = "inflow" \/ SolvableLab(l)} : \A t \in 1..N :
        /\ inflow[t][lab] = ContractInflow(t, lab)
        /\ stock[t][lab] = RStockOf(CIn, t, lab)
        /\ outflow[t][lab] = ROutflow(CIn, t, lab)
        /\ \A c \in 1..N : sbc[t][c][lab] = RSbc(CIn, t, c, lab) /\ obc[t][c][lab] = RObc(CIn, t, c, lab)
\* and mass is conserved by what the implementation ends with (C03), cohorts add up (C09)
ImplConserves ==
    pc = "done" => \A lab \in {l \in Labs : Class = "inflow" \/ SolvableLab(l)} : \A t \in 1..N :
        /\ RSub(stock[t][lab], IF t = 1 THEN RInt(0) ELSE stock[t - 1][lab]) = RMul(DtR(t), RSub(inflow[t][lab], outflow[t][lab]))
        /\ stock[t][lab] = RSumOver(LAMBDA c : sbc[t][c][lab], 1..N)
\* the substitution only ever reads rows it has already written
RowsInOrder == pc = "solve" => \A j \in row..N : \A lab \in Labs : whole[j][lab] = RInt(0)
=============================================================================
