------------------------------ MODULE Lifetime ------------------------------
(***************************************************************************)
(* L1 - survival and outflow-probability tables (C08).                     *)
(*                                                                         *)
(*   sf(t, c, lab)  = sum over the quadrature points q of the setting of   *)
(*                    w_q * S(age(t, c, eta_q); prm(c, lab))   for t >= c, *)
(*                    0 for t < c                                          *)
(*   pdf(c, c, lab) = 1 - sf(c, c, lab);                                   *)
(*   pdf(t, c, lab) = sf(t-1, c, lab) - sf(t, c, lab)  for t > c, else 0   *)
(*                                                                         *)
(* The parameter that applies is the one of the COHORT c and of the LABEL  *)
(* combination lab - whatever order the parameter array stores its dims.   *)
(*                                                                         *)
(* S is decided exactly by TLC for two families with rational values:      *)
(*   "fixed": S(a; m) = 1 if a < m else 0          (flodym.FixedLifetime)  *)
(*   "step" : S(a; p) = 1, 1/2, 1/4, 0 for floor(a/p) = 0, 1, 2, >= 3      *)
(*            (a harness-side LifetimeModel subclass: exercises the shared *)
(*            machinery - ages, quadrature, tiling, parameter casting)     *)
(* and for the settings with rational nodes: start / middle / end and the  *)
(* 2- and 3-point Gauss-Lobatto rules.  For the scipy-based distributions  *)
(* and the rules with irrational nodes the module fixes the STRUCTURE      *)
(* (AgeTerm): which age, cohort and parameter entry enter each cell.       *)
(***************************************************************************)
EXTENDS TimeGrid, Values

CONSTANTS NL,        \* number of label combinations of the non-time dimensions
          Family,    \* "fixed" | "step"
          Setting,   \* "start" | "middle" | "end" | "gl2" | "gl3"
          Prm8       \* parameter in eighths: function [1..N -> [1..NL -> Int]] (cohort, label)

Labs == 1..NL
\* <<e, weight numerator, weight denominator>>
Rule == CASE Setting = "start"  -> << <<0, 1, 1>> >>
          [] Setting = "middle" -> << <<2, 1, 1>> >>
          [] Setting = "end"    -> << <<4, 1, 1>> >>
          [] Setting = "gl2"    -> << <<0, 1, 2>>, <<4, 1, 2>> >>
          [] Setting = "gl3"    -> << <<0, 1, 6>>, <<2, 4, 6>>, <<4, 1, 6>> >>

S8(age8, p8) ==
    IF Family = "fixed" THEN (IF age8 < p8 THEN RInt(1) ELSE RInt(0))
    ELSE LET k == age8 \div p8
         IN  IF k = 0 THEN RInt(1) ELSE IF k = 1 THEN <<1, 2>> ELSE IF k = 2 THEN <<1, 4>> ELSE RInt(0)

SF(t, c, lab) ==
    IF t < c THEN RInt(0)
    ELSE RSumOver(LAMBDA q : RMul(<<Rule[q][2], Rule[q][3]>>, S8(Age8(t, c, Rule[q][1]), Prm8[c][lab])), DOMAIN Rule)

PDF(t, c, lab) ==
    IF t < c THEN RInt(0)
    ELSE IF t = c THEN RSub(RInt(1), SF(c, c, lab))
    ELSE RSub(SF(t - 1, c, lab), SF(t, c, lab))

\* structure for families TLC cannot evaluate: the age of cell (t, c) at node eta is
\*   A2(t, c)/2 - eta * L2(c)/2      with the parameter entry (c, lab)
A2(t, c) == B2(t + 1) - B2(c)
L2(c) == DT2(c)

(***************************************************************************)
(* C08: validity of a table                                                *)
(***************************************************************************)
TableValid ==
    \A lab \in Labs : \A c \in 1..N :
        /\ \A t \in 1..N : t < c => SF(t, c, lab) = RInt(0) /\ PDF(t, c, lab) = RInt(0)
        /\ \A t \in c..N :
              /\ RLeq(RInt(0), SF(t, c, lab)) /\ RLeq(SF(t, c, lab), RInt(1))
              /\ RLeq(RInt(0), PDF(t, c, lab))
              /\ t > c => RLeq(SF(t, c, lab), SF(t - 1, c, lab))
              /\ RAdd(SF(t, c, lab), RSumOver(LAMBDA u : PDF(u, c, lab), c..t)) = RInt(1)
=============================================================================
