----------------------------- MODULE StockObject -----------------------------
(***************************************************************************)
(* C17 - recomputing a stock reflects its CURRENT inputs only.             *)
(*                                                                         *)
(* Abstract state of one stock object:                                     *)
(*   driver  : which driver values it currently holds                      *)
(*   prm     : which lifetime parameters it currently holds (None = unset)  *)
(*   results : NoResults, or <<d, p>> meaning "all result arrays and cohort     *)
(*             tables equal those of a freshly built stock with driver d   *)
(*             and parameters p" (F(d, SFof(p)) - a function of the inputs)*)
(*   cache   : the parameters the lazily computed survival / outflow       *)
(*             tables were built from (None = not built) - the mechanism   *)
(*             the anchor names.  `Variant` selects the algorithm:         *)
(*               "contract"     L1: compute reads the current parameters   *)
(*               "invalidating" L2: tables cached, set_prms drops them     *)
(*               "stale"        L2 as it was before the fix: set_prms      *)
(*                              keeps the cache (kept as the mutated model *)
(*                              of the self-test: Prop_C17 must FAIL on it)*)
(***************************************************************************)
EXTENDS Integers, Sequences, TLC

CONSTANTS Drivers, Prms, Variant
VARIABLES driver, prm, results, cache, last
svars == <<driver, prm, results, cache, last>>
None == 0                \* drivers and parameter sets are numbered from 1
NoResults == <<0, 0>>

SetDriver(d) == /\ driver' = d
                /\ last' = [op |-> "set_driver", arg |-> d, outcome |-> "ok"]
                /\ UNCHANGED <<prm, results, cache>>

SetPrms(p) == /\ prm' = p
              /\ cache' = IF Variant = "stale" THEN cache ELSE None
              /\ last' = [op |-> "set_prms", arg |-> p, outcome |-> "ok"]
              /\ UNCHANGED <<driver, results>>

TableSource == IF Variant = "contract" THEN prm ELSE (IF cache = None THEN prm ELSE cache)

\* reading lifetime_model.sf builds (and caches) the table
ReadSF == /\ prm # None
          /\ cache' = TableSource
          /\ last' = [op |-> "read_sf", arg |-> TableSource, outcome |-> "ok"]
          /\ UNCHANGED <<driver, prm, results>>

Compute ==
    IF prm = None
    THEN /\ last' = [op |-> "compute", arg |-> None, outcome |-> "error"]
         /\ UNCHANGED <<driver, prm, results, cache>>
    ELSE /\ results' = <<driver, TableSource>>
         /\ cache' = TableSource
         /\ last' = [op |-> "compute", arg |-> None, outcome |-> "ok"]
         /\ UNCHANGED <<driver, prm>>

\* one pass of a system's compute(): it writes the scenario's driver and parameters, then computes
SystemRun(d, p) ==
    /\ driver' = d /\ prm' = p
    /\ LET src == IF Variant = "stale" /\ cache # None THEN cache ELSE p
       IN  results' = <<d, src>> /\ cache' = src
    /\ last' = [op |-> "system_run", arg |-> <<d, p>>, outcome |-> "ok"]

Init == /\ driver \in Drivers /\ prm = None /\ results = NoResults /\ cache = None
        /\ last = [op |-> "init", arg |-> None, outcome |-> "ok"]

Next == \/ \E d \in Drivers : SetDriver(d)
        \/ \E p \in Prms : SetPrms(p)
        \/ ReadSF
        \/ Compute
        \/ \E d \in Drivers, p \in Prms : SystemRun(d, p)

\* after every successful compute the results are those of a fresh stock with the CURRENT inputs
Prop_C17 == (last.op \in {"compute", "system_run"} /\ last.outcome = "ok") => results = <<driver, prm>>
\* a survival table that is read reflects the current parameters
Prop_C17_Table == last.op = "read_sf" => last.arg = prm
\* compute twice in a row changes nothing
Prop_C17_Idem == [][(last.op = "compute" /\ last'.op = "compute") => results' = results]_svars
=============================================================================
