------------------------------- MODULE Arrays -------------------------------
(***************************************************************************)
(* L1 - the contract of FlodymArray, keyed by labels.                      *)
(*                                                                         *)
(* An array is  [dims |-> duplicate-free sequence of letters,              *)
(*               val  |-> [Labelings(dims) -> polynomial]]                 *)
(* The order of `dims` is part of the value (the statement fixes the       *)
(* result's dimension order), but `val` is a function of LABELS: no        *)
(* operator below ever mentions an axis position.  Written from the        *)
(* property statements and the documentation, not from the code.           *)
(* "Error" is the outcome of a call the statement says must be refused.    *)
(***************************************************************************)
EXTENDS Universe, Values

Error == [error |-> TRUE]

Arr(ds, f(_)) == [dims |-> ds, val |-> [lab \in Labelings(ds) |-> f(lab)]]
DimsOf(x) == Range(x.dims)
IsArray(x) == /\ x # Error
              /\ IsDimSeq(x.dims)
              /\ DOMAIN x.val = Labelings(x.dims)

\* input array number k over ds: entry = the generator named by k and the labels
GenArr(k, ds) == Arr(ds, LAMBDA lab : PGen(<<k, LabTuple(lab)>>))
Full(ds, p) == Arr(ds, LAMBDA lab : p)
Scalar(p) == Full(<<>>, p)
At(x, lab) == x.val[RestrictTo(lab, DimsOf(x))]     \* lab may have more letters

Total(x) == PSumOver(LAMBDA lab : x.val[lab], Labelings(x.dims))

\* same entries under the same labels, dimension order ignored
SameByLabel(x, y) == /\ DimsOf(x) = DimsOf(y)
                     /\ \A lab \in Labelings(x.dims) : x.val[lab] = y.val[lab]
Permute(x, ds) == Arr(ds, LAMBDA lab : x.val[lab])       \* ds a permutation of x.dims

(***************************************************************************)
(* Reductions and casts (C07)                                              *)
(***************************************************************************)
SumTo(x, keep) ==
    IF ~(IsDimSeq(keep) /\ Range(keep) \subseteq DimsOf(x)) THEN Error
    ELSE Arr(keep, LAMBDA lab : PSumOver(LAMBDA f : x.val[f], Extensions(lab, DimsOf(x))))

SumOver(x, drop) ==          \* drop: a set of letters, all of which x must have
    IF ~(drop \subseteq DimsOf(x)) THEN Error
    ELSE SumTo(x, SeqMinus(x.dims, drop))

CastTo(x, target) ==
    IF ~(IsDimSeq(target) /\ DimsOf(x) \subseteq Range(target)) THEN Error
    ELSE Arr(target, LAMBDA lab : At(x, lab))

\* number of label combinations added by a cast
Added(x, target) == Cardinality(Labelings(SeqMinus(target, DimsOf(x))))

\* cumulative sum along letter l in ITEM ORDER (the order of ItemsOf[l])
CumSum(x, l) ==
    IF l \notin DimsOf(x) THEN Error
    ELSE LET pos(lbl) == IndexOf(ItemsOf[l], lbl)
         IN  Arr(x.dims, LAMBDA lab :
                PSumOver(LAMBDA j : x.val[[lab EXCEPT ![l] = ItemsOf[l][j]]], 1..pos(lab[l])))

(***************************************************************************)
(* Arithmetic (C01)                                                        *)
(***************************************************************************)
Common(x, y) == SubSeqBy(x.dims, DimsOf(y))                 \* in x's order
UnionDims(x, y) == x.dims \o SeqMinus(y.dims, DimsOf(x))    \* x's first, then y's new ones

Add(x, y) == LET ds == Common(x, y)  sx == SumTo(x, ds)  sy == SumTo(y, ds)
             IN  Arr(ds, LAMBDA lab : PAdd(sx.val[lab], sy.val[lab]))
Sub(x, y) == LET ds == Common(x, y)  sx == SumTo(x, ds)  sy == SumTo(y, ds)
             IN  Arr(ds, LAMBDA lab : PSub(sx.val[lab], sy.val[lab]))
Minimum(seed, x, y) ==
             LET ds == Common(x, y)  sx == SumTo(x, ds)  sy == SumTo(y, ds)
             IN  Arr(ds, LAMBDA lab : PMin(seed, sx.val[lab], sy.val[lab]))
Maximum(seed, x, y) ==
             LET ds == Common(x, y)  sx == SumTo(x, ds)  sy == SumTo(y, ds)
             IN  Arr(ds, LAMBDA lab : PMax(seed, sx.val[lab], sy.val[lab]))
Mul(x, y) == Arr(UnionDims(x, y), LAMBDA lab : PMul(At(x, lab), At(y, lab)))
Div(x, y) == Arr(UnionDims(x, y), LAMBDA lab : PDiv(At(x, lab), At(y, lab)))
Pow(x, y) == IF ~(DimsOf(y) \subseteq DimsOf(x)) THEN Error
             ELSE Arr(x.dims, LAMBDA lab : PPow(x.val[lab], At(y, lab)))

Neg(x)  == Arr(x.dims, LAMBDA lab : PNeg(x.val[lab]))
Abs(seed, x)  == Arr(x.dims, LAMBDA lab : PAbs(seed, x.val[lab]))
Sign(seed, x) == Arr(x.dims, LAMBDA lab : PSign(seed, x.val[lab]))
Inv(x)  == Arr(x.dims, LAMBDA lab : PDiv(PConst(1), x.val[lab]))

\* "a plain number behaves as an array of x's own dimensions filled with it"
Num(x, p) == Full(x.dims, p)

(***************************************************************************)
(* Shares (rational values <<num, den>>; numeric arrays only)              *)
(***************************************************************************)
RatOf(x, lab) == RInt(ConstOf(x.val[lab]))
\* entries whose total over `over` is zero are left unspecified ("NaN")
SharesOver(x, over) ==       \* over: set of letters
    IF ~(over \subseteq DimsOf(x)) THEN Error
    ELSE LET keep == SeqMinus(x.dims, over)
             tot  == SumTo(x, keep)
         IN  [dims |-> x.dims,
              val  |-> [lab \in Labelings(x.dims) |->
                          LET t == ConstOf(tot.val[RestrictTo(lab, Range(keep))])
                          IN  IF t = 0 THEN RNaN ELSE RNorm(ConstOf(x.val[lab]), t)]]

(***************************************************************************)
(* Indexing by labels (C06) and assignment (C05)                           *)
(*                                                                         *)
(* A resolved key is a function from some of the array's letters to        *)
(* selectors:                                                              *)
(*    [kind |-> "one",  item |-> label]           a single item            *)
(*    [kind |-> "sub",  dim  |-> subset letter]   a Dimension subset       *)
(*    [kind |-> "list", items |-> seq of labels]  a list (writes only)     *)
(* How the key was SPELLED (single item, tuple, dict by letter / by name,  *)
(* Dimension object) is a concretisation chosen by the models and carried  *)
(* in the vector; all spellings of one resolved key mean the same.         *)
(***************************************************************************)
One(i)   == [kind |-> "one", item |-> i]
SubSel(d) == [kind |-> "sub", dim |-> d]
ListSel(s) == [kind |-> "list", items |-> s]

KeyOK(x, key) ==
    /\ DOMAIN key \subseteq DimsOf(x)
    /\ \A l \in DOMAIN key :
         CASE key[l].kind = "one"  -> key[l].item \in ItemSet(l)
           [] key[l].kind = "sub"  -> /\ key[l].dim \in AllLetters
                                      /\ ItemSet(key[l].dim) \subseteq ItemSet(l)
                                      /\ key[l].dim \notin (DimsOf(x) \ {l})
                                      /\ key[l].dim # l
           [] key[l].kind = "list" -> /\ Range(key[l].items) \subseteq ItemSet(l)
                                      /\ Len(key[l].items) >= 1
    \* two selections may not introduce the same subset letter
    /\ \A l1, l2 \in DOMAIN key :
         (key[l1].kind = "sub" /\ key[l2].kind = "sub" /\ l1 # l2) => key[l1].dim # key[l2].dim

HasList(key) == \E l \in DOMAIN key : key[l].kind = "list"

\* result dims: single selections dropped, subset selections replaced in place
DimsOut(x, key) ==
    LET kept == SelectSeq(x.dims, LAMBDA l : ~(l \in DOMAIN key /\ key[l].kind = "one"))
    IN  [i \in DOMAIN kept |->
            IF kept[i] \in DOMAIN key /\ key[kept[i]].kind = "sub" THEN key[kept[i]].dim ELSE kept[i]]

\* the labeling of x addressed by a labeling of the result
Lift(x, key, lab) ==
    [l \in DimsOf(x) |->
        IF l \in DOMAIN key
        THEN CASE key[l].kind = "one" -> key[l].item
               [] key[l].kind = "sub" -> lab[key[l].dim]
               [] OTHER -> lab[l]
        ELSE lab[l]]

GetItem(x, key) ==
    IF ~KeyOK(x, key) \/ HasList(key) THEN Error
    ELSE Arr(DimsOut(x, key), LAMBDA lab : x.val[Lift(x, key, lab)])

\* labelings of x addressed by the key
InRegion(x, key, full) ==
    \A l \in DOMAIN key :
        CASE key[l].kind = "one"  -> full[l] = key[l].item
          [] key[l].kind = "sub"  -> full[l] \in ItemSet(key[l].dim)
          [] key[l].kind = "list" -> full[l] \in Range(key[l].items)
Region(x, key) == {full \in Labelings(x.dims) : InRegion(x, key, full)}

\* the result-side labeling of an addressed entry
Lower(x, key, full) ==
    LET ds == DimsOut(x, key)
    IN  [d \in Range(ds) |->
            IF d \in DimsOf(x) THEN full[d]
            ELSE full[CHOOSE l \in DOMAIN key : key[l].kind = "sub" /\ key[l].dim = d]]

\* target[key] = FlodymArray: matched by label, summed over the dimensions the
\* region does not have; refused when it lacks one the region has.
\* (list selections together with an array source are left open by the
\* statement; the models do not generate them for array sources)
SetItemArr(x, key, rhs) ==
    IF ~KeyOK(x, key) THEN Error
    ELSE LET ds == DimsOut(x, key)
         IN  IF ~(Range(ds) \subseteq DimsOf(rhs)) THEN Error
             ELSE LET s == SumTo(rhs, ds)
                  IN  [dims |-> x.dims,
                       val  |-> [full \in Labelings(x.dims) |->
                                   IF InRegion(x, key, full) THEN s.val[Lower(x, key, full)]
                                   ELSE x.val[full]]]

\* target[key] = number: fills the region
SetItemNum(x, key, p) ==
    IF ~KeyOK(x, key) THEN Error
    ELSE [dims |-> x.dims,
          val  |-> [full \in Labelings(x.dims) |->
                      IF InRegion(x, key, full) THEN p ELSE x.val[full]]]

\* every entry outside the region is untouched, dims unchanged (C05)
FrameOK(x, key, x2) ==
    /\ x2.dims = x.dims
    /\ \A full \in Labelings(x.dims) : ~InRegion(x, key, full) => x2.val[full] = x.val[full]

\* items_where: the label tuples of the entries satisfying a predicate
ItemsWhere(x, P(_)) == {lab \in Labelings(x.dims) : P(x.val[lab])}

\* split(l): one slice per item of l
Split(x, l) == IF l \notin DimsOf(x) THEN Error
               ELSE [i \in ItemSet(l) |-> GetItem(x, [m \in {l} |-> One(i)])]

\* stack: the inverse of split on a NEW letter appended at the end
Stack(xs, l) ==      \* xs: function item-of-l -> array, all over the same dims
    LET any == xs[ItemsOf[l][1]]
    IN  IF l \in DimsOf(any) THEN Error
        ELSE Arr(Append(any.dims, l), LAMBDA lab : At(xs[lab[l]], lab))
=============================================================================
