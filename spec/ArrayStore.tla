----------------------------- MODULE ArrayStore -----------------------------
(***************************************************************************)
(* L2 - the implementation-shaped side of label indexing: numpy's rule for *)
(* the AXIS ORDER of an indexing result and flodym's index assembly        *)
(* (SubArrayHandler: one index per dimension position, lists turned into   *)
(* an open mesh).  The anchor of C06 calls this "open-mesh conversion that *)
(* defeats numpy's advanced-index axis reordering".                        *)
(*                                                                         *)
(* An index vector has one entry per axis of the stored array:             *)
(*      "slice"  - slice(None): the whole axis is kept                     *)
(*      "int"    - a single position: the axis is dropped                  *)
(*      "list"   - a list of positions (list key or subset Dimension)      *)
(* flodym labels the result with the dimensions that are not dropped, IN   *)
(* THE ORIGINAL ORDER (DimsOut of the contract).  That is only right if    *)
(* numpy returns the surviving axes in that order.                         *)
(*                                                                         *)
(* numpy (basic + advanced indexing): integers count as advanced indices   *)
(* as soon as one array/list index is present.  If all advanced indices    *)
(* are adjacent, the broadcast dimensions take the place of the first of   *)
(* them; if a slice separates them, the broadcast dimensions come FIRST.   *)
(* With np.ix_ every list axis contributes its own broadcast dimension, in *)
(* axis order.                                                             *)
(*                                                                         *)
(* Variant "current":  convert to an open mesh when there are several      *)
(*     lists, or one list together with at least one single position.      *)
(* Variant "pre_fix":  convert only when there are several lists (the      *)
(*     algorithm before fix 97ef073) - kept as the mutated model: TLC must *)
(*     find the (int, slice, list) counterexample on it.                   *)
(***************************************************************************)
EXTENDS Integers, Sequences, FiniteSets

CONSTANTS Variant, MaxAxes
Kinds == {"slice", "int", "list"}
IndexVectors == UNION {[1..n -> Kinds] : n \in 0..MaxAxes}

Pos(iv, k) == {i \in DOMAIN iv : iv[i] = k}
NLists(iv) == Cardinality(Pos(iv, "list"))
NInts(iv)  == Cardinality(Pos(iv, "int"))

RequiresConversion(iv) ==
    IF Variant = "current" THEN NLists(iv) > 1 \/ (NLists(iv) = 1 /\ NInts(iv) > 0)
    ELSE NLists(iv) > 1

\* after conversion every slice has become list(range(len)) and every list an open-mesh array
Converted(iv) == IF RequiresConversion(iv) THEN [i \in DOMAIN iv |-> IF iv[i] = "slice" THEN "list" ELSE iv[i]] ELSE iv
UsesMesh(iv) == RequiresConversion(iv)

\* sequence of the set S of naturals in increasing order
RECURSIVE Sorted(_)
Sorted(S) == IF S = {} THEN <<>> ELSE LET m == CHOOSE x \in S : \A y \in S : x <= y IN <<m>> \o Sorted(S \ {m})

\* the source axes that survive, in the order numpy returns them
NumpyAxisOrder(iv0) ==
    LET iv == Converted(iv0)
        adv == Pos(iv, "list") \cup (IF Pos(iv, "list") # {} THEN Pos(iv, "int") ELSE {})
        lists == Pos(iv, "list")
        slices == Pos(iv, "slice")
    IN  IF lists = {} THEN Sorted(slices)                                  \* basic indexing: order kept
        ELSE IF UsesMesh(iv0) THEN Sorted(lists)                           \* open mesh: one broadcast dim per list axis, no slices left
        ELSE \* exactly one list, possibly ints, possibly slices; no mesh
             LET lo == CHOOSE x \in adv : \A y \in adv : x <= y
                 hi == CHOOSE x \in adv : \A y \in adv : x >= y
                 adjacent == \A s \in slices : s < lo \/ s > hi
             IN  IF adjacent
                 THEN Sorted({s \in slices : s < lo}) \o Sorted(lists) \o Sorted({s \in slices : s > hi})
                 ELSE Sorted(lists) \o Sorted(slices)                      \* separated: broadcast dims first

\* what flodym assumes when it labels the result (DimsOut): surviving axes in the original order
AssumedAxisOrder(iv) == Sorted(Pos(iv, "slice") \cup Pos(iv, "list"))

\* refinement: the implementation-shaped algorithm yields the contract's labelling for EVERY index vector
OrderPreserved == \A iv \in IndexVectors : NumpyAxisOrder(iv) = AssumedAxisOrder(iv)

\* the smallest witness when it does not
Witnesses == {iv \in IndexVectors : NumpyAxisOrder(iv) # AssumedAxisOrder(iv)}
=============================================================================
