------------------------------ MODULE Workspace ------------------------------
(***************************************************************************)
(* L1 - histories.  A workspace holds array registers, one raw ndarray     *)
(* register and the record of the last call.  Every public operation the   *)
(* properties quantify over is an ACTION on registers; ill-formed calls    *)
(* are actions too (outcome "error", nothing changes).  Registers hold     *)
(* VALUES: a result never shares anything with its sources - this is what  *)
(* C15 states, and what the conformance replay (which compares EVERY       *)
(* register after EVERY step) tests against the real objects.              *)
(*                                                                         *)
(*   ar   : [ARegs -> Array \cup {None}]                                   *)
(*   nd   : raw ndarray: [dims, val] read POSITIONALLY (row-major), or None*)
(*   last : [op, args, outcome, writes]   - the only history variable      *)
(*   fresh: next unused generator id (values written by Poke / new arrays) *)
(***************************************************************************)
EXTENDS Arrays, TLC

CONSTANT ARegs            \* set of array register names (strings)
VARIABLES ar, nd, last, fresh
wvars == <<ar, nd, last, fresh>>

None == [none |-> TRUE]
Defined(r) == ar[r] # None

Ok(op, args, writes) == [op |-> op, args |-> args, outcome |-> "ok", writes |-> writes]
Err(op, args)        == [op |-> op, args |-> args, outcome |-> "error", writes |-> {}]

\* a call that either yields array `v` into register dst or is refused
Into(dst, v, op, args) ==
    IF v = Error
    THEN /\ last' = Err(op, args) /\ UNCHANGED <<ar, nd, fresh>>
    ELSE /\ ar' = [ar EXCEPT ![dst] = v]
         /\ last' = Ok(op, args, {dst})
         /\ UNCHANGED <<nd, fresh>>

--------------------------------------------------------------------------
\* z = x op y
Arith(dst, op, s1, s2) ==
    /\ Defined(s1) /\ Defined(s2)
    /\ RootsDistinct(DimsOf(ar[s1]) \cup DimsOf(ar[s2]))
    /\ LET v == CASE op = "add" -> Add(ar[s1], ar[s2])
                  [] op = "sub" -> Sub(ar[s1], ar[s2])
                  [] op = "mul" -> Mul(ar[s1], ar[s2])
       IN  Into(dst, v, "arith", <<dst, op, s1, s2>>)

NeutralOps == {"zero_plus", "plus_zero", "one_times", "times_one", "div_one", "minus_zero", "pow_one", "sum_list"}
\* z = op(x [, dims])
Unary(dst, op, s, ds) ==
    /\ Defined(s)
    /\ LET x == ar[s]
           v == CASE op = "copy"      -> x
                  [] op = "neg"       -> Neg(x)
                  \* arithmetic with a neutral plain number (0 + x, x + 0, 1 * x, x * 1, x / 1, x - 0, x ** 1, sum([x])):
                  \* the value of x, but - being arithmetic - a NEW array, never x itself
                  [] op \in NeutralOps -> x
                  [] op = "apply_neg" -> Neg(x)              \* x.apply(np.negative): the documented generic element-wise call
                  [] op = "full_like" -> Full(x.dims, PConst(7))
                  [] op = "cast_to"   -> CastTo(x, ds)
                  [] op = "sum_to"    -> SumTo(x, ds)
                  [] op = "cumsum"    -> CumSum(x, ds[1])
       IN  Into(dst, v, "unary", <<dst, op, s, ds>>)

\* x.apply(np.negative, inplace=True): the one documented way to change an array in place through a function;
\* afterwards ordinary calls behave as before (nothing is remembered from the in-place call)
InPlaceNeg(r) ==
    /\ Defined(r)
    /\ Into(r, Neg(ar[r]), "inplace_neg", <<r>>)

\* z = x[key]
Read(dst, s, key) ==
    /\ Defined(s)
    /\ Into(dst, GetItem(ar[s], key), "read", <<dst, s, key>>)

\* t[key] = source      (source: array register | the plain number | the raw ndarray)
AssignArr(t, key, s) ==
    /\ Defined(t) /\ Defined(s)
    /\ RootsDistinct(DimsOf(ar[t]) \cup DimsOf(ar[s]) \cup {key[l].dim : l \in {m \in DOMAIN key : key[m].kind = "sub"}})
    /\ Into(t, SetItemArr(ar[t], key, ar[s]), "assign_arr", <<t, key, s>>)
AssignNum(t, key) ==
    /\ Defined(t)
    /\ Into(t, SetItemNum(ar[t], key, PConst(5)), "assign_num", <<t, key>>)

\* positional reading of a raw ndarray against a dimension sequence of the SAME shape
NdAs(n, ds) == LET src == RowMajor(n.dims)  dst == RowMajor(ds)
               IN  [dims |-> ds,
                    val  |-> [lab \in Labelings(ds) |->
                                n.val[src[CHOOSE i \in DOMAIN dst : dst[i] = lab]]]]

\* t[key] = ndarray with exactly the shape of the addressed region (placed positionally)
AssignNd(t, key) ==
    /\ Defined(t) /\ nd # None
    /\ LET x == ar[t]
           ok == KeyOK(x, key) /\ ~HasList(key) /\ Shape(DimsOut(x, key)) = Shape(nd.dims)
           v == IF ok THEN SetItemArr(x, key, NdAs(nd, DimsOut(x, key))) ELSE Error
       IN  \* an ndarray of another (broadcastable) shape with a KEY is left open by the statement;
           \* the models only generate region-shaped or non-broadcastable ndarrays here
           Into(t, v, "assign_nd", <<t, key>>)

\* t[...] = ndarray  and  t.set_values(ndarray): exactly the target's shape, else refused
\* (never broadcast, never transposed, nothing stored)
AssignWholeNd(t, via) ==
    /\ Defined(t) /\ nd # None
    /\ LET x == ar[t]
           v == IF Shape(nd.dims) = Shape(x.dims) THEN NdAs(nd, x.dims) ELSE Error
       IN  Into(t, v, "assign_whole_nd", <<t, via>>)

\* a fresh raw ndarray over a dimension sequence (its values are new generators)
NewNd(ds) ==
    /\ nd' = GenArr(fresh, ds)
    /\ fresh' = fresh + 1
    /\ last' = [op |-> "new_nd", args |-> <<ds, fresh>>, outcome |-> "ok", writes |-> {}]
    /\ UNCHANGED ar

\* the user writes into the raw ndarray AFTER it was assigned somewhere: no array may change
MutateNd ==
    /\ nd # None
    /\ nd' = GenArr(fresh, nd.dims)
    /\ fresh' = fresh + 1
    /\ last' = [op |-> "mutate_nd", args |-> <<fresh>>, outcome |-> "ok", writes |-> {}]
    /\ UNCHANGED ar

\* the user writes into a register's values directly:  r.values[...] = fresh values
Poke(r) ==
    /\ Defined(r)
    /\ ar' = [ar EXCEPT ![r] = GenArr(fresh, ar[r].dims)]
    /\ fresh' = fresh + 1
    /\ last' = Ok("poke", <<r, fresh>>, {r})
    /\ UNCHANGED nd

\* the user edits a register's dimension set in place (drop the first dimension); the register is
\* abandoned afterwards - the point is that NO OTHER register and no dimension set changes
PokeDims(r) ==
    /\ Defined(r) /\ Len(ar[r].dims) >= 1
    /\ ar' = [ar EXCEPT ![r] = None]
    /\ last' = Ok("poke_dims", <<r>>, {r})
    /\ UNCHANGED <<nd, fresh>>

\* stack two registers over the same dims on a new last dimension l (flodym_array_stack)
StackTwo(dst, s1, s2, l) ==
    /\ Defined(s1) /\ Defined(s2) /\ DLen(l) = 2
    /\ RootsDistinct(DimsOf(ar[s1]) \cup {l})
    /\ LET v == IF ar[s1].dims # ar[s2].dims THEN Error
                ELSE Stack([i \in ItemSet(l) |-> IF i = ItemsOf[l][1] THEN ar[s1] ELSE ar[s2]], l)
       IN  Into(dst, v, "stack", <<dst, s1, s2, l>>)

--------------------------------------------------------------------------
(***************************************************************************)
(* Properties of histories                                                 *)
(***************************************************************************)
\* C13: every register always holds a well-formed array
ShapeInv == \A r \in ARegs : ar[r] # None => IsArray(ar[r])

\* C13: a refused call changes nothing
FailedCallsChangeNothing == [][last'.outcome = "error" => UNCHANGED <<ar, nd>>]_wvars

\* C15: only the registers named in `writes` change
InputsUnchanged == [][\A r \in ARegs : r \notin last'.writes => ar'[r] = ar[r]]_wvars

\* C05: an assignment keeps the target's dims (and, by FrameOK in MC_Index, everything outside the region)
AssignKeepsDims ==
    [][(last'.op \in {"assign_arr", "assign_num", "assign_nd", "assign_whole_nd"} /\ last'.outcome = "ok")
          => ar'[last'.args[1]].dims = ar[last'.args[1]].dims]_wvars
=============================================================================
