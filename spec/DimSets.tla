------------------------------ MODULE DimSets ------------------------------
(***************************************************************************)
(* L1 - DimensionSet as an ORDERED SET of uniquely lettered dimensions     *)
(* (C14).  A dimension is an id from the alphabet `Dim`; LetterOf gives    *)
(* its letter (several ids may share a letter: those are the clashes),     *)
(* NameOf its name, SizeOf its number of items.  A dimension set is a      *)
(* sequence of ids with pairwise different letters - the ordered-list      *)
(* model the statement compares against.                                   *)
(*                                                                         *)
(* State: registers holding dimension sets (values!), one register holding *)
(* the dims of an array built from a register, and the last call.          *)
(***************************************************************************)
EXTENDS Integers, Sequences, FiniteSets, SequencesExt, FiniteSetsExt, Functions

CONSTANTS Dim,        \* set of dimension ids
          LetterOf,   \* id -> letter
          NameOf,     \* id -> name
          SizeOf,     \* id -> number of items
          Regs        \* register names

Letters(s) == [i \in DOMAIN s |-> LetterOf[s[i]]]
Names(s)   == [i \in DOMAIN s |-> NameOf[s[i]]]
ShapeOf(s) == [i \in DOMAIN s |-> SizeOf[s[i]]]
LetterSet(s) == {LetterOf[s[i]] : i \in DOMAIN s}
RECURSIVE Prod(_)
Prod(q) == IF q = <<>> THEN 1 ELSE Head(q) * Prod(Tail(q))
TotalSizeOf(s) == Prod(ShapeOf(s))

Unique(s) == \A i, j \in DOMAIN s : LetterOf[s[i]] = LetterOf[s[j]] => i = j
IsDimSet(s) == (\A i \in DOMAIN s : s[i] \in Dim) /\ Unique(s)
AllDimSets(maxlen) == {s \in UNION {[1..n -> Dim] : n \in 0..maxlen} : Unique(s)}

Error == <<"Error">>     \* not a sequence of dimension ids

HasLetter(s, d) == LetterOf[d] \in LetterSet(s)

(***************************************************************************)
(* The algebra.  Membership is by LETTER (that is what makes the letters   *)
(* unique); the dimension kept is always the left operand's.               *)
(***************************************************************************)
Union(s, t) == s \o SelectSeq(t, LAMBDA d : ~HasLetter(s, d))
Inter(s, t) == SelectSeq(s, LAMBDA d : HasLetter(t, d))
Diff(s, t)  == SelectSeq(s, LAMBDA d : ~HasLetter(t, d))
Xor(s, t)   == Union(Diff(s, t), Diff(t, s))
Plus(s, t)  == IF Inter(s, t) # <<>> THEN Error ELSE Union(s, t)

\* keys: a letter or a name; unknown keys are refused
KeyIndex(s, k) == IF \E i \in DOMAIN s : LetterOf[s[i]] = k \/ NameOf[s[i]] = k
                  THEN CHOOSE i \in DOMAIN s : LetterOf[s[i]] = k \/ NameOf[s[i]] = k
                  ELSE 0
Subset(s, keys) ==      \* in the REQUESTED order; repeating a dimension would break uniqueness
    IF \E i \in DOMAIN keys : KeyIndex(s, keys[i]) = 0 THEN Error
    ELSE LET r == [i \in DOMAIN keys |-> s[KeyIndex(s, keys[i])]]
         IN  IF Unique(r) THEN r ELSE Error

AppendDim(s, d)  == IF HasLetter(s, d) THEN Error ELSE Append(s, d)
PrependDim(s, d) == IF HasLetter(s, d) THEN Error ELSE <<d>> \o s
InsertPos(s, i) == IF i < 0 THEN (IF Len(s) + i < 0 THEN 0 ELSE Len(s) + i) ELSE (IF i > Len(s) THEN Len(s) ELSE i)
InsertDim(s, i, d) ==      \* Python list.insert semantics: negative indices count from the end, out-of-range ones are clamped
    IF HasLetter(s, d) THEN Error
    ELSE LET k == InsertPos(s, i) IN SubSeq(s, 1, k) \o <<d>> \o SubSeq(s, k + 1, Len(s))
Expand(s, ds) == IF (\E i \in DOMAIN ds : HasLetter(s, ds[i])) \/ ~Unique(ds) THEN Error ELSE s \o ds
DropDim(s, k) == IF KeyIndex(s, k) = 0 THEN Error
                 ELSE SubSeq(s, 1, KeyIndex(s, k) - 1) \o SubSeq(s, KeyIndex(s, k) + 1, Len(s))
\* replace: the new dimension's letter must not be among the CURRENT letters
ReplaceDim(s, k, d) == IF KeyIndex(s, k) = 0 \/ HasLetter(s, d) THEN Error
                       ELSE [s EXCEPT ![KeyIndex(s, k)] = d]

VARIABLES ds, arrdims, last
dvars == <<ds, arrdims, last>>
None == <<"None">>
Defined(r) == ds[r] # None

\* out-of-place: the result goes to dst, the receiver is untouched.
\* in-place: the receiver is replaced, nothing is returned.
Apply(op, recv, dst, inplace, v, args) ==
    IF v = Error
    THEN /\ last' = [op |-> op, recv |-> recv, dst |-> dst, inplace |-> inplace, args |-> args, outcome |-> "error"]
         /\ UNCHANGED <<ds, arrdims>>
    ELSE /\ ds' = [ds EXCEPT ![IF inplace THEN recv ELSE dst] = v]
         /\ last' = [op |-> op, recv |-> recv, dst |-> dst, inplace |-> inplace, args |-> args, outcome |-> "ok"]
         /\ UNCHANGED arrdims

Binary(op, recv, other, dst) ==
    /\ Defined(recv) /\ Defined(other)
    /\ LET s == ds[recv]  t == ds[other]
           v == CASE op = "union" -> Union(s, t) [] op = "inter" -> Inter(s, t) [] op = "diff" -> Diff(s, t)
                  [] op = "xor" -> Xor(s, t) [] op = "plus" -> Plus(s, t)
       IN  Apply(op, recv, dst, FALSE, v, <<other>>)

Mutate(op, recv, dst, inplace, d, k, i) ==
    /\ Defined(recv)
    /\ LET s == ds[recv]
           v == CASE op = "append"  -> AppendDim(s, d)
                  [] op = "prepend" -> PrependDim(s, d)
                  [] op = "insert"  -> InsertDim(s, i, d)
                  [] op = "expand"  -> Expand(s, <<d>>)
                  [] op = "drop"    -> DropDim(s, k)
                  [] op = "replace" -> ReplaceDim(s, k, d)
       IN  Apply(op, recv, dst, inplace, v, <<d, k, i>>)

\* expand_by with SEVERAL dimensions: the added ones must not clash with the set nor with each other
ExpandMany(recv, dst, inplace, added) ==
    /\ Defined(recv)
    /\ Apply("expand_many", recv, dst, inplace, Expand(ds[recv], added), <<added>>)

GetSubset(recv, dst, keys) ==
    /\ Defined(recv)
    /\ Apply("subset", recv, dst, FALSE, Subset(ds[recv], keys), <<keys>>)
CopyOf(recv, dst, how) ==        \* copy() / get_subset() without arguments / ds[...tuple of all letters]
    /\ Defined(recv)
    /\ Apply("copy", recv, dst, FALSE, ds[recv], <<how>>)

\* an array is built over a register's dimension set; later edits of the register must not reach it
BuildArray(recv) ==
    /\ Defined(recv)
    /\ arrdims' = ds[recv]
    /\ last' = [op |-> "build_array", recv |-> recv, dst |-> recv, inplace |-> FALSE, args |-> <<>>, outcome |-> "ok"]
    /\ UNCHANGED ds

(***************************************************************************)
(* C14                                                                     *)
(***************************************************************************)
UniqueInv == /\ \A r \in Regs : Defined(r) => IsDimSet(ds[r])
             /\ arrdims # None => IsDimSet(arrdims)
\* operations without inplace=True leave the receiver unchanged; a refused call changes nothing;
\* only the target of a call changes
ReceiverUnchanged ==
    [][/\ (~last'.inplace \/ last'.outcome = "error") => ds'[last'.recv] = ds[last'.recv] \/ last'.dst = last'.recv
       /\ \A r \in Regs : r # (IF last'.inplace THEN last'.recv ELSE last'.dst) => ds'[r] = ds[r]
       /\ last'.op # "build_array" => arrdims' = arrdims]_dvars

\* r is s with some dimensions left out (the left operand's order is kept)
KeepsOrder(r, s) == r = SelectSeq(s, LAMBDA d : d \in Range(r))

\* algebraic laws of the ordered-list model (checked on every pair TLC enumerates)
Laws(s, t) ==
    /\ Letters(Union(s, t)) = Letters(s) \o Letters(Diff(t, s))
    /\ IsDimSet(Union(s, t)) /\ IsDimSet(Inter(s, t)) /\ IsDimSet(Diff(s, t)) /\ IsDimSet(Xor(s, t))
    /\ LetterSet(Inter(s, t)) = LetterSet(s) \cap LetterSet(t)
    /\ LetterSet(Diff(s, t)) = LetterSet(s) \ LetterSet(t)
    /\ LetterSet(Xor(s, t)) = (LetterSet(s) \ LetterSet(t)) \cup (LetterSet(t) \ LetterSet(s))
    /\ KeepsOrder(Inter(s, t), s) /\ KeepsOrder(Diff(s, t), s)
    /\ (Plus(s, t) = Error) <=> (LetterSet(s) \cap LetterSet(t) # {})
    /\ Plus(s, t) # Error => Plus(s, t) = Union(s, t)
    /\ LetterSet(Inter(s, t)) \cup LetterSet(Diff(s, t)) = LetterSet(s)
=============================================================================
