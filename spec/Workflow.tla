------------------------------ MODULE Workflow ------------------------------
(***************************************************************************)
(* A whole model as one specification: the system of the library's own     *)
(* "work with an MFA system" how-to, written with the contract's operators *)
(* (spec/Arrays.tla) on FORMAL parameters.                                  *)
(*                                                                         *)
(*   processes  sysenv, process_a, process_b                               *)
(*   parameters extraction (r,t), product_shares (p), process_a_yield (p)  *)
(*   compute():                                                            *)
(*     F["sysenv => process_a"][...]    = extraction                       *)
(*     product_flow                     = F["sysenv => process_a"] * product_shares *)
(*     F["process_a => process_b"][...] = product_flow * process_a_yield   *)
(*     F["process_a => sysenv"][...]    = product_flow * (1 - process_a_yield) *)
(*     F["process_b => sysenv"][...]    = F["process_a => process_b"]      *)
(*                                                                         *)
(* Every flow is a pre-declared array whose dimension ORDER is a parameter  *)
(* of the model (Orders), so the same program is checked for every storage *)
(* order of every flow.  Because the parameters are generators, the flows  *)
(* and the mass balances come out as polynomials: TLC proves, for all      *)
(* parameter values at once, that process_b is balanced, that sysenv       *)
(* mirrors process_a, and that process_a is balanced EXACTLY up to the     *)
(* factor (1 - sum of the product shares) - i.e. iff the shares add up to  *)
(* one.  The real code is run on the same formal parameters and must       *)
(* produce the same polynomials; then numerically, where check_mass_balance*)
(* must pass for shares adding up to one and fail otherwise.               *)
(***************************************************************************)
EXTENDS Arrays, TLC

CONSTANTS OrdF1, OrdF2, OrdF3, OrdF4       \* storage orders of the four flows
One1 == PConst(1)

Extraction == GenArr(1, <<"r", "t">>)
Shares     == GenArr(2, <<"p">>)
Yield      == GenArr(3, <<"p">>)

\* target[...] = source for a pre-declared target over `ds`
AssignAll(ds, src) == SumTo(src, ds)

F1 == AssignAll(OrdF1, Extraction)
ProductFlow == Mul(F1, Shares)
F2 == AssignAll(OrdF2, Mul(ProductFlow, Yield))
F3 == AssignAll(OrdF3, Mul(ProductFlow, Add(Neg(Yield), Full(Yield.dims, One1))))      \* 1.0 - yield  =  -yield + 1.0
F4 == AssignAll(OrdF4, F2)

\* mass balances by the rule of spec/MassBalance.tla: +inflows -outflows, reduced to the common dimensions
Common3(x, y, z) == SubSeqBy(x.dims, DimsOf(y) \cap DimsOf(z))
BalA == LET ds == Common3(F1, F2, F3) IN Sub(Sub(SumTo(F1, ds), SumTo(F2, ds)), SumTo(F3, ds))
BalB == LET ds == SubSeqBy(F2.dims, DimsOf(F4)) IN Sub(SumTo(F2, ds), SumTo(F4, ds))
BalEnv == LET ds == Common3(F3, F4, F1) IN Sub(Add(SumTo(F3, ds), SumTo(F4, ds)), SumTo(F1, ds))

SumShares == PSumOver(LAMBDA lab : Shares.val[lab], Labelings(<<"p">>))

\* theorems (polynomial identities = for ALL parameter values)
WorkflowOK ==
    /\ \A lab \in Labelings(BalB.dims) : BalB.val[lab] = PZero
    /\ DimsOf(BalA) = {"r", "t"}
    /\ \A lab \in Labelings(BalA.dims) :
          BalA.val[lab] = PMul(Extraction.val[RestrictTo(lab, {"r", "t"})], PSub(One1, SumShares))
    /\ \A lab \in Labelings(BalEnv.dims) : BalEnv.val[lab] = PNeg(BalA.val[RestrictTo(lab, DimsOf(BalA))])
    \* the flow into process_b carries the yield share of every product, by label
    /\ \A lab \in Labelings(F2.dims) :
          F2.val[lab] = PMul(PMul(Extraction.val[RestrictTo(lab, {"r", "t"})], Shares.val[RestrictTo(lab, {"p"})]), Yield.val[RestrictTo(lab, {"p"})])
=============================================================================
