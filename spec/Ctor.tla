-------------------------------- MODULE Ctor --------------------------------
(***************************************************************************)
(* L1 - what constructors and validators accept (C13).                     *)
(*                                                                         *)
(* A raw ndarray is abstracted by its SHAPE (a sequence of lengths); a     *)
(* plain number by the shape "number".  Accepting anything but the exact   *)
(* shape would be broadcasting, transposing or storing a malformed array.  *)
(***************************************************************************)
EXTENDS Universe

\* FlodymArray(dims=ds, values=v) and subclasses (via = "ctor"); x.set_values(v); x[...] = v.
\* A plain number is only accepted by a constructor for a 0-dimensional array; through set_values
\* and [...] a number FILLS the array (C05), which keeps the shape.
ArrayCtorOK(via, ds, vshape) ==
    IF vshape = <<-1>>                       \* a plain number
    THEN (via = "ctor" => ds = <<>>)
    ELSE IF vshape = <<-2>>                  \* not a value array but a FlodymArray object over ds: only x[...] = y takes arrays
    THEN via = "ellipsis"
    ELSE vshape = Shape(ds)

\* x[...] = y / x[{}] = y / x.set_values(y.values) where y's dimensions carry the SAME LETTERS as x's but one of them is
\* another Dimension with a different number of items (e.g. "Historic Time" and "Time", both "t"): nothing can be
\* matched by label, the call must be refused and x left as it was
ForeignAssignOK(ds, foreignLetter) == foreignLetter \notin Range(ds)

\* Stock(dims=ds, time_letter=tl, <slot>=array over slotdims)
StockCtorOK(ds, tl, hasSlot, slotdims) ==
    /\ Len(ds) >= 1 /\ ds[1] = tl            \* time first
    /\ hasSlot => slotdims = ds              \* same letters in the same order

\* DynamicStockModel(dims=ds, lifetime_model=model over lmdims)
DsmLifetimeOK(ds, tl, lmdims) == StockCtorOK(ds, tl, FALSE, <<>>) /\ lmdims = ds

\* LifetimeModel(dims=ds, <prm>=FlodymArray over pd): parameters are cast by label, so they
\* must not have a dimension the model lacks
LifetimePrmOK(ds, pd) == Range(pd) \subseteq Range(ds)
\* ... and a parameter whose dimension `foreignLetter` carries the model's LETTER but is another Dimension with a different
\* number of items cannot be matched by label: refused (constructor and set_prms alike), an earlier parameter stays
ForeignPrmOK(ds, pd, foreignLetter) == LifetimePrmOK(ds, pd) /\ foreignLetter \notin Range(pd)
=============================================================================
