#!/bin/sh
# Offline setup: nothing is fetched or installed.  Parses every specification module and runs a smoke model.
cd "$(dirname "$0")" || exit 1
set -e
for f in spec/*.tla spec/mc/*.tla spec/trace/*.tla; do
  [ -f "$f" ] || continue
  java -DTLA-Library=spec:spec/mc:spec/trace -cp /opt/veriftools/tla/tla2tools.jar:/opt/veriftools/tla/CommunityModules-deps.jar tla2sany.SANY "$f" > /tmp/sany.$$ 2>&1 || { cat /tmp/sany.$$; rm -f /tmp/sany.$$; exit 1; }
  if grep -q -E "Errors: [1-9]|Could not parse|Fatal error" /tmp/sany.$$; then cat /tmp/sany.$$; rm -f /tmp/sany.$$; exit 1; fi
done
rm -f /tmp/sany.$$
/venv/bin/python -c "import sys; sys.path.insert(0, '/repo'); import flodym, numpy, pandas; print('flodym from', flodym.__file__)"
echo "setup ok"
