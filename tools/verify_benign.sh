#!/bin/bash
# verify_benign.sh <property> [root=/tmp/mut8] [variants="P Q"] : confirm two semantics-preserving changes of one property in its scratch
# worktree (patch applies, pinned suite passes, the demo passes WITHOUT and WITH the patch)
P=$1; ROOT=${2:-/tmp/mut8}; VARS=${3:-P Q}; WT=$ROOT/$P; OUT=$ROOT/out/$P
cd $WT || exit 2
git checkout -q -- . ; git clean -fdq
for V in $VARS; do
  D=$OUT/$V; [ -f $D/patch.diff ] || { echo "$P/$V: no patch"; continue; }
  R=$D/verify.txt; : > $R
  PYTHONPATH=$WT timeout 900 /venv/bin/python $D/demo.py > $D/demo_clean.log 2>&1; echo "demo_clean_exit=$?" >> $R
  if git apply --check $D/patch.diff 2>>$R; then git apply $D/patch.diff; echo "applies=1" >> $R; else echo "applies=0" >> $R; continue; fi
  PYTHONPATH=$WT /venv/bin/python -m pytest -q -p no:cacheprovider --timeout=900 -x > $D/pytest.log 2>&1; echo "pytest_exit=$?" >> $R
  tail -1 $D/pytest.log >> $R
  PYTHONPATH=$WT timeout 900 /venv/bin/python $D/demo.py > $D/demo_patched.log 2>&1; echo "demo_patched_exit=$?" >> $R
  git checkout -q -- . ; git clean -fdq
  echo "$P/$V: $(tr '\n' ' ' < $R)"
done
