m["engines"] += [
 {"name": "index", "path": "spec/mc/MC_Index.tla + harness/replay_index.py", "serves_properties": ["C05", "C06", "C15", "C04"],
  "kind_free_text": "TLC-enumerated keys / assignments replayed under every key spelling"},
 {"name": "workspace", "path": "spec/Workspace.tla + spec/mc/MC_Workspace.tla + harness/replay_workspace.py", "serves_properties": ["C05", "C13", "C15"],
  "kind_free_text": "TLC behaviours (exhaustive + simulated) of the register state machine replayed step by step, all registers compared"},
 {"name": "ctor", "path": "spec/Ctor.tla + spec/mc/MC_Ctor.tla + harness/replay_ctor.py", "serves_properties": ["C13"],
  "kind_free_text": "constructor / validator acceptance vectors"},
 {"name": "dimsets", "path": "spec/DimSets.tla + spec/mc/MC_DimSets.tla + harness/replay_dimsets.py", "serves_properties": ["C14"],
  "kind_free_text": "ordered-list model of DimensionSet histories replayed step by step"},
 {"name": "stocks", "path": "spec/TimeGrid.tla + Lifetime.tla + Stocks.tla + mc/MC_Stocks.tla + harness/replay_stocks.py, lifetime_closed.py, checks_relational.py",
  "serves_properties": ["C03", "C08", "C09", "C10", "C16"], "kind_free_text": "exact rational tables from TLC replayed into the stock classes; relational runs"},
 {"name": "stockobject", "path": "spec/StockObject.tla + mc/MC_StockObject.tla + harness/replay_stockobject.py", "serves_properties": ["C17"],
  "kind_free_text": "histories of one stock object compared with fresh objects"},
]
