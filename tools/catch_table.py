#!/usr/bin/env python3
"""Writes seeded/CATCHES.md: which check detects which seeded change (from seeded/*/meta.json, filled by try_mutants.py)."""
import json, os
V = "/verif/seeded"
rows = []
for sid in sorted(os.listdir(V)):
    p = os.path.join(V, sid, "meta.json")
    if not os.path.exists(p):
        continue
    m = json.load(open(p))
    notes = [l.strip("# ").strip() for l in m.get("needs_to_manifest", "").splitlines() if l.strip()]
    title = notes[0][:110] if notes else ""
    det = ", ".join(f"{k}: {v}" for k, v in sorted(m.get("detected_by", {}).items()))
    rows.append((sid, m["property"], title, det))
with open(os.path.join(V, "CATCHES.md"), "w") as f:
    f.write("# Seeded changes and the checks that detect them\n\n"
            "Each change was produced by an independent sub-agent that saw only the property text and a scratch worktree, was confirmed "
            "(patch applies, the 81 pinned tests pass, the demo fails with and passes without it) and is kept with its demonstration in "
            "`seeded/<id>/`.  `tools/try_mutants.py` applies each patch to /repo, runs the check(s) and restores /repo.\n\n"
            "| id | property | change | detected by |\n|---|---|---|---|\n")
    for r in rows:
        f.write("| " + " | ".join(x.replace("|", "/") for x in r) + " |\n")
print(len(rows), "rows")
