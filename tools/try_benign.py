#!/usr/bin/env python3
"""try_benign.py --repo <scratch worktree> [--only id,id] [--checks C05,C13]: SEMANTICS-PRESERVING changes (benign/<id>/patch.diff) must
NOT raise an alarm.  Applies each patch to the scratch worktree, runs the quick check of its property (or --checks), restores the tree and
records the verdict in benign/<id>/meta.json: 'silent' (exit 0), 'ALARM' (exit 1 / VIOLATION line), 'machinery' (exit 2)."""
import json, os, subprocess, sys, time
V = "/verif"
args = sys.argv[1:]
R, only, checks, cross = None, None, None, False
while args:
    a = args.pop(0)
    if a == "--repo": R = args.pop(0)
    elif a == "--only": only = set(args.pop(0).split(","))
    elif a == "--checks": checks = args.pop(0).split(",")
    elif a == "--cross": cross = True
assert R and os.path.abspath(R) != "/repo"
OUT = f"/tmp/verif_benign_out_{os.getpid()}"
os.makedirs(OUT, exist_ok=True)
ENV = dict(os.environ, FLODYM_REPO=R, VERIF_OUT_DIR=OUT)
def sh(cmd, **kw): return subprocess.run(cmd, shell=True, capture_output=True, text=True, env=ENV, **kw)
assert sh(f"git -C {R} status --porcelain").stdout.strip() == "", "scratch tree not clean"
for bid in sorted(os.listdir(f"{V}/benign")):
    d = f"{V}/benign/{bid}"
    if not os.path.isdir(d) or (only and bid not in only): continue
    meta = json.load(open(f"{d}/meta.json"))
    if sh(f"git -C {R} apply {d}/patch.diff").returncode != 0:
        print(bid, "PATCH DOES NOT APPLY"); continue
    try:
        for p in (checks or (meta.get("cross_checks", []) if cross else None) or [meta["property"]]):
            t0 = time.time()
            r = sh(f"./check {p} quick", cwd=V)
            lines = r.stdout.splitlines()
            viol = [l for l in lines if l.startswith("VIOLATION")]
            verdict = "silent" if (r.returncode == 0 and not viol) else ("machinery" if r.returncode == 2 else "ALARM")
            first = ""
            if viol:
                first = " | ".join(lines[lines.index(viol[0]) + 1: lines.index(viol[0]) + 2])[:200]
            elif r.returncode == 2:
                first = (r.stdout.strip().splitlines() or [r.stderr[-200:]])[-1][:200]
            print(f"{bid:8s} check {p} quick: {verdict} ({time.time() - t0:.0f}s) {first}", flush=True)
            meta.setdefault("verdicts", {})[f"{p}/quick"] = verdict
            if first: meta.setdefault("first_report", {})[f"{p}/quick"] = first
    finally:
        sh(f"git -C {R} reset -q --hard HEAD ; git -C {R} clean -fdq")
    json.dump(meta, open(f"{d}/meta.json", "w"), indent=1)
