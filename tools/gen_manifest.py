#!/usr/bin/env python3
"""Regenerates MANIFEST.json from the table below (kept in step with harness/main.py's registry)."""
import json, os
V = os.path.dirname(os.path.dirname(os.path.abspath(__file__)))
props = [json.loads(l) for l in open(os.path.join(V, "properties.jsonl"))]
TRUST = ("TLC 1.8 and the CommunityModules; numpy/pandas as used by the concretisation and projection code of the "
         "harness; the bounded universes stated in the evidence (small-scope argument); Python's Fraction arithmetic")
CLAIMED = {
 "C01": dict(engine="arrayops", ref="6/C01",
   text="TLC enumerates every (operator, ordered dimension subset pair, valuation seed) of bounded universes and checks Prop_C01 on the "
        "label-keyed contract (spec/Arrays.tla); every transition is replayed into flodym on formal polynomials (decides all real values "
        "per configuration) and on float64 arrays in two memory layouts, compared by label.",
   technique="TLA+ contract model checked with TLC (MC_ArrayOps); every TLC transition replayed into flodym symbolically (object arrays of formal polynomials) and numerically"),
 "C07": dict(engine="arrayops", ref="6/C07",
   text="Same machinery as C01 for sum_to / sum_over / cumsum / cast_to / get_shares_over: Prop_C07 (totals, cast/sum-back law, cumsum last slice, "
        "shares laws, refusals) is a TLC-checked invariant of the contract; every transition is replayed into flodym and compared by label.",
   technique="TLA+ contract model checked with TLC (MC_ArrayOps, family reduce); transitions replayed into flodym symbolically / on exact rationals"),
}
exec(open(os.path.join(V, "tools", "manifest_more.py")).read()) if os.path.exists(os.path.join(V, "tools", "manifest_more.py")) else None
NA_REASON = "check under construction (DESIGN.md section 12 roadmap); not yet claimed"
m = {
 "version": 1,
 "setup_cmd": "cd /verif && ./setup.sh",
 "hooks": {"guard": "FLODYM_VERIF_RECORD",
           "enable": "no source hooks are needed: flodym is a sequential library whose abstract state is visible through the public API; "
                     "the recorder wraps public entry points from the harness side and checks import flodym from /repo's working tree",
           "baseline_off_cmd": "cd /repo && /venv/bin/python -m pytest -ra -q -p no:cacheprovider --timeout=900 --continue-on-collection-errors",
           "source_commits": [], "add_only": True},
 "engines": [
   {"name": "arrayops", "path": "spec/mc/MC_ArrayOps.tla + harness/replay_arrays.py", "serves_properties": ["C01", "C07"],
    "kind_free_text": "TLC-enumerated single-operation vectors replayed into flodym (symbolic + numeric)"},
 ],
 "checks": [], "not_applicable": [],
 "notes": "All checks: ./check <ID> <quick|thorough>; exit 0 held / 1 VIOLATION / 2 machinery failure. See DESIGN.md.",
}
exec(open(os.path.join(V, "tools", "manifest_engines.py")).read()) if os.path.exists(os.path.join(V, "tools", "manifest_engines.py")) else None
TRACE_OF = {**{k: "Trace_Workspace (random array programs)" for k in ("C01", "C04", "C05", "C06", "C07", "C13", "C15")},
            **{k: "Trace_Stocks (histories on one stock object, exact fractions)" for k in ("C03", "C08", "C09", "C10", "C16", "C17")},
            **{k: "Trace_Tables (histories of imports into one array)" for k in ("C11", "C12")}}
LIFE_OF = ("C02", "C05", "C17", "C18", "C19", "C20")
L2_OF = {"C03": "StocksImpl", "C09": "StocksImpl", "C10": "StocksImpl", "C06": "ArrayStore"}
for p in props:
    pid = p["id"]
    if pid in CLAIMED:
        c = dict(CLAIMED[pid])
        if pid in TRACE_OF and "Trace_" not in c["technique"]:
            c["technique"] += "; traces recorded from the real code validated by TLC against the same specification: " + TRACE_OF[pid]
        if pid in LIFE_OF and "Lifecycle" not in c["technique"]:
            c["technique"] += ("; whole model runs as one TLA+ state machine (Lifecycle.tla): all bounded histories of MC_Lifecycle replayed into real "
                               "MFASystem objects, and recorded histories on random models validated by TLC (Trace_Lifecycle)")
        if pid == "C13" and "Trace_DimSets" not in c["technique"]:
            c["technique"] += "; Trace_DimSets (arrays built from every register after every call of random set programs)"
        if pid in L2_OF and L2_OF[pid] not in c["technique"]:
            c["technique"] += f"; L2 refinement {L2_OF[pid]}.tla checked with TLC (pre-fix algorithm refuted)"
        m["checks"].append({
            "property_id": pid, "quick_cmd": f"./check {pid} quick", "thorough_cmd": f"./check {pid} thorough",
            "evidence_file": f"/verif/evidence/{pid}.json", "replay_cmd_template": f"./check {pid} --replay {{path}}",
            "engine": c["engine"],
            "level_claimed": {"category": "model_checking", "text": c["text"], "design_ref": c["ref"]},
            "level_note": c.get("note", TRUST), "technique": c["technique"]})
    else:
        m["not_applicable"].append({"property_id": pid, "reason": NA_REASON})
json.dump(m, open(os.path.join(V, "MANIFEST.json"), "w"), indent=1)
print("claimed:", sorted(CLAIMED))
