CLAIMED.update({
 "C05": dict(engine="index+workspace", ref="6/C05",
   text="Prop_C05 (dims kept, frame condition outside the addressed region, source summed by label inside it, refusal of a source lacking a region "
        "dimension) is a TLC-checked invariant of the assignment model over every (target dims, key, source kind, ordered source dims); histories of "
        "assignments incl. refused ones, whole-array ndarray assignment and later mutation of the ndarray are TLC behaviours of the workspace model. "
        "Every transition / behaviour is replayed into flodym (symbolic + float64) and every register compared by label after every step.",
   technique="TLA+ models MC_Index (single assignments, exhaustive) and MC_Workspace (histories: exhaustive depth 2 + tlc -simulate), replayed into flodym"),
 "C06": dict(engine="index", ref="6/C06",
   text="TLC enumerates every per-dimension combination of selector kinds (none / single / subset Dimension / list) in every position for arrays of up to "
        "3 (thorough 4) dimensions and checks Prop_C06 on the label-keyed contract; each transition is replayed into flodym under every spelling of the "
        "key (dict by letter / name, tuple, single item, Ellipsis), reads and writes, plus the key kinds that must be refused.",
   technique="TLA+ model MC_Index checked with TLC; every transition replayed into flodym under all key spellings (symbolic + numeric)"),
 "C13": dict(engine="workspace+ctor", ref="6/C13",
   text="ShapeInv (invariant) and FailedCallsChangeNothing (action property) are checked by TLC on the workspace state machine whose actions include "
        "ill-formed calls; behaviours (exhaustive depth 2, simulated to depth 6-10) are replayed with the shape invariant re-checked on every live "
        "object after every step. MC_Ctor enumerates constructor / set_values / [...] calls with every wrong shape and stock / lifetime-model "
        "constructions with wrong dims; each is replayed.",
   technique="TLA+ state machine MC_Workspace (invariant + action properties, TLC) and MC_Ctor, behaviours replayed into flodym step by step"),
 "C15": dict(engine="workspace+index", ref="6/C15",
   text="In the specification registers hold values, so InputsUnchanged and independence of results hold by construction and are TLC-checked as action "
        "properties; the conformance replay performs write-through probes (poke result, poke source, edit the result's dimension set in place, mutate "
        "an assigned ndarray) and compares every register with the specification after each step, which exposes shared memory.",
   technique="TLA+ workspace model (alias scenario) checked with TLC; behaviours with write-through probes replayed into flodym; all registers compared"),
 "C14": dict(engine="dimsets", ref="6/C14",
   text="The ordered-list model of DimensionSet (spec/DimSets.tla) is checked by TLC for UniqueInv, the algebraic laws of union / intersection / "
        "difference / symmetric difference / '+', and the action property that only the call's target changes; every pair of sets over the alphabet "
        "x every operator and every history of in-place / out-of-place operations to depth 2-3 (simulated to depth 10) is replayed into flodym, "
        "comparing every register and every lookup form with the model after every step, including an array built from a set that is later edited.",
   technique="TLA+ ordered-list state machine MC_DimSets checked with TLC (invariants, laws, action property); behaviours replayed into flodym"),
})
