CLAIMED.update({
 "C05": dict(engine="index+workspace", ref="6/C05",
   text="Prop_C05 (dims kept, frame condition outside the addressed region, source summed by label inside it, refusal of a source lacking a region "
        "dimension) is a TLC-checked invariant of the assignment model over every (target dims, key, source kind, ordered source dims); histories of "
        "assignments incl. refused ones, whole-array ndarray assignment and later mutation of the ndarray are TLC behaviours of the workspace model. "
        "Every transition / behaviour is replayed into flodym (symbolic + float64) and every register compared by label after every step.",
   technique="TLA+ models MC_Index (single assignments, exhaustive) and MC_Workspace (histories: exhaustive depth 2 + tlc -simulate), replayed into flodym"),
 "C06": dict(engine="index", ref="6/C06",
   text="TLC enumerates every per-dimension combination of selector kinds (none / single / subset Dimension / list) in every position for arrays of up to "
        "3 (thorough 4) dimensions and checks Prop_C06 on the label-keyed contract; each transition is replayed into flodym under every spelling of the "
        "key (dict by letter / name, tuple, single item, Ellipsis), reads and writes, plus the key kinds that must be refused.",
   technique="TLA+ model MC_Index checked with TLC; every transition replayed into flodym under all key spellings (symbolic + numeric)"),
 "C13": dict(engine="workspace+ctor", ref="6/C13",
   text="ShapeInv (invariant) and FailedCallsChangeNothing (action property) are checked by TLC on the workspace state machine whose actions include "
        "ill-formed calls; behaviours (exhaustive depth 2, simulated to depth 6-10) are replayed with the shape invariant re-checked on every live "
        "object after every step. MC_Ctor enumerates constructor / set_values / [...] calls with every wrong shape and stock / lifetime-model "
        "constructions with wrong dims; each is replayed.",
   technique="TLA+ state machine MC_Workspace (invariant + action properties, TLC) and MC_Ctor, behaviours replayed into flodym step by step"),
 "C15": dict(engine="workspace+index", ref="6/C15",
   text="In the specification registers hold values, so InputsUnchanged and independence of results hold by construction and are TLC-checked as action "
        "properties; the conformance replay performs write-through probes (poke result, poke source, edit the result's dimension set in place, mutate "
        "an assigned ndarray) and compares every register with the specification after each step, which exposes shared memory.",
   technique="TLA+ workspace model (alias scenario) checked with TLC; behaviours with write-through probes replayed into flodym; all registers compared"),
 "C14": dict(engine="dimsets", ref="6/C14",
   text="The ordered-list model of DimensionSet (spec/DimSets.tla) is checked by TLC for UniqueInv, the algebraic laws of union / intersection / "
        "difference / symmetric difference / '+', and the action property that only the call's target changes; every pair of sets over the alphabet "
        "x every operator and every history of in-place / out-of-place operations to depth 2-3 (simulated to depth 10) is replayed into flodym, "
        "comparing every register and every lookup form with the model after every step, including an array built from a set that is later edited. "
        "Direction B: random programs of 30-40 calls over ten dimensions on seven letters are RECORDED from real DimensionSet objects and validated "
        "by TLC against the same model (spec/trace/Trace_DimSets.tla); every eighth history is also replayed over dimensions of 60 000 items.",
   technique="TLA+ ordered-list state machine MC_DimSets checked with TLC (invariants, laws, action property); behaviours replayed into flodym; recorded traces validated by TLC (Trace_DimSets)"),
 "C03": dict(engine="stocks", ref="6/C03",
   text="The documented time discretisation and the three stock classes are specified over exact rationals (TimeGrid/Lifetime/Stocks.tla); TLC checks "
        "Conserves on every (configuration, class, driver) of bounded models and emits all tables; flodym is run on each and compared, the "
        "conservation clause is evaluated on its own outputs, and check_stock_balance must accept the computed and reject a perturbed stock. "
        "scipy-based lifetime models enter through relational runs using the TLC-computed interval lengths.",
   technique="TLA+ rational model of time grid + stock classes checked with TLC (MC_Stocks); every transition replayed into flodym; relational clause evaluation"),
 "C08": dict(engine="stocks", ref="6/C08",
   text="For the exact families (fixed, step) and rational quadrature settings TLC computes the whole survival / outflow tables, checks TableValid and the "
        "tables are compared with flodym's. For the four scipy-based distributions and all ten rules TLC fixes the structure of every cell (age base, "
        "interval length, cohort, parameter entry by label); the closed-form survival functions and the Gauss-Lobatto rule are evaluated numerically "
        "by the harness (declared assumption discharge).",
   technique="TLA+ Lifetime model (exact tables + TableValid by TLC) replayed into flodym; structure vectors + closed forms for transcendental distributions",
   note="TLC and CommunityModules; Python math.erfc/erf/exp/log and numpy Legendre polynomials for the closed forms and the independent quadrature rules; 1e-9 tolerance"),
 "C09": dict(engine="stocks", ref="6/C09",
   text="Prop_C09 (totals, triangularity, cohort share = inflow x dt x survival, cohort conservation, monotonicity) is a TLC-checked invariant of MC_Stocks; "
        "get_stock_by_cohort / get_outflow_by_cohort of both DSM classes and both solvers are compared with the exact tables; the same clauses are "
        "evaluated on the implementation for all lifetime models, also after set_prms + recompute.",
   technique="TLA+ stock model checked with TLC; transitions replayed into flodym; cohort clauses evaluated on relational runs"),
 "C10": dict(engine="stocks", ref="6/C10",
   text="The stock-driven model is specified as forward substitution over rationals; TLC checks that it inverts the inflow-driven model (Prop_C10) for every "
        "driver incl. ones with negative inflow; both solvers are replayed against the exact tables and against each other, plus round trips on all "
        "lifetime models with first-interval survival >= 0.05.",
   technique="TLA+ inverse-model invariant checked with TLC (MC_Stocks); transitions replayed into both solvers; relational round trips"),
 "C16": dict(engine="stocks", ref="6/C16",
   text="Causality, scaling, label independence, impulse response and calendar-shift invariance are TLC-checked theorems of the model (Prop_C16, ASSUME "
        "Prop_C16_Shift); every unit impulse of the driver space per configuration is replayed and compared with the exact response; on the "
        "implementation the relations are evaluated between related runs for all lifetime models.",
   technique="TLA+ stock model (impulse basis, TLC-checked linearity/causality theorems) replayed into flodym; relational runs"),
 "C17": dict(engine="stockobject", ref="6/C17",
   text="StockObject.tla models one stock's inputs, results and lazily cached tables; TLC checks Prop_C17 on the contract and on the invalidating-cache "
        "algorithm, and REQUIRES a violation on the stale-cache variant (non-vacuity). Every history of depth 4-5 is replayed on real stocks living in "
        "an MFASystem built from definitions and compared, after every compute, with a freshly built stock holding the same inputs.",
   technique="TLA+ state machine with L2 cache variable checked with TLC (3 variants); all histories replayed into flodym and compared with fresh objects"),
 "C02": dict(engine="massbalance", ref="6/C02",
   text="MassBalance.tla defines per-process contributions, the reduction to the common dimensions by label, the sysenv mirror entry, the tolerance "
        "comparison on two-component numbers (NaN never within tolerance) and the flagged-flow set; TLC checks the mirror law and the expected "
        "verdicts on every (balanced system, single-entry perturbation) and emits them; each is built as a real MFASystem through make_processes / "
        "make_empty_flows / make_empty_stocks and both checks are run with explicit / default tolerance, raise_error True / False, three exception "
        "lists, and again after rescaling all values of the same object (and a second round after a reported NaN was replaced). Direction B: histories "
        "of writes and checks on RANDOM system graphs (2-6 processes, up to 9 flows and 3 stocks over random ordered dimension subsets, balanced by "
        "construction or not) are recorded from real MFASystem objects and validated by TLC against the same contract "
        "(spec/trace/Trace_MassBalance.tla), including the set of processes the library names as failing.",
   technique="TLA+ model of system graphs with two-component tolerance arithmetic checked with TLC (MC_MassBalance); every transition replayed into flodym; recorded histories on random graphs validated by TLC (Trace_MassBalance)"),
 "C18": dict(engine="system", ref="6/C18",
   text="System.tla states which definitions are refused (when the definition or the system is built) and what Build(def) must contain; TLC enumerates "
        "definitions from pools and dimension-file variants; each is built through from_data_reader / from_csv / from_excel / manual assembly with "
        "files written by the harness and every attribute of the result is compared.",
   technique="TLA+ contract of system assembly enumerated by TLC (MC_System); every vector replayed through all construction routes"),
 "C11": dict(engine="tables", ref="6/C11",
   text="Tables.tla defines the content of a rendered table (long / wide over each dimension) and what import must return; TLC checks Prop_C11 (an "
        "unfaulted table of any layout is imported as the array itself, each entry listed exactly once) for every (ordered dims, layout, style); the "
        "harness concretises each abstract table as a pandas DataFrame in ten styles (index / columns, name / letter / anonymous headers, row and "
        "column permutations, CSV text, omitted single-item dims, repeated row labels), imports it, and projects real to_df output (all options) "
        "back to labelled rows.",
   technique="TLA+ table-content model enumerated and checked with TLC (MC_Tables); abstract tables concretised as DataFrames and replayed; to_df output projected back"),
 "C12": dict(engine="tables", ref="6/C12",
   text="Fault actions on the abstract table (drop / duplicate / relabel / blank / drop column / extra value column / extra item column) in every position "
        "and in sequences; Outcome(flags) in Tables.tla says for each of the four flag settings whether import must refuse, must return exactly the "
        "label-correct array, or is left open; TLC checks Prop_C12 and emits every reachable table; each is imported through from_df, "
        "set_values_from_df on a pre-filled target (must stay untouched on refusal) and the CSV reader.",
   technique="TLA+ fault-sequence state machine over abstract tables (TLC, MC_Tables) replayed into from_df / set_values_from_df / CSVParameterReader with all flag settings"),
 "C19": dict(engine="export", ref="6/C19",
   text="Export.tla states what convert_to_dict and the CSV exports contain for a system (every flow and stock with exactly its values under its labels, "
        "structure, one file per flow and per exported stock quantity); TLC enumerates systems and emits the expected contents; the numpy, pandas, "
        "pickle and CSV exports of the real system are compared, pandas / CSV forms are read back with from_df, the system is snapshotted around the "
        "export, and MFADefinition.to_dfs is compared with the definitions.",
   technique="TLA+ export contract enumerated by TLC (MC_Export, part export); every vector replayed through all export functions and re-imported"),
 "C20": dict(engine="export", ref="6/C20",
   text="SankeyLinks / SankeyNodes and Lines are TLA+ operators over the system / array; TLC enumerates slice dictionaries, exclusion lists, split "
        "settings and every assignment of 1-3 dimensions to plot roles and checks the exclusion and split-total laws; figure.data of the plotly "
        "Sankey, plotly traces (attributed to the titled subplot they sit in) and matplotlib lines are extracted and compared.",
   technique="TLA+ plot-content operators enumerated and checked by TLC (MC_Export, parts sankey / lines); figures of the real plotters extracted and compared"),
 "C04": dict(engine="orbits", ref="6/C04",
   text="Prop_C04 (re-storing an operand in the canonical dimension order changes no entry; the result's own order follows the documented rule) is a "
        "TLC-checked invariant of the label-keyed contract in MC_ArrayOps and MC_Index. On the implementation the TLC-enumerated vectors are grouped "
        "into orbits that differ only in storage orders (all permutations of up to 3-4 dimensions, equal lengths included) and flodym's results are "
        "compared by label within each orbit, for C and Fortran memory layouts; dedicated orbits cover lifetime parameters, split / stack and "
        "to_df / from_df.",
   technique="TLC-checked permutation invariant on the TLA+ contract; metamorphic orbit comparison of TLC-enumerated vectors executed on flodym"),
})
