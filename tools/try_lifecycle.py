#!/usr/bin/env python3
"""try_lifecycle.py --repo <scratch copy of /repo> [--only id,id]: which seeded changes does the LIFECYCLE stage alone reject?
Applies each seeded patch to the scratch copy, runs direction A (MC_Lifecycle, quick plan) and direction B (Trace_Lifecycle, quick plan)
on it in a subprocess, and prints one line per change.  Results go to seeded/LIFECYCLE_ALONE.json (not evidence)."""
import json, os, subprocess, sys
V = "/verif"
args = sys.argv[1:]
R, only, OUT = None, None, None
while args:
    a = args.pop(0)
    if a == "--repo": R = args.pop(0)
    elif a == "--only": only = set(args.pop(0).split(","))
    elif a == "--out": OUT = args.pop(0)
assert R and os.path.abspath(R) != "/repo"
CODE = r'''
import sys, json
sys.path.insert(0, "/verif")
from harness import core, checks_lifecycle
class Out:
    def __init__(self):
        self.seed = 0; self.states = self.transitions = self.replayed = self.traces_validated = 0
        self.models = []; self.extra = {}; self.samples = []; self.assumptions = []; self.bad = []
    def add_tlc(self, m, res): pass
    def judge(self, bad, engine, sig): self.bad += [(engine, p[0][:200]) for v, p in bad]
core.for_property = lambda bad, prop: bad
o = Out()
checks_lifecycle.run_lifecycle_models(o, "ANY", "quick")
import re
_orig = checks_lifecycle.re.search
checks_lifecycle_prop = "ANY"
# direction B: count every rejection whatever its tag
import harness.checks_lifecycle as cl
src = open(cl.__file__).read().replace("if prop not in props:\n                continue", "pass")
ns = {}
exec(compile(src, cl.__file__, "exec"), cl.__dict__)
cl.run_lifecycle_traces.__globals__["run_lifecycle_models"] = lambda out, prop, tier: None
cl.run_lifecycle_traces(o, "ANY", "quick")
print("RESULT " + json.dumps(o.bad[:3]))
'''
res = {}
out_path = OUT or f"{V}/seeded/LIFECYCLE_ALONE.json"
if os.path.exists(out_path):
    res = json.load(open(out_path))
for sid in sorted(os.listdir(f"{V}/seeded")):
    d = f"{V}/seeded/{sid}"
    if not os.path.isdir(d) or (only and sid not in only):
        continue
    patch = f"{d}/patch_rebased.diff" if os.path.exists(f"{d}/patch_rebased.diff") else f"{d}/patch.diff"
    ap = subprocess.run(["git", "apply", patch], cwd=R, capture_output=True, text=True)
    if ap.returncode != 0:
        print(sid, "patch does not apply"); continue
    try:
        env = dict(os.environ, FLODYM_REPO=R, PYTHONHASHSEED="0", MPLBACKEND="Agg", VERIF_OUT_DIR="/tmp/verif_life_alone")
        r = subprocess.run(["/venv/bin/python", "-c", CODE], cwd=V, env=env, capture_output=True, text=True, timeout=900)
        line = [l for l in r.stdout.splitlines() if l.startswith("RESULT ")]
        if not line:
            verdict, first = "machinery", (r.stderr.strip().splitlines() or ["?"])[-1][:160]
        else:
            bad = json.loads(line[0][7:])
            verdict, first = ("REJECTED", bad[0][1][:160]) if bad else ("accepted", "")
    except subprocess.TimeoutExpired:
        verdict, first = "timeout", ""
    finally:
        subprocess.run(["git", "apply", "-R", patch], cwd=R)
    res[sid] = verdict
    print(f"{sid:7s} {verdict:9s} {first}", flush=True)
    json.dump(res, open(out_path, "w"), indent=0, sort_keys=True)
print("rejected by the lifecycle stage alone:", sum(1 for v in res.values() if v == "REJECTED"), "of", len(res))
