#!/bin/bash
# verify_seeded.sh <property> [root=/tmp/mut] [variants="A B"] : confirm the two agent-made mutants of one property in its scratch worktree
# (patch applies, pinned suite passes, demo fails with the patch and passes without)
P=$1; ROOT=${2:-/tmp/mut}; VARS=${3:-A B}; WT=$ROOT/$P; OUT=$ROOT/out/$P
cd $WT || exit 2
git checkout -q -- . ; git clean -fdq
for V in $VARS; do
  D=$OUT/$V; [ -f $D/patch.diff ] || { echo "$P/$V: no patch"; continue; }
  R=$D/verify.txt; : > $R
  PYTHONPATH=$WT /venv/bin/python $D/demo.py > $D/demo_clean.log 2>&1; echo "demo_clean_exit=$?" >> $R
  if git apply --check $D/patch.diff 2>>$R; then git apply $D/patch.diff; echo "applies=1" >> $R; else echo "applies=0" >> $R; continue; fi
  PYTHONPATH=$WT /venv/bin/python -m pytest -q -p no:cacheprovider --timeout=900 -x > $D/pytest.log 2>&1; echo "pytest_exit=$?" >> $R
  tail -1 $D/pytest.log >> $R
  PYTHONPATH=$WT /venv/bin/python $D/demo.py > $D/demo_mut.log 2>&1; echo "demo_mut_exit=$?" >> $R
  git checkout -q -- . ; git clean -fdq
  echo "$P/$V: $(tr '\n' ' ' < $R)"
done
