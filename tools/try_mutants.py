#!/usr/bin/env python3
"""try_mutants.py [--tier quick] [--only C05-A,...] [--checks C05,C04] [--repo /tmp/scratch_worktree]
Applies each seeded patch to /repo, runs the check(s) of its property, restores /repo, and records in
seeded/<id>/meta.json which checks report a VIOLATION.  /repo must be clean before."""
import json, os, subprocess, sys, time
V = "/verif"; R = "/repo"
args = sys.argv[1:]
tier = "quick"; only = None; checks = None
while args:
    a = args.pop(0)
    if a == "--tier": tier = args.pop(0)
    elif a == "--only": only = set(args.pop(0).split(","))
    elif a == "--checks": checks = args.pop(0).split(",")
    elif a == "--repo": R = args.pop(0)          # a scratch worktree of /repo: checks then run with FLODYM_REPO=<that tree>
OUT = os.environ.get("VERIF_OUT_DIR") or f"/tmp/verif_mutant_out_{os.getpid()}"
os.makedirs(OUT, exist_ok=True)
ENV = dict(os.environ, FLODYM_REPO=R, VERIF_OUT_DIR=OUT)
def sh(cmd, **kw): return subprocess.run(cmd, shell=True, capture_output=True, text=True, env=ENV, **kw)
assert sh(f"git -C {R} status --porcelain").stdout.strip() == "", "repo not clean"
rows = []
for sid in sorted(os.listdir(f"{V}/seeded")):
    if not os.path.isdir(f"{V}/seeded/{sid}") or (only and sid not in only): continue
    d = f"{V}/seeded/{sid}"; meta = json.load(open(f"{d}/meta.json"))
    props = checks or meta.get("run_checks") or [meta["property"]]
    first = f"{d}/patch_rebased.diff" if os.path.exists(f"{d}/patch_rebased.diff") else f"{d}/patch.diff"
    ap = sh(f"git -C {R} apply {first}")
    if ap.returncode != 0:
        ap = sh(f"git -C {R} apply --3way {d}/patch.diff")
        if ap.returncode != 0:
            alt = f"{d}/patch_rebased.diff"
            sh(f"git -C {R} reset -q --hard HEAD")
            if os.path.exists(alt) and sh(f"git -C {R} apply {alt}").returncode == 0:
                pass
            else:
                print(sid, "PATCH DOES NOT APPLY"); rows.append((sid, "noapply")); sh(f"git -C {R} reset -q --hard HEAD"); continue
    try:
        for p in props:
            t0 = time.time()
            r = sh(f"./check {p} {tier}", cwd=V)
            viol = [l for l in r.stdout.splitlines() if l.startswith("VIOLATION")]
            verdict = "DETECTED" if (r.returncode == 1 and viol) else ("machinery" if r.returncode == 2 else "missed")
            first = ""
            if viol:
                idx = r.stdout.splitlines().index(viol[0]); first = " | ".join(r.stdout.splitlines()[idx + 1: idx + 2])[:160]
            elif r.returncode == 2:
                first = r.stdout.strip().splitlines()[-1][:200] if r.stdout.strip() else r.stderr[-200:]
            print(f"{sid:8s} check {p} {tier}: {verdict} ({time.time() - t0:.0f}s) {first}")
            meta.setdefault("detected_by", {})[f"{p}/{tier}"] = verdict
            rows.append((sid, p, verdict))
    finally:
        sh(f"git -C {R} reset -q --hard HEAD ; git -C {R} clean -fdq")
    json.dump(meta, open(f"{d}/meta.json", "w"), indent=1)
assert sh(f"git -C {R} status --porcelain").stdout.strip() == "", "repo not restored!"
