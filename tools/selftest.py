#!/usr/bin/env python3
"""Self-test of the machinery (not a registered check).

1. BINDING: for every engine one emitted vector is corrupted in one field of the specification's expected result;
   the replay into flodym must then report a problem (a replay that accepts a corrupted expectation binds nothing).
2. NON-VACUITY: mutated MODELS must violate their property in TLC (Add without summing the operands to the common
   dims, the stale-cache stock object, a mass balance without the sysenv mirror entry, a duplicate that is not refused).
Exit 0 iff everything behaves as required."""
import copy, json, os, sys
sys.path.insert(0, "/verif")
os.environ.setdefault("MPLBACKEND", "Agg")
from harness import tlcrun, core
from harness.core import Model

fails = []


def one_vector(module, consts, invs):
    res = tlcrun.run_tlc(module, tlcrun.cfg_text(constants=consts, invariants=invs), workers=2)
    assert res.ok and res.vectors, module
    return res.vectors


def expect_problem(name, fn, vec, mutate):
    assert not fn(vec), f"{name}: the uncorrupted vector does not conform"
    bad = copy.deepcopy(vec)
    mutate(bad)
    probs = fn(bad)
    print(f"  {name:12s} corrupted expectation -> {'REJECTED' if probs else 'ACCEPTED (binding broken!)'}  {probs[0][:110] if probs else ''}")
    if not probs:
        fails.append(name)


def bump_poly(entry):      # entry = [labtuple, polyjson]: add the constant 1
    entry[1] = entry[1] + [[[], 1]]


print("1. binding: corrupted expectations must be rejected")
from harness import replay_arrays, replay_index, replay_workspace, replay_ctor, replay_dimsets, replay_stocks, replay_massbalance, \
    replay_system, replay_tables, replay_export, replay_stockobject
core._init_worker()
v = [x for x in one_vector("MC_ArrayOps.tla", {"Pattern": "P22", "Family": "arith", "MaxDims": 2, "Seeds": {0}, "Emit": True}, ["EmitInv"])
     if x["cfg"]["op"] == "mul" and len(x["res"]["val"]) > 1][0]
expect_problem("arrayops", replay_arrays.run_vector, v, lambda b: bump_poly(b["res"]["val"][0]))
v = [x for x in one_vector("MC_Index.tla", {"Pattern": "P32", "Family": "get", "MaxDims": 2, "Emit": True}, ["EmitInv"]) if len(x["res"]["val"]) > 1][0]
expect_problem("index", replay_index.run_vector, v, lambda b: b["res"]["val"].__setitem__(0, [b["res"]["val"][0][0], b["res"]["val"][1][1]]))
c = {"Pattern": "P322", "Scenario": "assign", "Depth": 1, "Emit": True, "XD1": "a", "XD2": "b", "XD3": "", "YD1": "b", "YD2": "", "YD3": ""}
v = [x for x in one_vector("MC_Workspace.tla", c, ["EmitInv"]) if x["hist"][0]["op"] == "assign_num" and x["hist"][0]["outcome"] == "ok"][0]
expect_problem("workspace", replay_workspace.run_history, v, lambda b: b["hist"][0].__setitem__("outcome", "error"))
v = [x for x in one_vector("MC_Ctor.tla", {"Emit": True, "MaxDims": 1}, ["EmitInv"]) if x["res"] == "error"][0]
expect_problem("ctor", replay_ctor.run_vector, v, lambda b: b.__setitem__("res", "ok"))
c = {"Scenario": "pairs", "Depth": 1, "MaxLen": 2, "Alphabet": {"A", "B", "C"}, "Emit": True, **{f"{x}{i}": "" for x in "ST" for i in (1, 2, 3)}}
v = [x for x in one_vector("MC_DimSets.tla", c, ["EmitInv"]) if x["hist"][0]["op"] == "union" and len(x["hist"][0]["post"]["r3"]) == 2][0]
expect_problem("dimsets", replay_dimsets.run_history, v, lambda b: b["hist"][0]["post"]["r3"].reverse())
from harness.checks_stocks import stock_model
m = stock_model("uneven4", 2, "step", "middle", "lab", 12, 0, 8)
res = core.run_model(m)
v = [x for x in res.vectors if x["cls"] == "inflow"][3]
expect_problem("stocks", replay_stocks.run_vector, v, lambda b: b["res"]["stock"][-1].__setitem__(0, [b["res"]["stock"][-1][0][0] + 1, b["res"]["stock"][-1][0][1]]))
v = one_vector("MC_MassBalance.tla", {"Schemes": {3}, "MaxFlows": 1, "Emit": True, "GModes": {1}}, ["EmitInv"])
v = [x for x in v if x["verdict"] == "fail" and not x["anynan"]][0]
expect_problem("massbalance", replay_massbalance.run_vector, v, lambda b: b.__setitem__("verdict", "ok"))
v = [x for x in one_vector("MC_System.tla", {"Emit": True, "Part": "defs"}, ["EmitInv"]) if not x["res"]["error"] and x["res"]["flows"]][0]
expect_problem("system", replay_system.run_vector, v, lambda b: b["res"]["flows"][0].__setitem__("toid", 7))
v = [x for x in one_vector("MC_Tables.tla", {"Part": "import", "MaxDims": 2, "MaxFaults": 0, "StyleIds": {1}, "Emit": True}, ["EmitInv"]) if len(x["result"]) > 2][0]
expect_problem("tables", replay_tables.run_vector, v, lambda b: b["result"][0].__setitem__(1, b["result"][0][1] + 1))
v = [x for x in one_vector("MC_Export.tla", {"Part": "sankey", "Schemes": {1}, "Emit": True, "Deep": False}, ["EmitInv"]) if x["links"]][0]
expect_problem("export", replay_export.run_vector, v, lambda b: b["links"][0].__setitem__(3, b["links"][0][3] + 1))
v = [x for x in one_vector("MC_StockObject.tla", {"MCVariant": "invalidating", "Depth": 3, "NDrivers": 2, "NPrms": 2, "Emit": True}, ["EmitInv"])
     if [s["op"] for s in x["hist"]] == ["set_prms", "compute", "set_driver"]]
v = v[0]
v["index"] = 0
expect_problem("stockobject", replay_stockobject.run_history, v, lambda b: b["hist"][1].__setitem__("driver", 2))

from harness import replay_lifecycle
v = [x for x in one_vector("MC_Lifecycle.tla", {"ModelId": 1, "Depth": 2, "Emit": True, "Rich": False}, ["EmitInv"]) if x["events"][0]["op"] == "compute"][0]
expect_problem("lifecycle", replay_lifecycle.run_vector, v, lambda b: b["events"][0]["state"]["slev"][0]["flat"][-1].__setitem__(0, b["events"][0]["state"]["slev"][0]["flat"][-1][0] + 1))
expect_problem("lifecycle/mb", replay_lifecycle.run_vector, v, lambda b: b["events"][0].__setitem__("failing_strict", ["A"]))

print("1b. binding of the trace specifications: one corrupted field of a recorded trace must lead to REJECTED")
from harness import trace_driver, trace_massbalance, trace_dimsets, trace_stocks, trace_tables


def expect_rejection(name, batch, validate, corrupt):
    acc, rej, _ = validate(batch)
    assert not rej, f"{name}: an unmodified recorded batch is rejected: {rej}"
    bad = copy.deepcopy(batch)
    tid = corrupt(bad)
    acc, rej, _ = validate(bad)
    ok = tid in rej and all(t in acc for t in range(1, len(bad["traces"]) + 1) if t != tid)
    print(f"  {name:12s} corrupted recorded field -> {'REJECTED at event %d: %s' % rej[tid] if tid in rej else 'ACCEPTED (binding broken!)'}"
          + ("" if ok or tid not in rej else "  (but other traces changed verdict!)"))
    if not ok:
        fails.append("trace:" + name)


def corrupt_ws(b):
    for tid, tr in enumerate(b["traces"], start=1):
        for e in tr["events"]:
            if e["outcome"] == "ok" and e["op"] in ("add", "mul") and e["post"][e["dst"]]["flat"]:
                e["post"][e["dst"]]["flat"][0] += 1
                return tid


def corrupt_mb(b):
    for tid, tr in enumerate(b["traces"], start=1):
        for e in tr["events"]:
            if e["op"] == "check_mb":
                e["outcome"] = "ok" if e["outcome"] == "fail" else "fail"
                return tid


def corrupt_ds(b):
    for tid, tr in enumerate(b["traces"], start=1):
        for e in tr["events"]:
            if e["op"] == "union" and len(e["post"][e["dst"]]["ids"]) >= 2:
                e["post"][e["dst"]]["ids"].reverse()
                return tid


def corrupt_st(b):
    for tid, tr in enumerate(b["traces"], start=1):
        for e in tr["events"][1:]:
            if e["op"] == "compute" and e["outcome"] == "ok" and tr["cls"] == "inflow":
                e["outcome_note"] = "corrupted"
                e["stock"][-1][0] = [e["stock"][-1][0][0] + e["stock"][-1][0][1], e["stock"][-1][0][1]]      # + 1
                return tid


def corrupt_tab(b):
    for tid, tr in enumerate(b["traces"], start=1):
        for e in tr["events"]:
            if e["outcome"] == "ok" and not e["extraitem"] and not e["anon"] and any(v not in (0,) for v in e["post"]):
                i = next(k for k, v in enumerate(e["post"]) if v != 0)
                e["post"][i] += 1
                return tid


def corrupt_life(b):
    for tid, tr in enumerate(b["traces"], start=1):
        for e in tr["events"]:
            if e["op"] == "export" and e["outcome"] == "ok" and e["flows"] and e["flows"][0]["rows"]:
                r = e["flows"][0]["rows"][0]
                r["v"] = [r["v"][0] + 1, r["v"][1] or 1]
                return tid


from harness import trace_lifecycle
expect_rejection("lifecycle", trace_lifecycle.record_batch(0, 5, 16, 5), trace_lifecycle.validate_batch, corrupt_life)
expect_rejection("tables", trace_tables.record_batch(8, 6, 5), trace_tables.validate_batch, corrupt_tab)
expect_rejection("stocks", trace_stocks.record_batch(8, 10, 5), trace_stocks.validate_batch, corrupt_st)
expect_rejection("workspace", trace_driver.record_batch(0, 6, 12, 5), trace_driver.validate_batch, corrupt_ws)
expect_rejection("massbalance", trace_massbalance.record_batch(0, 6, 12, 5), trace_massbalance.validate_batch, corrupt_mb)
expect_rejection("dimsets", trace_dimsets.record_batch(6, 20, 5), trace_dimsets.validate_batch, corrupt_ds)

print("2. non-vacuity: mutated models must violate their properties in TLC")


def expect_tlc_violation(name, module, consts, inv, patch):
    import re, shutil, tempfile
    src = open(os.path.join(tlcrun.SPEC, patch[0])).read()
    assert patch[1] in src, (name, "patch anchor not found")
    tmp = tempfile.mkdtemp(prefix="flodym-verif-selftest-")
    try:
        for root in (tlcrun.SPEC, os.path.join(tlcrun.SPEC, "mc")):
            for f in os.listdir(root):
                if f.endswith(".tla"):
                    shutil.copy(os.path.join(root, f), tmp)
        open(os.path.join(tmp, os.path.basename(patch[0])), "w").write(src.replace(patch[1], patch[2]))
        old = tlcrun.LIBPATH
        tlcrun.LIBPATH = tmp
        try:
            res = tlcrun.run_tlc(os.path.join(tmp, module), tlcrun.cfg_text(constants=consts, invariants=[inv]), workers=2)
            verdict = res.violation
        except tlcrun.TLCError as e:
            verdict = "error: " + str(e)[:100]
        finally:
            tlcrun.LIBPATH = old
    finally:
        shutil.rmtree(tmp, ignore_errors=True)
    ok = bool(verdict) and "violated" in str(verdict)
    print(f"  {name:34s} -> {verdict if verdict else 'NO VIOLATION (vacuous!)'}")
    if not ok:
        fails.append(name)


expect_tlc_violation("Add without summing to common dims", "MC_ArrayOps.tla", {"Pattern": "P222", "Family": "arith", "MaxDims": 2, "Seeds": {0}, "Emit": False},
                     "Prop_C01", ("Arrays.tla", "IN  Arr(ds, LAMBDA lab : PAdd(sx.val[lab], sy.val[lab]))", "IN  Arr(ds, LAMBDA lab : PAdd(sx.val[lab], sx.val[lab]))"))
expect_tlc_violation("cast that forgets a source dim", "MC_ArrayOps.tla", {"Pattern": "P222", "Family": "reduce", "MaxDims": 2, "Seeds": {0}, "Emit": False},
                     "Prop_C07", ("Arrays.tla", "ELSE Arr(target, LAMBDA lab : At(x, lab))", "ELSE Arr(target, LAMBDA lab : PAdd(At(x, lab), PConst(1)))"))
expect_tlc_violation("mass balance without sysenv mirror", "MC_MassBalance.tla", {"Schemes": {1}, "MaxFlows": 1, "Emit": False, "GModes": {1}},
                     "Prop_C02", ("MassBalance.tla", 'THEN {<<2, "stock", s>> : s \\in {u \\in S.stocks : S.sproc[u] # 0}} ELSE {})', "THEN {} ELSE {})"))
expect_tlc_violation("duplicates not refused", "MC_Tables.tla", {"Part": "import", "MaxDims": 1, "MaxFaults": 1, "StyleIds": {1}, "Emit": False},
                     "Prop_C12", ("Tables.tla", '    ELSE IF dups THEN "error"', '    ELSE IF dups THEN "array"'))
expect_tlc_violation("union that reorders", "MC_DimSets.tla", {"Scenario": "pairs", "Depth": 1, "MaxLen": 2, "Alphabet": {"A", "B", "C"}, "Emit": False,
                                                              **{f"{x}{i}": "" for x in "ST" for i in (1, 2, 3)}},
                     "Prop_Laws", ("DimSets.tla", "Union(s, t) == s \\o SelectSeq(t, LAMBDA d : ~HasLetter(s, d))", "Union(s, t) == SelectSeq(t, LAMBDA d : ~HasLetter(s, d)) \\o s"))
LIFE = {"ModelId": 1, "Depth": 2, "Emit": False, "Rich": False}
expect_tlc_violation("model run: compute keeps the old stock", "MC_Lifecycle.tla", LIFE, "Prop_Lifecycle",
                     ("Lifecycle.tla", "THEN LET tb == DsmTables(M, st, stmt.id) IN [st EXCEPT !.slev[stmt.id] = tb.lev, !.sout[stmt.id] = tb.out]",
                      "THEN LET tb == DsmTables(M, st, stmt.id) IN [st EXCEPT !.slev[stmt.id] = ASub(tb.lev, ANeg(st.slev[stmt.id])), !.sout[stmt.id] = tb.out]"))
expect_tlc_violation("model run: assignment by position", "MC_Lifecycle.tla", LIFE, "Prop_Lifecycle",
                     ("Lifecycle.tla", "Assigned(ds, x) == ASumTo(x, ds)", "Assigned(ds, x) == RA(ds, LAMBDA lab : ASumTo(x, ds).val[[l \\in DOMAIN lab |-> 1]])"))
expect_tlc_violation("model run: no sysenv mirror", "MC_Lifecycle.tla", LIFE, "Prop_Lifecycle",
                     ("Lifecycle.tla", 'THEN {<<2, "stock", s>> : s \\in {u \\in DOMAIN M.stocks : M.stocks[u].proc # 0}} ELSE {})', "THEN {} ELSE {})"))
res = tlcrun.run_tlc("MC_StockObject.tla", tlcrun.cfg_text(constants={"MCVariant": "stale", "Depth": 4, "NDrivers": 2, "NPrms": 2, "Emit": False}, invariants=["Prop_C17"]), workers=2)
print(f"  {'stale-cache stock object':34s} -> {res.violation or 'NO VIOLATION (vacuous!)'}")
if not res.violation:
    fails.append("stale")
print("SELFTEST", "FAILED: " + ", ".join(fails) if fails else "PASSED")
sys.exit(1 if fails else 0)
