#!/usr/bin/env python3
"""benign_table.py: benign/RESULTS.md from the verdicts recorded by tools/try_benign.py in benign/<id>/meta.json"""
import json, os
B = "/verif/benign"
rows, alarms = [], 0
for bid in sorted(os.listdir(B)):
    m = os.path.join(B, bid, "meta.json")
    if not os.path.exists(m): continue
    meta = json.load(open(m))
    notes = open(os.path.join(B, bid, "notes.md")).read().strip().splitlines() if os.path.exists(os.path.join(B, bid, "notes.md")) else [""]
    title = next((l.strip("# ").strip() for l in notes if l.strip()), "")[:110]
    v = meta.get("verdicts", {})
    alarms += sum(1 for x in v.values() if x != "silent")
    rows.append((bid, ", ".join(os.path.basename(f) for f in meta.get("touches", [])), title,
                 ", ".join(f"{k.split('/')[0]}: {x}" for k, x in sorted(v.items()))))
with open(os.path.join(B, "RESULTS.md"), "w") as f:
    f.write("# Semantics-preserving changes and what the checks say about them\n\n"
            "Each change was written by an independent sub-agent that saw only the property text and a scratch worktree and was asked for an invasive\n"
            "refactoring / optimisation / rewording that PRESERVES the property; it was confirmed (patch applies, 81 pinned tests pass, the agent's\n"
            "property demo passes with and without it).  `tools/try_benign.py` applies each patch to a scratch worktree and runs the quick check of its\n"
            "own property and of every other check whose engine exercises the touched module.  Expected verdict everywhere: silent.\n\n"
            f"Runs recorded: {sum(len(json.load(open(os.path.join(B, r[0], 'meta.json'))).get('verdicts', {})) for r in rows)}; "
            f"alarms or machinery failures: {alarms}.\n\n| id | touches | change | verdicts |\n|---|---|---|---|\n")
    for r in rows:
        f.write("| " + " | ".join(x.replace("|", "/") for x in r) + " |\n")
print(len(rows), "rows;", alarms, "non-silent")
