#!/usr/bin/env python3
"""soak_lifecycle.py <first_seed> <n_seeds> [ntraces] [nsteps]: record and validate lifecycle histories for many seeds on the tree in
FLODYM_REPO (default /repo); prints every rejection.  Used to look for false alarms / findings beyond what the registered tiers run."""
import sys, os, json
sys.path.insert(0, os.path.dirname(os.path.dirname(os.path.abspath(__file__))))
from harness import trace_lifecycle as tl
first, n = int(sys.argv[1]), int(sys.argv[2])
ntr = int(sys.argv[3]) if len(sys.argv) > 3 else 60
nst = int(sys.argv[4]) if len(sys.argv) > 4 else 30
tot = rejn = 0
for seed in range(first, first + n):
    for uid in (0, 1, 2):
        b = tl.record_batch(uid, ntr if uid < 2 else max(4, ntr // 6), nst, seed)
        acc, rej, res = tl.validate_batch(b, workers=6)
        tot += len(b["traces"]); rejn += len(rej)
        for tid, (pos, clause) in sorted(rej.items()):
            tr = b["traces"][tid - 1]
            print(f"REJECTED seed={seed} uid={uid} tid={tid} pos={pos} op={tr['events'][pos-1]['op']} :: {clause}", flush=True)
            path = f"/tmp/life_rej_{seed}_{uid}_{tid}.json"
            json.dump({"universe": b["universe"], "traces": [dict(tr, events=tr["events"][:pos])]}, open(path, "w"))
    print(f"seed {seed}: total {tot} traces, {rejn} rejected", flush=True)
