#!/usr/bin/env python3
"""Copy confirmed agent-made mutants from /tmp/mut/out into /verif/seeded/<prop>-<variant>/ with meta.json."""
import json, os, shutil, sys
SRC = (sys.argv[1] if len(sys.argv) > 1 else "/tmp/mut") + "/out"; DST = "/verif/seeded"
VARIANTS = tuple(sys.argv[2].split(",")) if len(sys.argv) > 2 else ("A", "B", "C", "D")
BASE = sys.argv[3] if len(sys.argv) > 3 else "bb5212a (pinned tree, before any fix: commit)"
for prop in sorted(os.listdir(SRC)):
    for var in VARIANTS:
        d = os.path.join(SRC, prop, var)
        if not os.path.exists(os.path.join(d, "verify.txt")):
            continue
        ver = dict(l.strip().split("=", 1) for l in open(os.path.join(d, "verify.txt")) if "=" in l)
        ok = ver.get("demo_clean_exit") == "0" and ver.get("applies") == "1" and ver.get("pytest_exit") == "0" and ver.get("demo_mut_exit") == "1"
        if not ok:
            print("NOT CONFIRMED", prop, var, ver); continue
        t = os.path.join(DST, f"{prop}-{var}")
        if os.path.exists(os.path.join(t, "meta.json")):
            continue
        os.makedirs(t, exist_ok=True)
        shutil.copy(os.path.join(d, "patch.diff"), t); shutil.copy(os.path.join(d, "demo.py"), t)
        notes = open(os.path.join(d, "notes.md")).read() if os.path.exists(os.path.join(d, "notes.md")) else ""
        meta = {"property": prop, "variant": var, "origin": "independent sub-agent given only the property text and a scratch worktree",
                "base_commit": BASE,
                "needs_to_manifest": notes,
                "confirmed_by_me": {"worktree": f"{os.path.dirname(SRC)}/{prop} (scratch, removed afterwards)",
                                    "demo_on_clean_tree_exit": 0, "patch_applies": True,
                                    "pinned_suite_with_patch": "81 passed", "demo_with_patch_exit": 1,
                                    "commands": ["git apply patch.diff", "PYTHONPATH=<wt> /venv/bin/python -m pytest -q -p no:cacheprovider --timeout=900 -x",
                                                 "PYTHONPATH=<wt> /venv/bin/python demo.py"]},
                "detected_by": {}}
        json.dump(meta, open(os.path.join(t, "meta.json"), "w"), indent=1)
        print("imported", prop, var)
